/- line protocol for C19: one pure call per line, evaluated on the *generated* definitions -/
import SemaModel.Base.DriverUtil
import SemaModel.Generated.Sortable
import SemaModel.Generated.Keys
import SemaModel.Generated.Conversion
namespace Sema.C19
open Sema Sema.Gen

def u64? (s : String) : Option (BitVec 64) := (natOfHex s).map (BitVec.ofNat 64)
def u8? (s : String) : Option Byte := (natOfHex s).map (BitVec.ofNat 8)
def hex64 (x : BitVec 64) : String := hexOfNat 16 x.toNat
def hex32 (x : BitVec 32) : String := hexOfNat 8 x.toNat
def b01 (b : Bool) : String := if b then "1" else "0"
def bytes? (s : String) : Option Bytes := if s == "-" then some [] else bytesOfHex s
def hexB (b : Bytes) : String := if b.isEmpty then "-" else hexOfBytes b

def chunk (n : Nat) : Nat → List Char → List String
  | 0, _ => []
  | fuel + 1, cs => if cs.isEmpty then [] else String.ofList (cs.take n) :: chunk n fuel (cs.drop n)

def words32? (s : String) : Option (List (BitVec 32)) :=
  if s == "-" then some [] else (chunk 8 s.length s.toList).mapM fun w => (natOfHex w).map (BitVec.ofNat 32)
def words64? (s : String) : Option (List (BitVec 64)) :=
  if s == "-" then some [] else (chunk 16 s.length s.toList).mapM fun w => (natOfHex w).map (BitVec.ofNat 64)
def hexW32 (l : List (BitVec 32)) : String := if l.isEmpty then "-" else String.join (l.map hex32)
def hexW64 (l : List (BitVec 64)) : String := if l.isEmpty then "-" else String.join (l.map hex64)

def step (line : String) : String :=
  let bad := "bad-op"
  match line.trimAscii.toString.splitOn " " with
  | ["u64enc", x] => match u64? x with | some v => hexB (Sortable.toByteSortable_uint64 v) | none => bad
  | ["i64enc", x] => match u64? x with | some v => hexB (Sortable.toByteSortable_int64 v) | none => bad
  | ["f64enc", x] => match u64? x with | some v => hexB (Sortable.toByteSortable_float64 v) | none => bad
  | ["strenc", x] => match bytes? x with | some v => hexB (Sortable.toByteSortable_string v) | none => bad
  | ["u64dec", x] => match bytes? x with | some v => hex64 (Sortable.fromByteSortable_uint64 v) | none => bad
  | ["i64dec", x] => match bytes? x with | some v => hex64 (Sortable.fromByteSortable_int64 v) | none => bad
  | ["f64dec", x] => match bytes? x with | some v => hex64 (Sortable.fromByteSortable_float64 v) | none => bad
  | ["strdec", x] => match bytes? x with | some v => hexB (Sortable.fromByteSortable_string v) | none => bad
  | ["fcmp", x, y] => match u64? x, u64? y with
      | some a, some b => s!"{b01 (F64.isNaN a)} {b01 (F64.lt a b)} {b01 (F64.le a b)} {b01 (F64.eq a b)} {b01 (F64.ge a F64.zero)}"
      | _, _ => bad
  | ["lex", x, y] => match bytes? x, bytes? y with
      | some a, some b => b01 (lexLt a b)
      | _, _ => bad
  | ["nodekey", x, s] => match u64? x, u8? s with
      | some a, some b => hexB (Keys.NodeKey a b) | _, _ => bad
  | ["nodeid", k, s] => match bytes? k, u8? s with
      | some a, some b => let r := Keys.NodeIdFromKey a b; s!"{hex64 r.1} {b01 r.2}" | _, _ => bad
  | ["pointkey", u, s] => match bytes? u, u8? s with
      | some a, some b => if a.length == 16 then hexB (Keys.PointKey a b) else bad | _, _ => bad
  | ["dockey", x] => match u64? x with | some a => hexB (Keys.documentKey a) | none => bad
  | ["docid", k] => match bytes? k with
      | some a => let r := Keys.docCacheItem_IdFromKey a; s!"{hex64 r.1} {b01 r.2}" | none => bad
  | ["termkey", t] => match bytes? t with | some a => hexB (Keys.termKey a) | none => bad
  | ["termid", k] => match bytes? k with
      | some a => let r := Keys.setCacheItem_IdFromKey a; s!"{hexB r.1} {b01 r.2}" | none => bad
  | ["u64tobytes", x] => match u64? x with | some a => hexB (Conversion.Uint64ToBytes a) | none => bad
  | ["bytestou64", k] => match bytes? k with | some a => hex64 (Conversion.BytesToUint64 a) | none => bad
  | ["f32tobytes", x] => match (natOfHex x) with | some a => hexB (Conversion.SingleFloat32ToBytes (BitVec.ofNat 32 a)) | none => bad
  | ["bytestof32", k] => match bytes? k with | some a => hex32 (Conversion.BytesToSingleFloat32 a) | none => bad
  | ["f32vecenc", v] => match words32? v with | some a => hexB (Conversion.float32ToBytesSafe a) | none => bad
  | ["f32vecdec", k] => match bytes? k with | some a => hexW32 (Conversion.bytesToFloat32Safe a) | none => bad
  | ["edgesenc", v] => match words64? v with | some a => hexB (Conversion.EdgeListToBytes a) | none => bad
  | ["edgesdec", k] => match bytes? k with | some a => hexW64 (Conversion.BytesToEdgeList a) | none => bad
  | _ => bad

end Sema.C19

def Sema.C19.driverMain (stdin stdout : IO.FS.Stream) (_args : List String) : IO Unit :=
  Sema.loopPure stdin stdout Sema.C19.step
