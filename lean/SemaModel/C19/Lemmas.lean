/- helper lemmas for C19 (encodings).  Core-only. -/
import SemaModel.Base.BytesLemmas
import SemaModel.Base.GoRt
namespace Sema.C19
open Sema

theorem xor_sign_toNat (x : BitVec 64) :
    (x ^^^ 0x8000000000000000#64).toNat = if x.toNat < 2^63 then x.toNat + 2^63 else x.toNat - 2^63 := by
  have hx : x = BitVec.cons x.msb (x.setWidth 63) := (BitVec.cons_msb_setWidth x).symm
  have hs : (0x8000000000000000#64) = BitVec.cons true (0#63) := by decide
  rw [hs]
  generalize x.setWidth 63 = l at hx
  generalize x.msb = b at hx
  subst hx
  rw [BitVec.cons_xor_cons]
  simp only [BitVec.toNat_cons']
  have := l.isLt
  cases b
  · simp; split <;> omega
  · simp; omega

theorem xor_ones_toNat (x : BitVec 64) : (x ^^^ 0xffffffffffffffff#64).toNat = 2^64 - 1 - x.toNat := by
  have : (0xffffffffffffffff#64) = BitVec.allOnes 64 := by decide
  rw [this, BitVec.xor_allOnes, BitVec.toNat_not]

theorem and_sign_ne_zero (x : BitVec 64) :
    ((x &&& 0x8000000000000000#64) != 0x0#64) = decide (2^63 ≤ x.toNat) := by
  have hx : x = BitVec.cons x.msb (x.setWidth 63) := (BitVec.cons_msb_setWidth x).symm
  have hs : (0x8000000000000000#64) = BitVec.cons true (0#63) := by decide
  have hz : (0x0#64) = BitVec.cons false (0#63) := by decide
  rw [hs, hz]
  generalize x.setWidth 63 = l at hx
  generalize x.msb = b at hx
  subst hx
  rw [BitVec.cons_and_cons]
  have h0 : l &&& 0#63 = 0#63 := by simp
  have := l.isLt
  rw [h0]
  cases b
  · have h1 : (BitVec.cons (false && true) (0#63) != BitVec.cons false (0#63)) = false := by decide
    rw [h1, BitVec.toNat_cons']; simp; omega
  · have h1 : (BitVec.cons (true && true) (0#63) != BitVec.cons false (0#63)) = true := by decide
    rw [h1, BitVec.toNat_cons']; simp

@[simp] theorem putBE64_zeros (v : BitVec 64) : Go.putBE64 (Go.zeros 8) 0 v = be64 v := by
  simp [Go.putBE64, Go.zeros, blit, be64]
@[simp] theorem putLE64_zeros (v : BitVec 64) : Go.putLE64 (Go.zeros 8) 0 v = le64 v := by
  simp [Go.putLE64, Go.zeros, blit, le64]
@[simp] theorem putLE32_zeros (v : BitVec 32) : Go.putLE32 (Go.zeros 4) 0 v = le32 v := by
  simp [Go.putLE32, Go.zeros, blit, le32]
@[simp] theorem getBE64_be64 (v : BitVec 64) : Go.getBE64 (be64 v) 0 = v := by simp [Go.getBE64]
@[simp] theorem getLE64_le64 (v : BitVec 64) : Go.getLE64 (le64 v) 0 = v := by simp [Go.getLE64]
@[simp] theorem getLE32_le32 (v : BitVec 32) : Go.getLE32 (le32 v) 0 = v := by simp [Go.getLE32]


theorem blit_append_zeros (pre enc : Bytes) (m : Nat) :
    blit (pre ++ Go.zeros (enc.length + m)) pre.length enc = pre ++ enc ++ Go.zeros m := by
  simp [blit, Go.zeros, List.drop_append, List.take_of_length_le]

/-- encoding loop: writing `enc x` at offset `i*w` for every element yields the concatenation -/
theorem forRangeAux_blit {α : Type} (enc : α → Bytes) (w : Nat) (hw : ∀ x, (enc x).length = w)
    (xs : List α) (pre : Bytes) (i : Nat) (hpre : pre.length = i * w) :
    Go.forRangeAux xs i (pre ++ Go.zeros (xs.length * w)) (fun i x b => blit b (i * w) (enc x))
      = pre ++ xs.flatMap enc := by
  induction xs generalizing pre i with
  | nil => simp [Go.forRangeAux, Go.zeros]
  | cons x rest ih =>
    simp only [Go.forRangeAux, List.length_cons, List.flatMap_cons]
    have h1 : (rest.length + 1) * w = (enc x).length + rest.length * w := by
      rw [hw x, Nat.add_mul]; omega
    rw [h1, ← hpre, blit_append_zeros]
    have := ih (pre ++ enc x) (i + 1) (by simp [hpre, hw x, Nat.add_mul])
    rw [this, List.append_assoc]

theorem forRange_blit {α : Type} (enc : α → Bytes) (w : Nat) (hw : ∀ x, (enc x).length = w) (xs : List α) :
    Go.forRange xs (Go.zeros (xs.length * w)) (fun i x b => blit b (i * w) (enc x)) = xs.flatMap enc := by
  have := forRangeAux_blit enc w hw xs [] 0 (by simp)
  simpa [Go.forRange] using this

theorem flatMap_length {α : Type} (enc : α → Bytes) (w : Nat) (hw : ∀ x, (enc x).length = w) (xs : List α) :
    (xs.flatMap enc).length = xs.length * w := by
  induction xs with
  | nil => simp
  | cons x r ih => simp [ih, hw x, Nat.add_mul]; omega

/-- `for i := range f { f[i] = g i }` over a slice of length n -/
theorem forN_set {α : Type} (g : Nat → α) (init : List α) (k : Nat) (hk : k ≤ init.length) :
    Go.forN k init (fun i f => List.set f i (g i)) = (List.range k).map g ++ init.drop k := by
  induction k with
  | zero => simp [Go.forN]
  | succ k ih =>
    have := ih (by omega)
    simp only [Go.forN] at this ⊢
    rw [List.range_succ, List.foldl_append, this]
    simp only [List.foldl_cons, List.foldl_nil, List.map_append, List.map_cons, List.map_nil]
    have hl : ((List.range k).map g).length = k := by simp
    rw [List.set_append_right _ _ (by omega)]
    simp only [hl, Nat.sub_self]
    have hd : init.drop k = init[k] :: init.drop (k + 1) := by
      rw [List.drop_eq_getElem_cons]
    rw [hd, List.set_cons_zero]; simp


theorem drop_flatMap {α : Type} (enc : α → Bytes) (w : Nat) (hw : ∀ x, (enc x).length = w)
    (l : List α) (i : Nat) (hi : i < l.length) :
    (l.flatMap enc).drop (i * w) = enc l[i] ++ (l.drop (i + 1)).flatMap enc := by
  induction l generalizing i with
  | nil => simp at hi
  | cons x r ih =>
    cases i with
    | zero => simp
    | succ j =>
      have hj : j < r.length := by simpa using hi
      simp only [List.flatMap_cons, List.getElem_cons_succ, List.drop_succ_cons]
      rw [show (j + 1) * w = (enc x).length + j * w by rw [hw x, Nat.add_mul]; omega]
      rw [← List.drop_drop, List.drop_left, ih j hj]

/-- decode loop over the concatenation of fixed-width encodings returns the list -/
theorem forN_decode {α : Type} (enc : α → Bytes) (dec : Bytes → α) (w : Nat) (hw : ∀ x, (enc x).length = w)
    (hdec : ∀ x rest, dec (enc x ++ rest) = x) (d : α) (l : List α) :
    Go.forN l.length (List.replicate l.length d) (fun i f => List.set f i (dec ((l.flatMap enc).drop (i * w)))) = l := by
  rw [forN_set (fun i => dec ((l.flatMap enc).drop (i * w))) _ _ (by simp)]
  simp only [List.drop_replicate, Nat.sub_self, List.replicate_zero, List.append_nil]
  apply List.ext_getElem
  · simp
  · intro i h1 h2
    simp only [List.getElem_map, List.getElem_range]
    rw [drop_flatMap enc w hw l i h2, hdec]


end Sema.C19
