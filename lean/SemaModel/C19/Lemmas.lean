/- helper lemmas for C19 (encodings).  Core-only. -/
import SemaModel.Base.BytesLemmas
import SemaModel.Base.GoRt
namespace Sema.C19
open Sema

theorem xor_sign_toNat (x : BitVec 64) :
    (x ^^^ 0x8000000000000000#64).toNat = if x.toNat < 2^63 then x.toNat + 2^63 else x.toNat - 2^63 := by
  have hx : x = BitVec.cons x.msb (x.setWidth 63) := (BitVec.cons_msb_setWidth x).symm
  have hs : (0x8000000000000000#64) = BitVec.cons true (0#63) := by decide
  rw [hs]
  generalize x.setWidth 63 = l at hx
  generalize x.msb = b at hx
  subst hx
  rw [BitVec.cons_xor_cons]
  simp only [BitVec.toNat_cons']
  have := l.isLt
  cases b
  · simp; split <;> omega
  · simp; omega

theorem xor_ones_toNat (x : BitVec 64) : (x ^^^ 0xffffffffffffffff#64).toNat = 2^64 - 1 - x.toNat := by
  have : (0xffffffffffffffff#64) = BitVec.allOnes 64 := by decide
  rw [this, BitVec.xor_allOnes, BitVec.toNat_not]

theorem and_sign_ne_zero (x : BitVec 64) :
    ((x &&& 0x8000000000000000#64) != 0x0#64) = decide (2^63 ≤ x.toNat) := by
  have hx : x = BitVec.cons x.msb (x.setWidth 63) := (BitVec.cons_msb_setWidth x).symm
  have hs : (0x8000000000000000#64) = BitVec.cons true (0#63) := by decide
  have hz : (0x0#64) = BitVec.cons false (0#63) := by decide
  rw [hs, hz]
  generalize x.setWidth 63 = l at hx
  generalize x.msb = b at hx
  subst hx
  rw [BitVec.cons_and_cons]
  have h0 : l &&& 0#63 = 0#63 := by simp
  have := l.isLt
  rw [h0]
  cases b
  · have h1 : (BitVec.cons (false && true) (0#63) != BitVec.cons false (0#63)) = false := by decide
    rw [h1, BitVec.toNat_cons']; simp; omega
  · have h1 : (BitVec.cons (true && true) (0#63) != BitVec.cons false (0#63)) = true := by decide
    rw [h1, BitVec.toNat_cons']; simp

@[simp] theorem putBE64_zeros (v : BitVec 64) : Go.putBE64 (Go.zeros 8) 0 v = be64 v := by
  simp [Go.putBE64, Go.zeros, blit, be64]
@[simp] theorem putLE64_zeros (v : BitVec 64) : Go.putLE64 (Go.zeros 8) 0 v = le64 v := by
  simp [Go.putLE64, Go.zeros, blit, le64]
@[simp] theorem putLE32_zeros (v : BitVec 32) : Go.putLE32 (Go.zeros 4) 0 v = le32 v := by
  simp [Go.putLE32, Go.zeros, blit, le32]
@[simp] theorem getBE64_be64 (v : BitVec 64) : Go.getBE64 (be64 v) 0 = v := by simp [Go.getBE64]
@[simp] theorem getLE64_le64 (v : BitVec 64) : Go.getLE64 (le64 v) 0 = v := by simp [Go.getLE64]
@[simp] theorem getLE32_le32 (v : BitVec 32) : Go.getLE32 (le32 v) 0 = v := by simp [Go.getLE32]

end Sema.C19
