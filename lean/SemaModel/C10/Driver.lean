/-
line protocol for C10 (core-only):
  wf R=<r> L=<ids> max=<n> V=<ids> N=<id:e,e;id:...>
      → "1"/"0": the executable predicate `wfB` (the definition `WF` of the theorems) on a dump of the
        real index
  step R= ss= chg=<id>:<0|1> ord=<ids> max= V= N= q=<b:key,...> p=<a:b:key:alphakey,...> xmax= xV= xN=
      → "ok max=.. V=.. N=.." : `apply` (the model of insertUpdateDelete) on the previous dump for a
        batch of one change, with the real distances; or "err".
        `ord` is the oracle for the Go map order in which EdgeScan lists the nodes to rescue
        (DESIGN 3.3).  The harness proposes the order seen in the entry node's new edge list; when a later
        prune of the entry node has destroyed that information the driver looks for SOME order of the
        rescued nodes under which the model produces the implementation's dump (x-fields); the model is
        nondeterministic exactly there, so membership in its outcome set is what is checked.
  batch R= ss= L=<ids> chg=<id>:<0|1>,… max= V= N=            (the dump BEFORE the batch)
        ea=<0|1> aq=<a:b:key,…> ap=<a:b:key:alphakey,…>        (distances of the insert phase)
        mid=<0|1> mmax= mN=                                     (node store once the insert workers are done; hook)
        ord=<ids>                                               (EdgeScan's toSave, in the order it was returned)
        et=<0|1> tq=<a:b:key,…> tp=<a:b:key:alphakey,…>        (distances of the single-threaded rest)
      → "cls ins= upd= del= tch= max= | mid wf= K= [N=] | scan prune= save= | fin max= V= (K=|N=)"
        a batch of SEVERAL changes.  `cls`: the bookkeeping `classes` (no graph, no distance) — compared
        with what the transform function of insertUpdateDelete filed.  `mid`: what the model says about the
        graph the insert workers leave, independently of their interleaving: its node set (K), that it is
        well-formed for the old live points plus `ins` (wf: `wfB` on the OBSERVED mid graph), and — when at
        most one point was handed to the workers (ea=1) — its exact edge lists (`classifyAll`).  `scan`:
        `toPrune` / `toSave` on the observed mid graph.  `fin`: `tail` run FROM THE OBSERVED MID GRAPH with
        the classes of `cls` must give the dump after the batch exactly (et=1), else its node/vector sets.
  docs vp=<k.k.k> S=<id>=<doc>;… ops=<ins|upd|del>@<id>@<doc|~>;…
      [T=<id>:<tag|->,…]
      → "ok <id>:<tag|->,… [| vec <id>:<tag|->,…]" | "err": `pbatch` on the stored documents of the points the
        batch names — the whole change stream of a multi-element batch, points named several times included —
        and (plain store) `vecsAfter`: which vector the index holds per node after consuming that stream
  doc vp=<k.k.k> op=<ins|upd|del> id=<n> old=<doc|~> inc=<doc|~> was=<0|1> wasvec=<tag|-> raw=<0|1>
      → "new=<doc|~> inV=<0|1> vec=<tag|-|?>": `pstep` (the shard's transform function + `getOperation` /
        `preProcessVamana` for the vector index on schema path vp) on the stored document `old` and the
        incoming document `inc`: the document stored afterwards, whether the index holds a vector for the
        node after consuming the emitted change (it did iff was=1), and which (plain store only: raw=1).
        doc = "{}" | path:leaf,… with leaf N | D | V<tag> | X | O, entries sorted by path.
-/
import SemaModel.Base.DriverUtil
import SemaModel.C10.Model
import Std.Data.HashMap
namespace Sema.C10
open Sema.C03

def field (toks : List String) (k : String) : String :=
  match toks.find? (fun t => t.startsWith (k ++ "=")) with
  | some t => (t.drop (k.length + 1)).toString
  | none => ""

def natList (s : String) : List Nat :=
  if s.isEmpty then [] else (s.splitOn ",").filterMap String.toNat?

def parseNodes (s : String) : List (Nat × List Nat) :=
  if s.isEmpty then [] else
  (s.splitOn ";").filterMap fun e =>
    match e.splitOn ":" with
    | [i, es] => i.toNat?.map (fun n => (n, natList es))
    | _ => none

def parseGraph (toks : List String) : Graph :=
  { nodes := parseNodes (field toks "N"), vecs := natList (field toks "V"),
    maxId := (field toks "max").toNat?.getD 0 }

def sortNat (l : List Nat) : List Nat := (l.toArray.qsort (· < ·)).toList

def showIds (l : List Nat) : String := ",".intercalate (l.map toString)

def showGraph (g : Graph) : String :=
  let ns := (g.nodes.toArray.qsort (fun a b => a.1 < b.1)).toList
  s!"max={g.maxId} V={showIds (sortNat g.vecs)} N={";".intercalate (ns.map fun n => s!"{n.1}:{showIds n.2}")}"

def parseQ (s : String) : Std.HashMap Nat Nat :=
  if s.isEmpty then {} else
  (s.splitOn ",").foldl (fun m e =>
    match e.splitOn ":" with
    | [b, k] => match b.toNat?, k.toNat? with
      | some b, some k => m.insert b k
      | _, _ => m
    | _ => m) {}

def parseP (s : String) : Std.HashMap (Nat × Nat) (Nat × Nat) :=
  if s.isEmpty then {} else
  (s.splitOn ",").foldl (fun m e =>
    match e.splitOn ":" with
    | [a, b, k, ak] => match a.toNat?, b.toNat?, k.toNat?, ak.toNat? with
      | some a, some b, some k, some ak => m.insert (a, b) (k, ak)
      | _, _, _, _ => m
    | _ => m) {}

def perms : List Nat → List (List Nat)
  | [] => [[]]
  | x :: xs => (perms xs).flatMap fun p => (List.range (p.length + 1)).map fun i => p.take i ++ x :: p.drop i

def parseLeaf (s : String) : Leaf :=
  if s == "N" then .nil else if s == "D" then .del else if s == "O" then .obj
  else if s.startsWith "V" then .vec ((s.drop 1).toString.toNat?.getD 0) else .other

def parseDoc (s : String) : Option Doc :=
  if s == "~" then none else if s == "{}" then some [] else
  some ((s.splitOn ",").filterMap fun e =>
    match e.splitOn ":" with
    | [p, l] => some ((p.splitOn ".").filterMap String.toNat?, parseLeaf l)
    | _ => none)

def pathLt : List Nat → List Nat → Bool
  | [], [] => false
  | [], _ :: _ => true
  | _ :: _, [] => false
  | a :: as, b :: bs => if a < b then true else if b < a then false else pathLt as bs

def showLeaf : Leaf → String
  | .nil => "N" | .del => "D" | .obj => "O" | .other => "X" | .vec t => s!"V{t}"

def showDoc : Option Doc → String
  | none => "~"
  | some [] => "{}"
  | some d =>
    let es := (d.toArray.qsort (fun a b => pathLt a.1 b.1)).toList
    ",".intercalate (es.map fun e => ".".intercalate (e.1.map toString) ++ ":" ++ showLeaf e.2)

def docStep (rest : List String) : String :=
  let vp := ((field rest "vp").splitOn ".").filterMap String.toNat?
  let id := (field rest "id").toNat?.getD 0
  let old := parseDoc (field rest "old")
  let inc := parseDoc (field rest "inc")
  let S : PStore := match old with | some d => [(id, d)] | none => []
  let op : Option POp :=
    match field rest "op", inc with
    | "ins", some d => some (.ins id d)
    | "upd", some d => some (.upd id d)
    | "del", _ => some (.del id)
    | _, _ => none
  match op with
  | none => "bad-op"
  | some op =>
    match pstep vp S op with
    | .error _ => "err"
    | .ok (S', c) =>
      let T : Id → Option Nat := fun j =>
        if j == id && field rest "was" == "1" then some ((field rest "wasvec").toNat?.getD 0) else none
      let v := vecsAfter T c.toList id
      let vec := if field rest "raw" == "1" then (match v with | some t => toString t | none => "-") else "?"
      s!"new={showDoc (docOf S' id)} inV={if v.isSome then 1 else 0} vec={vec}"


def parseQ2 (s : String) : Std.HashMap (Nat × Nat) Nat :=
  if s.isEmpty then {} else
  (s.splitOn ",").foldl (fun m e =>
    match e.splitOn ":" with
    | [a, b, k] => match a.toNat?, b.toNat?, k.toNat? with
      | some a, some b, some k => m.insert (a, b) k
      | _, _, _ => m
    | _ => m) {}

def mkDists (q : Std.HashMap (Nat × Nat) Nat) (p : Std.HashMap (Nat × Nat) (Nat × Nat)) : Dists Nat :=
  { q := fun a b => q.getD (a, b) 0, p := fun a b => (p.getD (a, b) (0, 0)).1, ap := fun a b => (p.getD (a, b) (0, 0)).2 }

def parseChanges (s : String) : List Change :=
  if s.isEmpty then [] else
  (s.splitOn ",").filterMap fun e =>
    match e.splitOn ":" with
    | [i, hv] => i.toNat?.map (fun id => { id := id, hasVector := hv == "1" })
    | _ => none

def dedupSorted (l : List Nat) : List Nat := (sortNat l).eraseDups

def showNodes (ns : List (Nat × List Nat)) : String :=
  let ns := (ns.toArray.qsort (fun a b => a.1 < b.1)).toList
  ";".intercalate (ns.map fun n => s!"{n.1}:{showIds n.2}")

def batchStep (rest : List String) : String :=
  let g := parseGraph rest
  let cfg : Cfg := { degreeBound := (field rest "R").toNat?.getD 0, searchSize := (field rest "ss").toNat?.getD 0 }
  let L := natList (field rest "L")
  let batch := parseChanges (field rest "chg")
  if batch.any (fun c => c.id == entry || c.id == 0) then "err reserved-id" else
  let k := classes true g.hasVec g.maxId batch
  let cls := s!"cls ins={showIds (sortNat k.ins)} upd={showIds k.upd} del={showIds k.del} tch={showIds (dedupSorted k.tch)} max={k.maxId}"
  let ea := field rest "ea" == "1"
  let et := field rest "et" == "1"
  let hasMid := field rest "mid" == "1"
  let midK := dedupSorted (g.keys ++ k.ins)
  let midV := dedupSorted (g.vecs ++ k.ins)
  -- the insert phase of the sequential model (exact when at most one point goes to the workers)
  let seqMid : Option Graph :=
    if ea then
      match classifyAll true cfg (mkDists (parseQ2 (field rest "aq")) (parseP (field rest "ap"))) batch { g := g } with
      | .ok acc => some acc.g
      | .error _ => none
    else none
  -- the graph handed to the single-threaded rest: observed (hook) when there is one, else the model's own
  let obsMid : Graph := { nodes := parseNodes (field rest "mN"), vecs := midV, maxId := (field rest "mmax").toNat?.getD 0 }
  let midWf := if hasMid then (if wfB cfg.degreeBound obsMid (L ++ k.ins) then "1" else "0") else "-"
  let midN :=
    if ea then
      match seqMid with
      | some m => " N=" ++ showNodes m.nodes
      | none => " N=err"
    else ""
  let mid := s!"mid wf={midWf} K={showIds midK}{midN}"
  let S := k.tch
  let ord := natList (field rest "ord")
  let scan :=
    if hasMid && !S.isEmpty then
      s!"scan prune={showIds (sortNat (toPrune S obsMid))} save={showIds (sortNat (toSave S ord obsMid))}"
    else "scan prune= save="
  let finSets (K V : List Nat) (mx : Nat) : String := s!"fin max={mx} V={showIds V} K={showIds K}"
  let notDel := fun (i : Nat) => !k.del.contains i
  let fin :=
    if S.isEmpty then
      -- nothing after the insert phase: the dump after the batch IS the mid graph
      match ea, seqMid with
      | true, some m => "fin " ++ showGraph m
      | true, none => "fin err"
      | false, _ => finSets midK midV k.maxId
    else if hasMid && et then
      let acc : Acc := { g := obsMid, updated := k.upd, deleted := k.del, touched := k.tch }
      match tail cfg (mkDists (parseQ2 (field rest "tq")) (parseP (field rest "tp"))) ord acc with
      | .ok g' => "fin " ++ showGraph g'
      | .error _ => "fin err"
    else finSets (midK.filter notDel) (midV.filter notDel) k.maxId
  s!"{cls} | {mid} | {scan} | {fin}"

def docsStep (rest : List String) : String :=
  let toks := rest
  let vp := ((field rest "vp").splitOn ".").filterMap String.toNat?
  let S : PStore :=
    if (field rest "S").isEmpty then [] else
    ((field rest "S").splitOn ";").filterMap fun e =>
      match e.splitOn "=" with
      | [i, d] => match i.toNat?, parseDoc d with
        | some id, some doc => some (id, doc)
        | _, _ => none
      | _ => none
  let ops : List (Option POp) :=
    if (field rest "ops").isEmpty then [] else
    ((field rest "ops").splitOn ";").map fun e =>
      match e.splitOn "@" with
      | [k, i, d] =>
        match i.toNat? with
        | none => none
        | some id =>
          match k, parseDoc d with
          | "ins", some doc => some (.ins id doc)
          | "upd", some doc => some (.upd id doc)
          | "del", _ => some (.del id)
          | _, _ => none
      | _ => none
  if ops.any Option.isNone then "bad-op" else
  match pbatch vp (ops.filterMap id) S with
  | .error _ => "err"
  | .ok (_, cs) =>
    let stream :=
      if cs.isEmpty then "ok" else
      "ok " ++ ",".intercalate (cs.map fun c => s!"{c.id}:{match c.vec with | some t => toString t | none => "-"}")
    -- `T=<id>:<tag|->,…` (plain store): which vector the index held per node before the batch; the model's
    -- `vecsAfter` along the emitted stream says which it holds afterwards
    match toks.find? (fun t => t.startsWith "T=") with
    | none => stream
    | some _ =>
      let tab : List (Nat × Option Nat) :=
        if (field rest "T").isEmpty then [] else
        ((field rest "T").splitOn ",").filterMap fun e =>
          match e.splitOn ":" with
          | [i, t] => i.toNat?.map (fun n => (n, t.toNat?))
          | _ => none
      let T : Id → Option Nat := fun j => ((tab.find? (·.1 == j)).map (·.2)).getD none
      let ids := dedupSorted (cs.map (·.id))
      stream ++ " | vec " ++ ",".intercalate (ids.map fun i =>
        s!"{i}:{match vecsAfter T cs i with | some t => toString t | none => "-"}")

def step (line : String) : String :=
  let toks := line.trimAscii.toString.splitOn " "
  match toks with
  | "wf" :: rest =>
    let g := parseGraph rest
    let R := (field rest "R").toNat?.getD 0
    if wfB R g (natList (field rest "L")) then "1" else "0"
  | "step" :: rest =>
    let g := parseGraph rest
    let cfg : Cfg := { degreeBound := (field rest "R").toNat?.getD 0, searchSize := (field rest "ss").toNat?.getD 0 }
    let q := parseQ (field rest "q")
    let p := parseP (field rest "p")
    match (field rest "chg").splitOn ":" with
    | [i, hv] =>
      match i.toNat? with
      | none => "bad-op"
      | some id =>
        let ds : Dists Nat :=
          { q := fun _ b => q.getD b 0, p := fun a b => (p.getD (a, b) (0, 0)).1, ap := fun a b => (p.getD (a, b) (0, 0)).2 }
        let run (ord : List Nat) : String :=
          match apply cfg ds ord g [{ id := id, hasVector := hv == "1" }] with
          | .ok g' => "ok " ++ showGraph g'
          | .error _ => "err"
        let expect := s!"ok max={field rest "xmax"} V={field rest "xV"} N={field rest "xN"}"
        let first := run (natList (field rest "ord"))
        if first == expect then first
        else
          let saved := toSave (if g.hasVec id then [id] else []) [] g
          if saved.length ≤ 6 then
            match (perms saved).find? (fun o => run o == expect) with
            | some _ => expect
            | none => first
          else first
    | _ => "bad-op"
  | "doc" :: rest => docStep rest
  | "batch" :: rest => batchStep rest
  | "docs" :: rest => docsStep rest
  | _ => "skip (not a model line)"

end Sema.C10

def Sema.C10.driverMain (stdin stdout : IO.FS.Stream) (_args : List String) : IO Unit :=
  Sema.loopPure stdin stdout Sema.C10.step
