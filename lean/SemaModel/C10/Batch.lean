/-
C10 — multi-change batches and the insert workers.

`classes` (Model.lean) is the bookkeeping of the transform function at the head of `insertUpdateDelete`
alone: no graph, no distance.  This file proves
  * `KInv`: the invariant of that bookkeeping (pure list reasoning),
  * `classifyAll_classes`: the sequential model's `classifyAll` files every change exactly as `classes`
    does, for every distance oracle,
  * `tail_any_mid`: from ANY graph that is well-formed for the old live points plus the points handed to
    the insert workers, the single-threaded rest of the batch (`tail`) re-establishes `WF`.
-/
import SemaModel.C10.Lemmas
set_option linter.unusedSectionVars false
namespace Sema.C10
open Sema.C03

/-- invariant of the bookkeeping (`has0` = `vecStore.Exists` before the batch, `L` = the live points
carrying the field after the changes seen so far) -/
structure KInv (has0 : Id → Bool) (k : Classes) (L : List Id) : Prop where
  insNew : ∀ i ∈ k.ins, has0 i = false
  insNd : k.ins.Nodup
  insMax : ∀ i ∈ k.ins, i ≤ k.maxId
  tsub : ∀ i ∈ k.tch, (has0 i = true ∨ i ∈ k.ins) ∧ i ≠ entry
  tud : ∀ i, i ∈ k.tch ↔ (i ∈ k.upd ∨ i ∈ k.del)
  disj : ∀ i, i ∈ k.upd → i ∉ k.del
  live : ∀ i, ((has0 i = true ∨ i ∈ k.ins) ∧ i ∉ k.del) ↔ (i = entry ∨ i ∈ L)
  lnd : L.Nodup
  lne : entry ∉ L

/-- the `forget what it was filed under` step of the repaired code (`lw = false`: the tree before the repair) -/
def Classes.forget (lw : Bool) (k : Classes) (i : Id) : Classes :=
  if (lw && k.tch.contains i) = true then
    { k with upd := k.upd.filter (· != i), del := k.del.filter (· != i) }
  else k

def Acc.forget (lw : Bool) (acc : Acc) (i : Id) : Acc :=
  if (lw && acc.touched.contains i) = true then
    { acc with updated := acc.updated.filter (· != i), deleted := acc.deleted.filter (· != i) }
  else acc

theorem forget_upd (k : Classes) (c j : Id) (htud : ∀ i, i ∈ k.tch ↔ (i ∈ k.upd ∨ i ∈ k.del)) :
    j ∈ (k.forget true c).upd ↔ j ∈ k.upd ∧ j ≠ c := by
  unfold Classes.forget
  split
  · simp [List.mem_filter]
  · rename_i hc
    have : c ∉ k.tch := by simpa using hc
    have := htud c
    grind

theorem forget_del (k : Classes) (c j : Id) (htud : ∀ i, i ∈ k.tch ↔ (i ∈ k.upd ∨ i ∈ k.del)) :
    j ∈ (k.forget true c).del ↔ j ∈ k.del ∧ j ≠ c := by
  unfold Classes.forget
  split
  · simp [List.mem_filter]
  · rename_i hc
    have : c ∉ k.tch := by simpa using hc
    have := htud c
    grind

theorem forget_ins (lw : Bool) (k : Classes) (c : Id) : (k.forget lw c).ins = k.ins := by unfold Classes.forget; split <;> rfl
theorem forget_tch (lw : Bool) (k : Classes) (c : Id) : (k.forget lw c).tch = k.tch := by unfold Classes.forget; split <;> rfl
theorem forget_max (lw : Bool) (k : Classes) (c : Id) : (k.forget lw c).maxId = k.maxId := by unfold Classes.forget; split <;> rfl

theorem classStep_eq (lw : Bool) (has0 : Id → Bool) (k : Classes) (c : Change) :
    classStep lw has0 k c =
      (match k.ins.contains c.id || has0 c.id, c.hasVector with
       | false, false => k.forget lw c.id
       | false, true => { (k.forget lw c.id) with ins := (k.forget lw c.id).ins ++ [c.id], maxId := if c.id > (k.forget lw c.id).maxId then c.id else (k.forget lw c.id).maxId }
       | true, true => { (k.forget lw c.id) with upd := (k.forget lw c.id).upd ++ [c.id], tch := c.id :: (k.forget lw c.id).tch }
       | true, false => { (k.forget lw c.id) with del := (k.forget lw c.id).del ++ [c.id], tch := c.id :: (k.forget lw c.id).tch }) := rfl

theorem classStep_inv (has0 : Id → Bool) (k : Classes) (L : List Id) (c : Change)
    (hI : KInv has0 k L) (hce : c.id ≠ entry) : KInv has0 (classStep true has0 k c) (liveStep L c) := by
  have hlm := liveStep_mem L c
  have hnd := liveStep_nodup L c hI.lnd
  obtain ⟨hin, hind, himx, hts, htud, hdj, hlv, _, hle⟩ := hI
  have hU := fun j => forget_upd k c.id j htud
  have hDl := fun j => forget_del k c.id j htud
  have hIn := forget_ins true k c.id
  have hT := forget_tch true k c.id
  have hM := forget_max true k c.id
  rw [classStep_eq]
  generalize k.forget true c.id = k1 at hU hDl hIn hT hM
  have hex : (k.ins.contains c.id || has0 c.id) = true ↔ (has0 c.id = true ∨ c.id ∈ k.ins) := by
    simp [Bool.or_eq_true]; exact Or.comm
  split
  · -- not stored, no vector: skip
    rename_i hexf hcv
    have hn : ¬ (has0 c.id = true ∨ c.id ∈ k.ins) := by
      intro h; have := hex.mpr h; rw [hexf] at this; cases this
    refine ⟨by rw [hIn]; exact hin, by rw [hIn]; exact hind, by rw [hIn, hM]; exact himx, ?_, ?_, ?_, ?_, hnd, ?_⟩
    · intro i hi; rw [hT] at hi; rw [hIn]; exact hts i hi
    · intro i; rw [hT, hU, hDl]; have := htud i; have := hts i; grind
    · intro i; rw [hU, hDl]; have := hdj i; grind
    · intro i; rw [hIn, hDl, hlm]; have := hlv i; have := hlv c.id; grind
    · rw [hlm]; grind
  · -- not stored, vector: handed to the insert workers
    rename_i hexf hcv
    have hn : ¬ (has0 c.id = true ∨ c.id ∈ k.ins) := by
      intro h; have := hex.mpr h; rw [hexf] at this; cases this
    refine ⟨?_, ?_, ?_, ?_, ?_, ?_, ?_, hnd, ?_⟩
    · intro i hi
      simp only [hIn, List.mem_append, List.mem_singleton] at hi
      rcases hi with hi | hi
      · exact hin i hi
      · subst hi
        cases h : has0 c.id with
        | false => rfl
        | true => exact absurd (Or.inl h) hn
    · simp only [hIn]
      rw [List.nodup_append]
      refine ⟨hind, by simp, ?_⟩
      intro a ha b hb
      simp at hb; subst hb
      intro e; subst e; exact hn (Or.inr ha)
    · intro i hi
      simp only [hIn, hM, List.mem_append, List.mem_singleton] at hi ⊢
      by_cases hgt : c.id > k.maxId
      · rw [if_pos hgt]
        rcases hi with hi | hi
        · exact Nat.le_trans (himx i hi) (Nat.le_of_lt hgt)
        · subst hi; exact Nat.le_refl _
      · rw [if_neg hgt]
        rcases hi with hi | hi
        · exact himx i hi
        · subst hi; exact Nat.le_of_not_gt hgt
    · intro i hi
      simp only [hT] at hi
      simp only [hIn, List.mem_append, List.mem_singleton]
      have := hts i hi
      exact ⟨by rcases this.1 with h | h; exact Or.inl h; exact Or.inr (Or.inl h), this.2⟩
    · intro i; simp only [hT, hU, hDl]; have := htud i; have := hts i; grind
    · intro i; simp only [hU, hDl]; have := hdj i; grind
    · intro i
      simp only [hIn, hDl, hlm, List.mem_append, List.mem_singleton]
      have := hlv i; have := hlv c.id; have := htud c.id; have := hts c.id; grind
    · rw [hlm]; grind
  · -- stored, vector: update
    rename_i hext hcv
    have hy : has0 c.id = true ∨ c.id ∈ k.ins := hex.mp hext
    refine ⟨by simp only [hIn]; exact hin, by simp only [hIn]; exact hind, by simp only [hIn, hM]; exact himx, ?_, ?_, ?_, ?_, hnd, ?_⟩
    · intro i hi
      simp only [hT, List.mem_cons] at hi
      simp only [hIn]
      rcases hi with rfl | hi
      · exact ⟨hy, hce⟩
      · exact hts i hi
    · intro i
      simp only [hT, List.mem_cons, List.mem_append, List.mem_singleton, hU, hDl]
      have := htud i; grind
    · intro i
      simp only [List.mem_append, List.mem_singleton, hU, hDl]
      have := hdj i; grind
    · intro i
      simp only [hIn, hDl, hlm]
      have := hlv i; have := hlv c.id; grind
    · rw [hlm]; grind
  · -- stored, no vector: delete
    rename_i hext hcv
    have hy : has0 c.id = true ∨ c.id ∈ k.ins := hex.mp hext
    refine ⟨by simp only [hIn]; exact hin, by simp only [hIn]; exact hind, by simp only [hIn, hM]; exact himx, ?_, ?_, ?_, ?_, hnd, ?_⟩
    · intro i hi
      simp only [hT, List.mem_cons] at hi
      simp only [hIn]
      rcases hi with rfl | hi
      · exact ⟨hy, hce⟩
      · exact hts i hi
    · intro i
      simp only [hT, List.mem_cons, List.mem_append, List.mem_singleton, hU, hDl]
      have := htud i; grind
    · intro i
      simp only [List.mem_append, List.mem_singleton, hU, hDl]
      have := hdj i; grind
    · intro i
      simp only [hIn, hDl, hlm, List.mem_append, List.mem_singleton]
      have := hlv i; have := hlv c.id; grind
    · rw [hlm]; grind

theorem classes_cons (lw : Bool) (has0 : Id → Bool) (k : Classes) (c : Change) (rest : List Change) :
    (c :: rest).foldl (classStep lw has0) k = rest.foldl (classStep lw has0) (classStep lw has0 k c) := rfl

theorem foldl_classStep_inv (has0 : Id → Bool) (batch : List Change) (k : Classes) (L : List Id)
    (hI : KInv has0 k L) (hres : ∀ c ∈ batch, c.id ≠ entry) :
    KInv has0 (batch.foldl (classStep true has0) k) (liveAfter L batch) := by
  induction batch generalizing k L with
  | nil => exact hI
  | cons c rest ih =>
    rw [classes_cons, liveAfter_cons]
    exact ih _ _ (classStep_inv has0 k L c hI (hres c List.mem_cons_self))
      (fun c' hc' => hres c' (List.mem_cons_of_mem _ hc'))

/-- `maxNodeId` never decreases -/
theorem classStep_max (lw : Bool) (has0 : Id → Bool) (k : Classes) (c : Change) : k.maxId ≤ (classStep lw has0 k c).maxId := by
  rw [classStep_eq]
  have := forget_max lw k c.id
  split
  · exact Nat.le_of_eq this.symm
  · show k.maxId ≤ (if c.id > (k.forget lw c.id).maxId then c.id else (k.forget lw c.id).maxId)
    rw [this]
    by_cases hgt : c.id > k.maxId
    · rw [if_pos hgt]; exact Nat.le_of_lt hgt
    · rw [if_neg hgt]; exact Nat.le_refl _
  · exact Nat.le_of_eq this.symm
  · exact Nat.le_of_eq this.symm

theorem foldl_classStep_max (lw : Bool) (has0 : Id → Bool) (batch : List Change) (k : Classes) :
    k.maxId ≤ (batch.foldl (classStep lw has0) k).maxId := by
  induction batch generalizing k with
  | nil => exact Nat.le_refl _
  | cons c rest ih => exact Nat.le_trans (classStep_max lw has0 k c) (ih _)

/-- the bookkeeping invariant at the end of a batch that names no reserved id, from a well-formed state -/
theorem classes_inv (R : Nat) (g : Graph) (L : List Id) (batch : List Change) (hWF : WF R g L)
    (hres : ∀ c ∈ batch, c.id ≠ entry) :
    KInv g.hasVec (classes true g.hasVec g.maxId batch) (liveAfter L batch) := by
  rw [wf_iff] at hWF
  obtain ⟨hP, hl, he, hkl, hm⟩ := hWF
  unfold classes
  refine foldl_classStep_inv g.hasVec batch _ L ⟨by simp, by simp, by simp, by simp, by simp, by simp, ?_, hl, he⟩ hres
  intro i
  simp only [List.not_mem_nil, or_false, not_false_eq_true, and_true]
  rw [← hkl i, hP.kv i]
  simp [Graph.hasVec]

/-! ### the sequential model computes exactly this bookkeeping -/

section
variable {D : Type} [LT D] [DecidableRel (α := D) (· < ·)]

theorem backEdges_vecs (cfg : Cfg) (ds : Dists D) (a : Id) (bs : List Id) (g g' : Graph)
    (h : backEdges cfg ds a bs g = .ok g') : g'.vecs = g.vecs ∧ g'.maxId = g.maxId := by
  induction bs generalizing g with
  | nil => simp [backEdges] at h; subst h; exact ⟨rfl, rfl⟩
  | cons b rest ih =>
    unfold backEdges at h
    split at h
    · cases h
    · simp only at h
      have h2 := ih _ h
      exact h2

theorem classify_eq (lw : Bool) (cfg : Cfg) (ds : Dists D) (acc : Acc) (c : Change) :
    classify lw cfg ds acc c =
      (if c.id == entry then .error (.badId c.id)
       else if c.id == 0 then .error (.badId c.id)
       else
        match acc.g.hasVec c.id, c.hasVector with
        | false, false => .ok (acc.forget lw c.id)
        | false, true =>
          match insertPoint cfg ds { ((acc.forget lw c.id).g) with
              maxId := if c.id > (acc.forget lw c.id).g.maxId then c.id else (acc.forget lw c.id).g.maxId } c.id with
          | .error e => .error e
          | .ok g' => .ok { (acc.forget lw c.id) with g := g' }
        | true, true => .ok { (acc.forget lw c.id) with updated := (acc.forget lw c.id).updated ++ [c.id], touched := c.id :: (acc.forget lw c.id).touched }
        | true, false => .ok { (acc.forget lw c.id) with deleted := (acc.forget lw c.id).deleted ++ [c.id], touched := c.id :: (acc.forget lw c.id).touched }) := rfl

theorem insertPoint_vecs (cfg : Cfg) (ds : Dists D) (g g' : Graph) (a : Id)
    (h : insertPoint cfg ds g a = .ok g') : g'.vecs = setVec g.vecs a ∧ g'.maxId = g.maxId := by
  unfold insertPoint at h
  simp only at h
  split at h
  · cases h
  · exact backEdges_vecs cfg ds a _ _ g' h

/-- agreement of an accumulator of `classifyAll` with the bookkeeping -/
structure Agrees (has0 : Id → Bool) (acc : Acc) (k : Classes) : Prop where
  upd : acc.updated = k.upd
  del : acc.deleted = k.del
  tch : acc.touched = k.tch
  max : acc.g.maxId = k.maxId
  has : ∀ i, acc.g.hasVec i = (k.ins.contains i || has0 i)

theorem forget_agrees (lw : Bool) (has0 : Id → Bool) (acc : Acc) (k : Classes) (i : Id) (hA : Agrees has0 acc k) :
    Agrees has0 (acc.forget lw i) (k.forget lw i) := by
  obtain ⟨hu, hd, ht, hm, hh⟩ := hA
  unfold Acc.forget Classes.forget
  rw [ht]
  split
  · exact ⟨by simp [hu], by simp [hd], rfl, hm, hh⟩
  · exact ⟨hu, hd, ht, hm, hh⟩

theorem classify_agrees (lw : Bool) (cfg : Cfg) (ds : Dists D) (has0 : Id → Bool) (acc acc' : Acc) (k : Classes) (c : Change)
    (hA : Agrees has0 acc k) (h : classify lw cfg ds acc c = .ok acc') :
    Agrees has0 acc' (classStep lw has0 k c) := by
  have hex := hA.has c.id
  have hg : (acc.forget lw c.id).g = acc.g := by unfold Acc.forget; split <;> rfl
  obtain ⟨hu1, hd1, ht1, hm1, hh1⟩ := forget_agrees lw has0 acc k c.id hA
  rw [classify_eq] at h
  rw [classStep_eq, ← hex]
  generalize acc.forget lw c.id = acc1 at h hu1 hd1 ht1 hm1 hh1 hg
  generalize k.forget lw c.id = k1 at hu1 hd1 ht1 hm1 hh1
  split at h
  · cases h
  · split at h
    · cases h
    · split at h
      · cases h; exact ⟨hu1, hd1, ht1, hm1, hh1⟩
      · split at h
        · cases h
        · rename_i g' hg'
          cases h
          obtain ⟨hv, hmx⟩ := insertPoint_vecs cfg ds _ g' c.id hg'
          refine ⟨hu1, hd1, ht1, ?_, ?_⟩
          · show g'.maxId = _
            rw [hmx]
            show (if c.id > acc1.g.maxId then c.id else acc1.g.maxId) = _
            rw [hm1]
          · intro i
            show g'.vecs.contains i = _
            rw [hv]
            have h1 := hh1 i
            simp only [Graph.hasVec] at h1
            have hs : (setVec acc1.g.vecs c.id).contains i = (decide (i = c.id) || acc1.g.vecs.contains i) := by
              have := @setVec_mem acc1.g.vecs c.id i
              cases h1 : (setVec acc1.g.vecs c.id).contains i <;> cases h2 : acc1.g.vecs.contains i <;>
                by_cases h3 : i = c.id <;> simp_all
            rw [hs, h1]
            simp only [List.contains_eq_mem, List.mem_append, List.mem_singleton, Bool.decide_or]
            cases decide (i ∈ k1.ins) <;> cases decide (i = c.id) <;> cases has0 i <;> rfl
      · cases h; exact ⟨by simp [hu1], hd1, by simp [ht1], hm1, hh1⟩
      · cases h; exact ⟨hu1, by simp [hd1], by simp [ht1], hm1, hh1⟩

theorem classifyAll_agrees (lw : Bool) (cfg : Cfg) (ds : Dists D) (has0 : Id → Bool) (batch : List Change) (acc acc' : Acc) (k : Classes)
    (hA : Agrees has0 acc k) (h : classifyAll lw cfg ds batch acc = .ok acc') :
    Agrees has0 acc' (batch.foldl (classStep lw has0) k) := by
  induction batch generalizing acc k with
  | nil => simp [classifyAll] at h; subst h; exact hA
  | cons c rest ih =>
    unfold classifyAll at h
    split at h
    · cases h
    · rename_i acc1 h1
      exact ih acc1 _ (classify_agrees lw cfg ds has0 acc acc1 k c hA h1) h

theorem classifyAll_classes (lw : Bool) (cfg : Cfg) (ds : Dists D) (g : Graph) (batch : List Change) (acc : Acc)
    (h : classifyAll lw cfg ds batch { g := g } = .ok acc) :
    Agrees g.hasVec acc (classes lw g.hasVec g.maxId batch) :=
  classifyAll_agrees lw cfg ds g.hasVec batch _ acc _ ⟨rfl, rfl, rfl, rfl, by intro i; simp⟩ h

/-- a batch accepted by `classifyAll` names no reserved id -/
theorem classifyAll_no_reserved (lw : Bool) (cfg : Cfg) (ds : Dists D) (batch : List Change) (acc acc' : Acc)
    (h : classifyAll lw cfg ds batch acc = .ok acc') : ∀ c ∈ batch, c.id ≠ entry ∧ c.id ≠ 0 := by
  induction batch generalizing acc with
  | nil => simp
  | cons c rest ih =>
    unfold classifyAll at h
    split at h
    · cases h
    · rename_i acc1 h1
      intro c' hc'
      rcases List.mem_cons.mp hc' with rfl | hc'
      · unfold classify at h1
        split at h1
        · cases h1
        · rename_i hne
          split at h1
          · cases h1
          · rename_i hn0
            exact ⟨by simpa using hne, by simpa using hn0⟩
      · exact ih acc1 h c' hc'

/-- from ANY graph `g1` that is well-formed for the old live points plus the points handed to the insert
workers, the single-threaded rest of the batch re-establishes `WF` -/
theorem tail_any_mid (cfg : Cfg) (hR : 1 ≤ cfg.degreeBound) (ds : Dists D) (ord : List Id) (g g1 g' : Graph) (L : List Id)
    (batch : List Change) (hWF : WF cfg.degreeBound g L) (hres : ∀ c ∈ batch, c.id ≠ entry)
    (hmid : WF cfg.degreeBound g1 (L ++ (classes true g.hasVec g.maxId batch).ins))
    (h : tail cfg ds ord { g := g1, updated := (classes true g.hasVec g.maxId batch).upd,
                           deleted := (classes true g.hasVec g.maxId batch).del,
                           touched := (classes true g.hasVec g.maxId batch).tch } = .ok g') :
    WF cfg.degreeBound g' (liveAfter L batch) := by
  have hK := classes_inv cfg.degreeBound g L batch hWF hres
  generalize classes true g.hasVec g.maxId batch = k at hK hmid h
  refine tail_wf cfg ds hR ord _ g' _ ?_ h
  rw [wf_iff] at hWF hmid
  obtain ⟨hP, hl, he, hkl, hm⟩ := hWF
  obtain ⟨hP1, hl1, he1, hkl1, hm1⟩ := hmid
  obtain ⟨hin, hind, himx, hts, htud, hdj, hlv, hnd, hle⟩ := hK
  have hhas : ∀ i, g.hasVec i = true ↔ (i = entry ∨ i ∈ L) := by
    intro i; rw [← hkl i, hP.kv i]; simp [Graph.hasVec]
  have hk1 : ∀ i, i ∈ g1.keys ↔ (g.hasVec i = true ∨ i ∈ k.ins) := by
    intro i; rw [hkl1 i, hhas i, List.mem_append]; grind
  refine ⟨hP1, ?_, ?_, htud, hdj, ?_, hnd, hle⟩
  · intro i hi hie
    rcases (hkl1 i).mp hi with h | h
    · exact absurd h hie
    · exact hm1 i h
  · intro i hi
    show i ∈ g1.keys ∧ _
    rw [hk1 i]; exact hts i hi
  · intro i
    show (i ∈ g1.keys ∧ i ∉ k.del) ↔ _
    rw [hk1 i]; exact hlv i

/-- the sequential model is one instance: the graph its insert workers leave is well-formed for the old
live points plus `ins` -/
theorem classifyAll_mid (cfg : Cfg) (hR : 1 ≤ cfg.degreeBound) (ds : Dists D) (g : Graph) (L : List Id) (batch : List Change)
    (acc : Acc) (hWF : WF cfg.degreeBound g L) (h : classifyAll true cfg ds batch { g := g } = .ok acc) :
    WF cfg.degreeBound acc.g (L ++ (classes true g.hasVec g.maxId batch).ins) := by
  have hA := classifyAll_classes true cfg ds g batch acc h
  have hres := fun c hc => (classifyAll_no_reserved true cfg ds batch _ acc h c hc).1
  have hK := classes_inv cfg.degreeBound g L batch hWF hres
  have hmono := foldl_classStep_max true g.hasVec batch { maxId := g.maxId }
  have hWF0 := hWF
  rw [wf_iff] at hWF ⊢
  obtain ⟨hP, hl, he, hkl, hm⟩ := hWF
  have hI0 : CInv cfg.degreeBound { g := g } L := by
    refine ⟨hP, ?_, by simp, by simp, by simp, ?_, hl, he⟩
    · intro i hi hie
      rcases (hkl i).mp hi with h | h
      · exact absurd h hie
      · exact hm i h
    · intro i; simp; exact hkl i
  have hC := classifyAll_inv cfg ds hR batch _ acc L hI0 h
  change g.maxId ≤ (classes true g.hasVec g.maxId batch).maxId at hmono
  generalize classes true g.hasVec g.maxId batch = k at hA hK hmono ⊢
  obtain ⟨hu, hd, ht, hmx, hh⟩ := hA
  obtain ⟨hin, hind, himx, hts, htud, hdj, hlv, hnd, hle⟩ := hK
  have hhas : ∀ i, g.hasVec i = true ↔ (i = entry ∨ i ∈ L) := by
    intro i; rw [← hkl i, hP.kv i]; simp [Graph.hasVec]
  have hkeys : ∀ i, i ∈ acc.g.keys ↔ (i = entry ∨ i ∈ L ++ k.ins) := by
    intro i
    have h1 : i ∈ acc.g.keys ↔ acc.g.hasVec i = true := by rw [hC.p.kv i]; simp [Graph.hasVec]
    rw [h1, hh i, Bool.or_eq_true, hhas i, List.mem_append]
    simp only [List.contains_eq_mem, decide_eq_true_eq]
    constructor
    · rintro (h | h | h)
      · exact Or.inr (Or.inr h)
      · exact Or.inl h
      · exact Or.inr (Or.inl h)
    · rintro (h | h | h)
      · exact Or.inr (Or.inl h)
      · exact Or.inr (Or.inr h)
      · exact Or.inl h
  refine ⟨hC.p, ?_, ?_, hkeys, ?_⟩
  · rw [List.nodup_append]
    refine ⟨hl, hind, ?_⟩
    intro a ha b hb e
    subst e
    have := hin a hb
    rw [(hhas a).mpr (Or.inr ha)] at this
    cases this
  · intro hi
    rcases List.mem_append.mp hi with h | h
    · exact he h
    · have := hin entry h
      rw [(hhas entry).mpr (Or.inl rfl)] at this
      cases this
  · intro i hi
    rw [hmx]
    rcases List.mem_append.mp hi with h | h
    · exact Nat.le_trans (hm i h) hmono
    · exact himx i h

end
end Sema.C10
