/-
C10 — the tie between the hand-written `changeOf` of `C10/Model.lean` ("`getOperation` +
`preProcessVamana`") and the source.  `SemaModel/Generated/IndexOp.lean` is produced from
`shard/index/utils.go getOperation` by `tools/go2lean` on every check run (see `C02/Tie.lean` for what
stays abstract: `getPropertyFromBytes`, the decoder, `%v` of an interface value).

Representation maps: the model reads a document with `qv vp : Option Doc → Except SErr (Option Leaf)`;
the real look-up is any `gp` that answers `ofQ (qv vp d)` on the bytes of `d`, where
`ofQ (.ok none) = .ok nil`, `ofQ (.ok (some l)) = .ok (val l)`, `ofQ (.error _) = .error <some text>`.
What happens after `getOperation` — `Dispatch`'s `if err != nil { return … }`, `if op == opSkip
{ continue }`, then `preProcessVamana` = `castDataToArray[float32](newData)` (nil ↦ no vector, an array ↦
the vector, anything else ↦ an error) — is written in the statement (`afterOp`).
-/
import SemaModel.C10.Model
import SemaModel.Generated.IndexOp
namespace Sema.C10
open Sema
open Sema.C03
open Sema.Gen.IndexOp

/-- what the real look-up answers when the model's look-up answers `r` (`msg`: the text of the error) -/
def ofQ (msg : String) : Except SErr (Option Leaf) → Except String (Go.Any Leaf)
  | .ok none => .ok .nil
  | .ok (some l) => .ok (.val l)
  | .error _ => .error msg

/-- `preProcessVamana`: `vc.Id = change.nodeId; vc.Vector, err = castDataToArray[float32](change.newData)` -/
def castVec (i : Id) : Go.Any Leaf → Except SErr (Option VChange)
  | .nil => .ok (some { id := i, vec := none })
  | .val (Leaf.vec t) => .ok (some { id := i, vec := some t })
  | _ => .error .badVector

/-- the closure of `indexManager.Dispatch` around one result of `getOperation` -/
def afterOp (i : Id) (r : Go.Any Leaf × Go.Any Leaf × String × Option String) : Except SErr (Option VChange) :=
  if r.2.2.2.isSome then .error .query            -- "could not get operation for property …"
  else if r.2.2.1 == "skip" then .ok none         -- `continue`
  else castVec i r.2.1

/-- **`changeOf` = `getOperation`, then `Dispatch`'s error and skip tests, then `preProcessVamana`**, for every
look-up function that answers like the model's `qv` on the two documents.  (`SErr.query` is the only error
`qv` produces — `C10_tie_qv_error`.) -/
theorem C10_tie_changeOf {Decoder : Type} (fmtAny : Go.Any Leaf → String)
    (gp : Decoder → Bytes → String → Except String (Go.Any Leaf)) (dec : Decoder) (name msg : String) (pd cd : Bytes)
    (vp : Path) (i : Id) (prev cur : Option Doc)
    (hp : gp dec pd name = ofQ msg (qv vp prev)) (hc : gp dec cd name = ofQ msg (qv vp cur)) :
    changeOf vp i prev cur =
      (match qv vp prev, qv vp cur with
       | .error e, _ => .error e
       | _, .error e => .error e
       | _, _ => afterOp i (getOperation fmtAny gp dec name pd cd)) := by
  unfold changeOf getOperation afterOp
  simp only [hp, hc]
  cases h1 : qv vp prev with
  | error e => rfl
  | ok a =>
    cases h2 : qv vp cur with
    | error e => rfl
    | ok b =>
      cases a <;> cases b <;> simp [ofQ, Go.Any.isNil]
      all_goals (rename_i l; cases l <;> simp [castVec])

/-- the model's look-up fails with `SErr.query` only, so `afterOp`'s error arm loses nothing -/
theorem C10_tie_qv_error (vp : Path) (d : Option Doc) (e : SErr) (h : qv vp d = .error e) : e = .query := by
  cases d with
  | none => simp [qv] at h
  | some d =>
    simp only [qv, query] at h
    split at h
    · simp at h
    · split at h
      · simp at h
      · split at h
        · split at h
          · simp at h
          · simp only [Except.error.injEq] at h; exact h.symm
        · simp at h

/-- with the errors folded in: one equation, no case split on the model side -/
theorem C10_tie_changeOf_eq {Decoder : Type} (fmtAny : Go.Any Leaf → String)
    (gp : Decoder → Bytes → String → Except String (Go.Any Leaf)) (dec : Decoder) (name msg : String) (pd cd : Bytes)
    (vp : Path) (i : Id) (prev cur : Option Doc)
    (hp : gp dec pd name = ofQ msg (qv vp prev)) (hc : gp dec cd name = ofQ msg (qv vp cur)) :
    changeOf vp i prev cur = afterOp i (getOperation fmtAny gp dec name pd cd) := by
  rw [C10_tie_changeOf fmtAny gp dec name msg pd cd vp i prev cur hp hc]
  cases h1 : qv vp prev with
  | error e =>
    have := C10_tie_qv_error vp prev e h1
    subst this
    simp [getOperation, afterOp, hp, h1, ofQ]
  | ok a =>
    cases h2 : qv vp cur with
    | error e =>
      have := C10_tie_qv_error vp cur e h2
      subst this
      cases a <;> simp [getOperation, afterOp, hp, hc, h1, h2, ofQ]
    | ok b => rfl

/-- satisfiable and non-trivial: an update that replaces the vector of a point -/
example :
    let doc (t : Nat) : Option Doc := some [([1], Leaf.vec t)]
    let gp : Unit → Bytes → String → Except String (Go.Any Leaf) := fun _ d _ => ofQ "q" (qv [1] (doc d.length))
    afterOp 7 (getOperation (fun _ => "") gp () "v" [0#8] [0#8, 0#8]) = .ok (some { id := 7, vec := some 2 }) ∧
      changeOf [1] 7 (doc 1) (doc 2) = .ok (some { id := 7, vec := some 2 }) := by
  intro doc gp
  exact ⟨by rfl, by rfl⟩

end Sema.C10
