/-
C10 — helper lemmas: the invariant `P` carried through the phases of `insertUpdateDelete`.
`P R g B`: keys of the node store are unique and coincide with the ids of the vector store; every node
NOT marked bad by `B` has only edges to existing nodes other than itself and respects the degree bound
(entry node excepted).  `B` marks the nodes whose edge lists are stale between the removal of inbound
edges and their re-insertion.
-/
import SemaModel.C10.Model
set_option linter.unusedSectionVars false
namespace Sema.C10
open Sema.C03

/-! ### association-list facts -/

theorem mem_putNode {ns : List (Id × List Id)} {i : Id} {es : List Id} {n : Id × List Id} :
    n ∈ putNode ns i es ↔ n = (i, es) ∨ (n ∈ ns ∧ n.1 ≠ i) := by
  simp [putNode, List.mem_filter]

theorem keys_putNode {ns : List (Id × List Id)} {i k : Id} {es : List Id} :
    k ∈ (putNode ns i es).map (·.1) ↔ k = i ∨ k ∈ ns.map (·.1) := by
  simp only [List.mem_map, mem_putNode]
  constructor
  · rintro ⟨n, hn | ⟨hn, _⟩, rfl⟩
    · left; rw [hn]
    · right; exact ⟨n, hn, rfl⟩
  · rintro (rfl | ⟨n, hn, rfl⟩)
    · exact ⟨(k, es), Or.inl rfl, rfl⟩
    · by_cases h : n.1 = i
      · exact ⟨(i, es), Or.inl rfl, h.symm⟩
      · exact ⟨n, Or.inr ⟨hn, h⟩, rfl⟩

theorem nodup_keys_putNode {ns : List (Id × List Id)} {i : Id} {es : List Id}
    (h : (ns.map (·.1)).Nodup) : ((putNode ns i es).map (·.1)).Nodup := by
  simp only [putNode, List.map_cons, List.nodup_cons]
  constructor
  · simp [List.mem_map, List.mem_filter]
  · exact (List.Nodup.sublist (List.Sublist.map _ List.filter_sublist) h)

theorem nodupB_iff (l : List Id) : nodupB l = true ↔ l.Nodup := by
  induction l with
  | nil => simp [nodupB]
  | cons a t ih => simp [nodupB, ih]

theorem edges_some {g : Graph} {i : Id} {es : List Id} (h : g.edges i = some es) : (i, es) ∈ g.nodes := by
  unfold Graph.edges at h
  cases hf : g.nodes.find? (fun n => n.1 == i) with
  | none => simp [hf] at h
  | some n =>
    simp [hf] at h
    have h1 := List.find?_some hf
    have hm := List.mem_of_find?_eq_some hf
    simp at h1
    subst h
    rw [← h1]; exact hm

theorem edges_some_key {g : Graph} {i : Id} {es : List Id} (h : g.edges i = some es) : i ∈ g.keys := by
  have := edges_some h
  exact List.mem_map.mpr ⟨_, this, rfl⟩

theorem edges_isSome_key {g : Graph} {i : Id} (h : (g.edges i).isSome) : i ∈ g.keys := by
  cases he : g.edges i with
  | none => simp [he] at h
  | some es => exact edges_some_key he

theorem setVec_mem {vs : List Id} {a i : Id} : i ∈ setVec vs a ↔ i = a ∨ i ∈ vs := by
  unfold setVec
  split
  · rename_i h
    have : a ∈ vs := by simpa using h
    constructor
    · intro h; exact Or.inr h
    · rintro (rfl | h)
      · exact this
      · exact h
  · simp

theorem setVec_nodup {vs : List Id} {a : Id} (h : vs.Nodup) : (setVec vs a).Nodup := by
  unfold setVec
  split
  · exact h
  · rename_i hc
    have : a ∉ vs := by simpa using hc
    exact List.nodup_cons.mpr ⟨this, h⟩

/-! ### the invariant -/

structure P (R : Nat) (g : Graph) (B : Id → Prop) : Prop where
  nodupK : g.keys.Nodup
  nodupV : g.vecs.Nodup
  kv : ∀ i, i ∈ g.keys ↔ i ∈ g.vecs
  clean : ∀ n ∈ g.nodes, ¬ B n.1 → (∀ t ∈ n.2, t ≠ n.1 ∧ t ∈ g.keys) ∧ (n.1 ≠ entry → n.2.length ≤ R)

theorem P.congr {R : Nat} {g : Graph} {B B' : Id → Prop} (h : ∀ i, B' i → B i) (hP : P R g B') : P R g B :=
  ⟨hP.nodupK, hP.nodupV, hP.kv, fun n hn hb => hP.clean n hn (fun hb' => hb (h _ hb'))⟩

/-- replacing the edge list of an existing node -/
theorem P.put {R : Nat} {g : Graph} {B : Id → Prop} {i : Id} {es : List Id} (hP : P R g B) (hi : i ∈ g.keys)
    (hes : ¬ B i → (∀ t ∈ es, t ≠ i ∧ t ∈ g.keys) ∧ (i ≠ entry → es.length ≤ R)) :
    P R { g with nodes := putNode g.nodes i es } B ∧
      (∀ k, k ∈ ({ g with nodes := putNode g.nodes i es } : Graph).keys ↔ k ∈ g.keys) := by
  have hk : ∀ k, k ∈ ({ g with nodes := putNode g.nodes i es } : Graph).keys ↔ k ∈ g.keys := by
    intro k
    show k ∈ (putNode g.nodes i es).map (·.1) ↔ k ∈ g.keys
    rw [keys_putNode]
    constructor
    · rintro (rfl | h)
      · exact hi
      · exact h
    · intro h; exact Or.inr h
  refine ⟨⟨?_, hP.nodupV, ?_, ?_⟩, hk⟩
  · exact nodup_keys_putNode hP.nodupK
  · intro k; rw [hk k]; exact hP.kv k
  · intro n hn hb
    rcases mem_putNode.mp hn with rfl | ⟨hn', _⟩
    · obtain ⟨h1, h2⟩ := hes hb
      exact ⟨fun t ht => ⟨(h1 t ht).1, (hk t).mpr (h1 t ht).2⟩, h2⟩
    · obtain ⟨h1, h2⟩ := hP.clean n hn' hb
      exact ⟨fun t ht => ⟨(h1 t ht).1, (hk t).mpr (h1 t ht).2⟩, h2⟩

/-! ### DistSet / candidate sets: only membership matters here -/

section
variable {D : Type} [LT D] [DecidableRel (α := D) (· < ·)]

theorem mem_bubble {e x : Elem D} {l : List (Elem D)} : x ∈ bubble e l ↔ x = e ∨ x ∈ l := by
  induction l with
  | nil => simp [bubble]
  | cons y ys ih =>
    unfold bubble
    split
    · simp
    · simp only [List.mem_cons, ih]
      constructor
      · rintro (h | h | h)
        · exact Or.inr (Or.inl h)
        · exact Or.inl h
        · exact Or.inr (Or.inr h)
      · rintro (h | h | h)
        · exact Or.inr (Or.inl h)
        · exact Or.inl h
        · exact Or.inr (Or.inr h)

theorem mem_foldl_bubble {x : Elem D} (es acc : List (Elem D)) :
    x ∈ es.foldl (fun acc e => bubble e acc) acc ↔ x ∈ acc ∨ x ∈ es := by
  induction es generalizing acc with
  | nil => simp
  | cons e es ih =>
    simp only [List.foldl_cons, ih, mem_bubble, List.mem_cons]
    constructor
    · rintro ((h | h) | h)
      · exact Or.inr (Or.inl h)
      · exact Or.inl h
      · exact Or.inr (Or.inr h)
    · rintro (h | h | h)
      · exact Or.inl (Or.inr h)
      · exact Or.inl (Or.inl h)
      · exact Or.inr h

theorem mem_sortFrom {x : Elem D} (n : Nat) (l : List (Elem D)) : x ∈ sortFrom n l ↔ x ∈ l := by
  unfold sortFrom
  rw [mem_foldl_bubble]
  constructor
  · rintro (h | h)
    · exact List.mem_of_mem_take h
    · exact List.mem_of_mem_drop h
  · intro h
    rw [← List.take_append_drop n l] at h
    exact List.mem_append.mp h

theorem add1_items_ids (dq : Id → D) (ds : DistSet D) (p : Id) :
    ∀ e ∈ (ds.add1 dq p).items, e ∈ ds.items ∨ e.id = p := by
  intro e he
  unfold DistSet.add1 at he
  split at he
  · exact Or.inl he
  · simp at he
    rcases he with h | h
    · exact Or.inl h
    · right; rw [h]

theorem add_items_ids (dq : Id → D) (ps : List Id) (ds : DistSet D) :
    ∀ e ∈ (ds.add dq ps).items, e ∈ ds.items ∨ e.id ∈ ps := by
  induction ps generalizing ds with
  | nil => intro e he; exact Or.inl he
  | cons p ps ih =>
    intro e he
    have : ds.add dq (p :: ps) = (ds.add1 dq p).add dq ps := rfl
    rw [this] at he
    rcases ih _ e he with h | h
    · rcases add1_items_ids dq ds p e h with h | h
      · exact Or.inl h
      · right; rw [h]; exact List.mem_cons_self
    · exact Or.inr (List.mem_cons_of_mem _ h)

theorem candidates_ids (dist : Id → D) (ids : List Id) : ∀ c ∈ candidates dist ids, c.id ∈ ids := by
  intro c hc
  unfold candidates DistSet.sort at hc
  simp only at hc
  rw [mem_sortFrom] at hc
  rcases add_items_ids dist ids (DistSet.new 0) c hc with h | h
  · simp [DistSet.new] at h
  · exact h

/-! ### robustPrune -/

theorem robustPrune_sub (R : Nat) (ap : Id → Id → D) (self : Id) (cs : List (Elem D)) (acc : List Id) :
    ∀ t ∈ robustPrune R ap self cs acc, t ∈ acc ∨ (t ≠ self ∧ ∃ c ∈ cs, c.id = t) := by
  induction cs generalizing acc with
  | nil => intro t ht; exact Or.inl ht
  | cons c rest ih =>
    intro t ht
    unfold robustPrune at ht
    split at ht
    · rcases ih acc t ht with h | ⟨h1, c', hc', h2⟩
      · exact Or.inl h
      · exact Or.inr ⟨h1, c', List.mem_cons_of_mem _ hc', h2⟩
    · rename_i hcond
      have hne : c.id ≠ self := by
        intro heq; apply hcond; simp [heq]
      simp only at ht
      split at ht
      · rcases List.mem_append.mp ht with h | h
        · exact Or.inl h
        · simp at h; subst h
          exact Or.inr ⟨hne, c, List.mem_cons_self, rfl⟩
      · rcases ih _ t ht with h | ⟨h1, c', hc', h2⟩
        · rcases List.mem_append.mp h with h | h
          · exact Or.inl h
          · simp at h; subst h
            exact Or.inr ⟨hne, c, List.mem_cons_self, rfl⟩
        · exact Or.inr ⟨h1, c', List.mem_cons_of_mem _ hc', h2⟩

theorem robustPrune_len (R : Nat) (ap : Id → Id → D) (self : Id) (cs : List (Elem D)) (acc : List Id)
    (h : acc.length < R) : (robustPrune R ap self cs acc).length ≤ R := by
  induction cs generalizing acc with
  | nil => unfold robustPrune; omega
  | cons c rest ih =>
    unfold robustPrune
    split
    · exact ih acc h
    · simp only
      split
      · simp; omega
      · rename_i h2
        apply ih
        simpa using h2

/-! ### greedySearch: every visited element had its node fetched successfully -/

theorem loop_visited (v : View) (dq : Id → D) (filter : Option (List Id)) (ss : Nat) (fuel : Nat)
    (st st' : GState D) (h : loop v dq filter ss fuel st = .ok st')
    (hv : ∀ e ∈ st.visited, (v.edges e.id).isSome) : ∀ e ∈ st'.visited, (v.edges e.id).isSome := by
  induction fuel generalizing st with
  | zero => simp [loop] at h
  | succ n ih =>
    unfold loop at h
    split at h
    · cases h; exact hv
    · rename_i e _
      split at h
      · cases h
      · rename_i es hes
        apply ih _ h
        intro x hx
        simp only [List.mem_append, List.mem_singleton] at hx
        rcases hx with hx | rfl
        · exact hv x hx
        · simp [hes]

theorem greedySearch_visited (v : View) (dq : Id → D) (k ss : Nat) (filter : Option (List Id)) (fuel : Nat)
    (rs : DistSet D) (vis : List (Elem D)) (h : greedySearch v dq k ss filter fuel = .ok (rs, vis)) :
    ∀ e ∈ vis, (v.edges e.id).isSome := by
  unfold greedySearch at h
  split at h
  · cases h
  · simp only at h
    split at h
    · cases h
    · split at h
      · cases h
      · rename_i st hst
        cases h
        intro e he
        rw [mem_sortFrom] at he
        exact loop_visited v dq filter ss _ _ st hst (by simp) e he

/-! ### insertSinglePoint -/

theorem backEdges_P (cfg : Cfg) (ds : Dists D) (hR : 1 ≤ cfg.degreeBound) (a : Id) (B : Id → Prop)
    (bs : List Id) (g g' : Graph) (hP : P cfg.degreeBound g B) (ha : a ∈ g.keys) (hbs : ∀ b ∈ bs, b ≠ a)
    (h : backEdges cfg ds a bs g = .ok g') :
    P cfg.degreeBound g' B ∧ (∀ i, i ∈ g'.keys ↔ i ∈ g.keys) ∧ g'.vecs = g.vecs ∧ g'.maxId = g.maxId := by
  induction bs generalizing g with
  | nil => simp [backEdges] at h; subst h; exact ⟨hP, fun _ => Iff.rfl, rfl, rfl⟩
  | cons b rest ih =>
    unfold backEdges at h
    split at h
    · cases h
    · rename_i eb heb
      have hbk : b ∈ g.keys := edges_some_key heb
      have hbn : (b, eb) ∈ g.nodes := edges_some heb
      have hba : b ≠ a := hbs b List.mem_cons_self
      have hput := P.put (R := cfg.degreeBound) (B := B) (i := b)
        (es := if eb.length + 1 > cfg.degreeBound then
            robustPrune cfg.degreeBound ds.ap b (candidates (ds.p b) (eb.filter g.hasVec ++ [a])) []
          else eb ++ [a]) hP hbk (by
          intro hnb
          obtain ⟨h1, h2⟩ := hP.clean (b, eb) hbn hnb
          split
          · constructor
            · intro t ht
              rcases robustPrune_sub _ _ _ _ _ t ht with h | ⟨hne, c, hc, rfl⟩
              · simp at h
              · refine ⟨hne, ?_⟩
                have := candidates_ids _ _ c hc
                rcases List.mem_append.mp this with h | h
                · exact (h1 _ (List.mem_filter.mp h).1).2
                · simp at h; rw [h]; exact ha
            · intro _
              exact robustPrune_len _ _ _ _ _ (by simp only [List.length_nil]; omega)
          · rename_i hlen
            constructor
            · intro t ht
              rcases List.mem_append.mp ht with h | h
              · exact h1 t h
              · simp at h; subst h; exact ⟨fun e => hba e.symm, ha⟩
            · intro _; simp; simp at hlen; omega)
      obtain ⟨hP1, hk1⟩ := hput
      obtain ⟨hP2, hk2, hv2, hm2⟩ := ih _ hP1 ((hk1 a).mpr ha) (fun x hx => hbs x (List.mem_cons_of_mem _ hx)) h
      exact ⟨hP2, fun i => (hk2 i).trans (hk1 i), hv2, hm2⟩

theorem insertPoint_P (cfg : Cfg) (ds : Dists D) (hR : 1 ≤ cfg.degreeBound) (B : Id → Prop) (g g' : Graph) (a : Id)
    (hP : P cfg.degreeBound g B) (h : insertPoint cfg ds g a = .ok g') :
    P cfg.degreeBound g' (fun i => B i ∧ i ≠ a) ∧ (∀ i, i ∈ g'.keys ↔ i = a ∨ i ∈ g.keys) ∧ g'.maxId = g.maxId := by
  unfold insertPoint at h
  simp only at h
  split at h
  · cases h
  · rename_i rs vis hgs
    have hvis := greedySearch_visited _ _ _ _ _ _ rs vis hgs
    -- the new edge list of `a`
    have hes : ∀ t ∈ robustPrune cfg.degreeBound ds.ap a vis [], t ≠ a ∧ t ∈ g.keys := by
      intro t ht
      rcases robustPrune_sub _ _ _ _ _ t ht with h | ⟨hne, c, hc, rfl⟩
      · simp at h
      · exact ⟨hne, edges_isSome_key (g := { g with vecs := setVec g.vecs a }) (hvis c hc)⟩
    have hlen : (robustPrune cfg.degreeBound ds.ap a vis []).length ≤ cfg.degreeBound :=
      robustPrune_len _ _ _ _ _ (by simp only [List.length_nil]; omega)
    generalize robustPrune cfg.degreeBound ds.ap a vis [] = es at hes hlen h
    -- the graph after Set + Put
    have hk2 : ∀ i, i ∈ ({ g with vecs := setVec g.vecs a, nodes := putNode g.nodes a es } : Graph).keys ↔ i = a ∨ i ∈ g.keys := by
      intro i; exact keys_putNode
    have hP2 : P cfg.degreeBound ({ g with vecs := setVec g.vecs a, nodes := putNode g.nodes a es } : Graph) (fun i => B i ∧ i ≠ a) := by
      refine ⟨nodup_keys_putNode hP.nodupK, setVec_nodup hP.nodupV, ?_, ?_⟩
      · intro i
        rw [hk2 i]
        show _ ↔ i ∈ setVec g.vecs a
        rw [setVec_mem, hP.kv i]
      · intro n hn hb
        rcases mem_putNode.mp hn with rfl | ⟨hn', hne⟩
        · exact ⟨fun t ht => ⟨(hes t ht).1, (hk2 t).mpr (Or.inr (hes t ht).2)⟩, fun _ => hlen⟩
        · have hb' : ¬ B n.1 := fun hb' => hb ⟨hb', hne⟩
          obtain ⟨h1, h2⟩ := hP.clean n hn' hb'
          exact ⟨fun t ht => ⟨(h1 t ht).1, (hk2 t).mpr (Or.inr (h1 t ht).2)⟩, h2⟩
    obtain ⟨hP3, hk3, _, hm3⟩ := backEdges_P cfg ds hR a _ es _ g' hP2 ((hk2 a).mpr (Or.inl rfl)) (fun b hb => (hes b hb).1) h
    exact ⟨hP3, fun i => (hk3 i).trans (hk2 i), hm3⟩

/-! ### removeInboundEdges -/

/-- what one `pruneDeleteNeighbour` does: the node `na` gets a new edge list without members of `S` -/
theorem pdn_spec (cfg : Cfg) (ds : Dists D) (hR : 1 ≤ cfg.degreeBound) (S : List Id) (g g' : Graph) (pa na : Id)
    (hP : P cfg.degreeBound g (fun _ => False)) (h : pruneDeleteNeighbour cfg ds S g pa na = .ok g') :
    ∃ ea', g' = { g with nodes := putNode g.nodes na ea' } ∧ na ∈ g.keys ∧
      (∀ t ∈ ea', t ∉ S ∧ t ≠ na ∧ t ∈ g.keys) ∧ ea'.length ≤ cfg.degreeBound := by
  unfold pruneDeleteNeighbour at h
  split at h
  · cases h
  · rename_i ea hea
    simp only at h
    split at h
    · cases h
    · cases h
      have hna : (na, ea) ∈ g.nodes := edges_some hea
      have hclean := (hP.clean _ hna (fun f => f)).1
      -- every id offered as a candidate is an existing node outside S
      have hc : ∀ t ∈ ea.filter (fun t => !S.contains t) ++
            ((ea.filter (fun t => S.contains t)).filterMap g.edges |>.map (fun eb => eb.filter (fun t => !S.contains t))).flatten,
          t ∉ S ∧ t ∈ g.keys := by
        intro t ht
        rcases List.mem_append.mp ht with h | h
        · have := List.mem_filter.mp h
          exact ⟨by simpa using this.2, (hclean t this.1).2⟩
        · simp only [List.mem_flatten, List.mem_map, List.mem_filterMap] at h
          obtain ⟨l, ⟨eb, ⟨b, _, hb⟩, rfl⟩, ht⟩ := h
          have := List.mem_filter.mp ht
          have hbn := edges_some hb
          exact ⟨by simpa using this.2, ((hP.clean _ hbn (fun f => f)).1 t this.1).2⟩
      refine ⟨_, rfl, edges_some_key hea, ?_, ?_⟩
      · intro t ht
        split at ht
        · rcases robustPrune_sub _ _ _ _ _ t ht with h | ⟨hne, c, hc', rfl⟩
          · simp at h
          · have := candidates_ids _ _ c hc'
            have := hc _ (List.mem_filter.mp this).1
            exact ⟨this.1, hne, this.2⟩
        · have := List.mem_filter.mp ht
          obtain ⟨c, hc', rfl⟩ := List.mem_map.mp this.1
          have h2 := candidates_ids _ _ c hc'
          have h3 := hc _ (List.mem_filter.mp h2).1
          exact ⟨h3.1, by simpa using this.2, h3.2⟩
      · split
        · exact robustPrune_len _ _ _ _ _ (by simp only [List.length_nil]; omega)
        · rename_i hlen
          refine Nat.le_trans (List.length_filter_le _ _) ?_
          simp at hlen ⊢
          exact hlen

theorem pruneAll_spec (cfg : Cfg) (ds : Dists D) (hR : 1 ≤ cfg.degreeBound) (S : List Id) (pairs : List (Id × Id))
    (g g' : Graph) (hP : P cfg.degreeBound g (fun _ => False)) (h : pruneAll cfg ds S pairs g = .ok g') :
    P cfg.degreeBound g' (fun _ => False) ∧ (∀ i, i ∈ g'.keys ↔ i ∈ g.keys) ∧ g'.vecs = g.vecs ∧ g'.maxId = g.maxId ∧
      (∀ n ∈ g'.nodes, (n ∈ g.nodes ∧ n.1 ∉ pairs.map (·.2)) ∨ (∀ t ∈ n.2, t ∉ S)) := by
  induction pairs generalizing g with
  | nil =>
    simp [pruneAll] at h; subst h
    exact ⟨hP, fun _ => Iff.rfl, rfl, rfl, fun n hn => Or.inl ⟨hn, by simp⟩⟩
  | cons pr rest ih =>
    obtain ⟨pa, na⟩ := pr
    unfold pruneAll at h
    split at h
    · cases h
    · rename_i g1 hg1
      obtain ⟨ea', rfl, hna, hts, hlen⟩ := pdn_spec cfg ds hR S g g1 pa na hP hg1
      obtain ⟨hP1, hk1⟩ := P.put (R := cfg.degreeBound) (i := na) (es := ea') hP hna
        (fun _ => ⟨fun t ht => ⟨(hts t ht).2.1, (hts t ht).2.2⟩, fun _ => hlen⟩)
      obtain ⟨hP2, hk2, hv2, hm2, hn2⟩ := ih _ hP1 h
      refine ⟨hP2, fun i => (hk2 i).trans (hk1 i), hv2, hm2, ?_⟩
      intro n hn
      rcases hn2 n hn with ⟨h1, h2⟩ | h
      · rcases mem_putNode.mp h1 with rfl | ⟨h3, h4⟩
        · exact Or.inr (fun t ht => (hts t ht).1)
        · left
          refine ⟨h3, ?_⟩
          simp only [List.map_cons, List.mem_cons, not_or]
          exact ⟨h4, h2⟩
      · exact Or.inr h

theorem toSave_mem (S ord : List Id) (g : Graph) : ∀ t ∈ toSave S ord g, t ∈ g.keys ∧ t ∉ S ∧ t ≠ entry := by
  intro t ht
  unfold toSave at ht
  simp only at ht
  have hset : t ∈ ((g.nodes.filter (fun n => !S.contains n.1)).map (·.1)).filter
      (fun i => !((g.nodes.filter (fun n => !S.contains n.1)).any (fun n => n.2.contains i)) && i != entry) := by
    rcases List.mem_append.mp ht with h | h
    · have := (List.mem_filter.mp h).2
      simpa using this
    · exact (List.mem_filter.mp h).1
  obtain ⟨h1, h2⟩ := List.mem_filter.mp hset
  obtain ⟨n, hn, rfl⟩ := List.mem_map.mp h1
  obtain ⟨hn1, hn2⟩ := List.mem_filter.mp hn
  simp only [Bool.and_eq_true, bne_iff_ne, ne_eq] at h2
  exact ⟨List.mem_map.mpr ⟨n, hn1, rfl⟩, by simpa using hn2, h2.2⟩

theorem saveOnto_mem (pts es : List Id) : ∀ t ∈ saveOnto es pts, t ∈ es ∨ (t ∈ pts ∧ t ≠ entry) := by
  induction pts generalizing es with
  | nil => intro t ht; exact Or.inl ht
  | cons p ps ih =>
    intro t ht
    unfold saveOnto at ht
    simp only [List.foldl_cons] at ht
    have ht' : t ∈ saveOnto (if p == entry then es else if es.contains p then es else es ++ [p]) ps := ht
    rcases ih _ t ht' with h | ⟨h1, h2⟩
    · split at h
      · exact Or.inl h
      · rename_i hpe
        split at h
        · exact Or.inl h
        · rcases List.mem_append.mp h with h | h
          · exact Or.inl h
          · simp at h; subst h
            exact Or.inr ⟨List.mem_cons_self, by simpa using hpe⟩
    · exact Or.inr ⟨List.mem_cons_of_mem _ h1, h2⟩

theorem zip_self_snd (l : List Id) : (l.zip l).map (·.2) = l := by
  induction l with
  | nil => rfl
  | cons a t ih => simp [ih]

theorem removeInbound_P (cfg : Cfg) (ds : Dists D) (hR : 1 ≤ cfg.degreeBound) (ord S : List Id) (g g' : Graph)
    (hP : P cfg.degreeBound g (fun _ => False)) (h : removeInbound cfg ds ord S g = .ok g') :
    P cfg.degreeBound g' (fun _ => False) ∧ (∀ i, i ∈ g'.keys ↔ i ∈ g.keys) ∧ g'.vecs = g.vecs ∧ g'.maxId = g.maxId ∧
      (∀ n ∈ g'.nodes, n.1 ∉ S → ∀ t ∈ n.2, t ∉ S) := by
  unfold removeInbound at h
  simp only at h
  -- all nodes to prune have a vector: the two GetMany results are aligned
  have hfilter : (toPrune S g).filter g.hasVec = toPrune S g := by
    apply List.filter_eq_self.mpr
    intro i hi
    unfold toPrune at hi
    obtain ⟨n, hn, rfl⟩ := List.mem_map.mp hi
    have hn' := (List.mem_filter.mp (List.mem_filter.mp hn).1).1
    have : n.1 ∈ g.vecs := (hP.kv _).mp (List.mem_map.mpr ⟨n, hn', rfl⟩)
    simpa [Graph.hasVec] using this
  rw [hfilter] at h
  split at h
  · cases h
  · rename_i g1 hg1
    obtain ⟨hP1, hk1, hv1, hm1, hn1⟩ := pruneAll_spec cfg ds hR S _ g g1 hP hg1
    rw [zip_self_snd] at hn1
    -- after the prune phase no node outside S points into S
    have hclean1 : ∀ n ∈ g1.nodes, n.1 ∉ S → ∀ t ∈ n.2, t ∉ S := by
      intro n hn hnS t ht
      rcases hn1 n hn with ⟨h1, h2⟩ | h
      · intro htS
        apply h2
        unfold toPrune
        refine List.mem_map.mpr ⟨n, ?_, rfl⟩
        refine List.mem_filter.mpr ⟨List.mem_filter.mpr ⟨h1, by simpa using hnS⟩, ?_⟩
        simp only [List.any_eq_true]
        exact ⟨t, ht, by simpa using htS⟩
      · exact h t ht
    split at h
    · cases h
      exact ⟨hP1, hk1, hv1, hm1, hclean1⟩
    · split at h
      · cases h
      · rename_i e0 he0
        cases h
        have he0n := edges_some he0
        have hsv : ∀ t ∈ saveOnto e0 ((toSave S ord g).filter g1.hasVec), (t ≠ entry ∧ t ∈ g1.keys) ∧ (entry ∉ S → t ∉ S) := by
          intro t ht
          rcases saveOnto_mem _ _ t ht with h | ⟨h1, h2⟩
          · have := (hP1.clean _ he0n (fun f => f)).1 t h
            exact ⟨this, fun hes => hclean1 _ he0n hes t h⟩
          · have := toSave_mem S ord g t (List.mem_filter.mp h1).1
            exact ⟨⟨h2, (hk1 t).mpr this.1⟩, fun _ => this.2.1⟩
        obtain ⟨hP2, hk2⟩ := P.put (R := cfg.degreeBound) (i := entry)
          (es := saveOnto e0 ((toSave S ord g).filter g1.hasVec)) hP1 (edges_some_key he0)
          (fun _ => ⟨fun t ht => (hsv t ht).1, fun hne => absurd rfl hne⟩)
        refine ⟨hP2, fun i => (hk2 i).trans (hk1 i), hv1, hm1, ?_⟩
        intro n hn hnS t ht
        rcases mem_putNode.mp hn with rfl | ⟨hn', _⟩
        · exact (hsv t ht).2 hnS
        · exact hclean1 n hn' hnS t ht

end

/-! ### classification of the changes of a batch (last change wins) -/

def liveStep (L : List Id) (c : Change) : List Id :=
  if c.hasVector then (if L.contains c.id then L else L ++ [c.id]) else L.filter (· != c.id)

theorem liveAfter_cons (L : List Id) (c : Change) (rest : List Change) :
    liveAfter L (c :: rest) = liveAfter (liveStep L c) rest := by
  unfold liveStep
  cases h : c.hasVector <;> simp [liveAfter, h]

theorem liveStep_mem (L : List Id) (c : Change) (i : Id) :
    i ∈ liveStep L c ↔ (c.hasVector = true ∧ (i ∈ L ∨ i = c.id)) ∨ (c.hasVector = false ∧ i ∈ L ∧ i ≠ c.id) := by
  unfold liveStep
  cases h : c.hasVector
  · simp [List.mem_filter]
  · simp only [if_true]
    split
    · rename_i hc
      have : c.id ∈ L := by simpa using hc
      grind
    · simp

theorem liveStep_nodup (L : List Id) (c : Change) (h : L.Nodup) : (liveStep L c).Nodup := by
  unfold liveStep
  split
  · split
    · exact h
    · rename_i hc
      have : c.id ∉ L := by simpa using hc
      rw [List.nodup_append]
      refine ⟨h, by simp, ?_⟩
      intro a ha b hb
      simp at hb; subst hb
      intro e; subst e; exact this ha
  · exact h.sublist List.filter_sublist

structure CInv (R : Nat) (acc : Acc) (L : List Id) : Prop where
  p : P R acc.g (fun _ => False)
  max : ∀ i ∈ acc.g.keys, i ≠ entry → i ≤ acc.g.maxId
  tsub : ∀ i ∈ acc.touched, i ∈ acc.g.keys ∧ i ≠ entry
  tud : ∀ i, i ∈ acc.touched ↔ (i ∈ acc.updated ∨ i ∈ acc.deleted)
  disj : ∀ i, i ∈ acc.updated → i ∉ acc.deleted
  live : ∀ i, (i ∈ acc.g.keys ∧ i ∉ acc.deleted) ↔ (i = entry ∨ i ∈ L)
  lnd : L.Nodup
  lne : entry ∉ L

section
variable {D : Type} [LT D] [DecidableRel (α := D) (· < ·)]

theorem classify_inv (cfg : Cfg) (ds : Dists D) (hR : 1 ≤ cfg.degreeBound) (acc acc' : Acc) (L : List Id) (c : Change)
    (hI : CInv cfg.degreeBound acc L) (h : classify true cfg ds acc c = .ok acc') :
    CInv cfg.degreeBound acc' (liveStep L c) := by
  unfold classify at h
  split at h
  · cases h
  · rename_i hne
    split at h
    · cases h
    · have hce : c.id ≠ entry := by simpa using hne
      have hvk : acc.g.hasVec c.id = true ↔ c.id ∈ acc.g.keys := by
        rw [hI.p.kv]; simp [Graph.hasVec]
      -- membership in the filtered lists
      have hU : ∀ i, i ∈ (if (true && acc.touched.contains c.id) = true then
            { acc with updated := acc.updated.filter (· != c.id), deleted := acc.deleted.filter (· != c.id) } else acc).updated
          ↔ i ∈ acc.updated ∧ i ≠ c.id := by
        intro i
        split
        · simp [List.mem_filter]
        · rename_i hc
          have : c.id ∉ acc.touched := by simpa using hc
          have := hI.tud c.id
          grind
      have hDl : ∀ i, i ∈ (if (true && acc.touched.contains c.id) = true then
            { acc with updated := acc.updated.filter (· != c.id), deleted := acc.deleted.filter (· != c.id) } else acc).deleted
          ↔ i ∈ acc.deleted ∧ i ≠ c.id := by
        intro i
        split
        · simp [List.mem_filter]
        · rename_i hc
          have : c.id ∉ acc.touched := by simpa using hc
          have := hI.tud c.id
          grind
      have hG : (if (true && acc.touched.contains c.id) = true then
            { acc with updated := acc.updated.filter (· != c.id), deleted := acc.deleted.filter (· != c.id) } else acc).g = acc.g := by
        split <;> rfl
      have hT : (if (true && acc.touched.contains c.id) = true then
            { acc with updated := acc.updated.filter (· != c.id), deleted := acc.deleted.filter (· != c.id) } else acc).touched = acc.touched := by
        split <;> rfl
      simp only at h
      generalize (if (true && acc.touched.contains c.id) = true then
            { acc with updated := acc.updated.filter (· != c.id), deleted := acc.deleted.filter (· != c.id) } else acc) = acc1 at h hU hDl hG hT
      have hlm := liveStep_mem L c
      have hnd := liveStep_nodup L c hI.lnd
      obtain ⟨hp, hmax, hts, htud, hdj, hlv, _, hle⟩ := hI
      split at h
      · -- not stored, no vector: skip
        rename_i hex hcv
        cases h
        have hnk : c.id ∉ acc.g.keys := by rw [← hvk]; simp [hex]
        refine ⟨hG ▸ hp, hG ▸ hmax, ?_, ?_, ?_, ?_, hnd, ?_⟩
        · rw [hT, hG]; exact hts
        · intro i; rw [hT, hU, hDl]; have := htud i; have := hts i; grind
        · intro i; rw [hU, hDl]; have := hdj i; grind
        · intro i; rw [hG, hDl, hlm]; have := hlv i; have := hlv c.id; grind
        · rw [hlm]; grind
      · -- not stored, vector: insert
        rename_i hex hcv
        split at h
        · cases h
        · rename_i g' hg'
          cases h
          have hnk : c.id ∉ acc.g.keys := by rw [← hvk]; simp [hex]
          rw [hG] at hg'
          have hp0 : P cfg.degreeBound { acc.g with maxId := if c.id > acc.g.maxId then c.id else acc.g.maxId } (fun _ => False) :=
            ⟨hp.nodupK, hp.nodupV, hp.kv, hp.clean⟩
          obtain ⟨hP', hk', hm'⟩ := insertPoint_P cfg ds hR _ _ g' c.id hp0 hg'
          have hk'' : ∀ i, i ∈ g'.keys ↔ i = c.id ∨ i ∈ acc.g.keys := hk'
          refine ⟨hP'.congr (fun i hi => hi.1), ?_, ?_, ?_, ?_, ?_, hnd, ?_⟩
          · intro i hi hie
            have hm'' : g'.maxId = if c.id > acc.g.maxId then c.id else acc.g.maxId := hm'
            show i ≤ g'.maxId
            rw [hm'']
            rcases (hk'' i).mp hi with rfl | h
            · by_cases hgt : c.id > acc.g.maxId
              · rw [if_pos hgt]; exact Nat.le_refl _
              · rw [if_neg hgt]; exact Nat.le_of_not_gt hgt
            · have := hmax i h hie
              by_cases hgt : c.id > acc.g.maxId
              · rw [if_pos hgt]; exact Nat.le_trans this (Nat.le_of_lt hgt)
              · rw [if_neg hgt]; exact this
          · intro i hi
            show i ∈ g'.keys ∧ _
            rw [hT] at hi
            have := hts i hi
            rw [hk'']; grind
          · intro i; show i ∈ acc1.touched ↔ _; rw [hT, hU, hDl]; have := htud i; have := hts i; grind
          · intro i; show i ∈ acc1.updated → _; rw [hU, hDl]; have := hdj i; grind
          · intro i
            show (i ∈ g'.keys ∧ i ∉ acc1.deleted) ↔ _
            rw [hk'', hDl, hlm]; have := hlv i; have := hlv c.id; have := htud c.id; have := hts c.id; grind
          · rw [hlm]; grind
      · -- stored, vector: update
        rename_i hex hcv
        cases h
        have hk : c.id ∈ acc.g.keys := hvk.mp hex
        refine ⟨hG ▸ hp, hG ▸ hmax, ?_, ?_, ?_, ?_, hnd, ?_⟩
        · intro i hi
          show i ∈ acc1.g.keys ∧ _
          rw [hG]
          simp only [hT, List.mem_cons] at hi
          rcases hi with rfl | hi
          · exact ⟨hk, hce⟩
          · exact hts i hi
        · intro i
          simp only [hT, List.mem_cons, List.mem_append, hU, hDl]
          have := htud i; grind
        · intro i
          simp only [List.mem_append, List.mem_singleton, hU, hDl]
          have := hdj i; grind
        · intro i
          simp only [hG, hDl, hlm]
          have := hlv i; have := hlv c.id; grind
        · rw [hlm]; grind
      · -- stored, no vector: delete
        rename_i hex hcv
        cases h
        have hk : c.id ∈ acc.g.keys := hvk.mp hex
        refine ⟨hG ▸ hp, hG ▸ hmax, ?_, ?_, ?_, ?_, hnd, ?_⟩
        · intro i hi
          show i ∈ acc1.g.keys ∧ _
          rw [hG]
          simp only [hT, List.mem_cons] at hi
          rcases hi with rfl | hi
          · exact ⟨hk, hce⟩
          · exact hts i hi
        · intro i
          simp only [hT, List.mem_cons, List.mem_append, hU, hDl]
          have := htud i; grind
        · intro i
          simp only [List.mem_append, List.mem_singleton, hU, hDl]
          have := hdj i; grind
        · intro i
          simp only [hG, hDl, hlm, List.mem_append, List.mem_singleton]
          have := hlv i; have := hlv c.id; grind
        · rw [hlm]; grind
end

/-! ### assembly -/

theorem wf_iff (R : Nat) (g : Graph) (L : List Id) :
    WF R g L ↔ (P R g (fun _ => False) ∧ L.Nodup ∧ entry ∉ L ∧ (∀ i, i ∈ g.keys ↔ (i = entry ∨ i ∈ L)) ∧ (∀ i ∈ L, i ≤ g.maxId)) := by
  unfold WF wfB
  simp only [Bool.and_eq_true, nodupB_iff, List.all_eq_true, Bool.not_eq_true',
    List.contains_eq_mem, decide_eq_false_iff_not, decide_eq_true_eq, List.mem_cons, bne_iff_ne, ne_eq,
    Bool.or_eq_true, beq_iff_eq, forall_eq_or_imp]
  constructor
  · rintro ⟨⟨⟨⟨⟨⟨⟨⟨⟨hk, hv⟩, hl⟩, he⟩, h1⟩, h2, h3⟩, h4⟩, h5, h6⟩, h7⟩, h8⟩
    refine ⟨⟨hk, hv, ?_, ?_⟩, hl, he, ?_, h8⟩
    · intro i
      constructor
      · intro hi
        rcases h1 i hi with rfl | h
        · exact h5
        · exact h6 i h
      · intro hi
        rcases h4 i hi with rfl | h
        · exact h2
        · exact h3 i h
    · intro n hn _
      have := h7 n hn
      refine ⟨fun t ht => this.1 t ht, fun hne => ?_⟩
      rcases this.2 with h | h
      · exact absurd h hne
      · exact h
    · intro i
      constructor
      · exact h1 i
      · rintro (rfl | h)
        · exact h2
        · exact h3 i h
  · rintro ⟨⟨hk, hv, hkv, hc⟩, hl, he, hkl, hm⟩
    refine ⟨⟨⟨⟨⟨⟨⟨⟨⟨hk, hv⟩, hl⟩, he⟩, fun i hi => (hkl i).mp hi⟩, (hkl _).mpr (Or.inl rfl), fun i hi => (hkl i).mpr (Or.inr hi)⟩,
      fun i hi => (hkl i).mp ((hkv i).mpr hi)⟩, (hkv _).mp ((hkl _).mpr (Or.inl rfl)), fun i hi => (hkv i).mp ((hkl i).mpr (Or.inr hi))⟩, ?_⟩, hm⟩
    intro n hn
    have := hc n hn (fun f => f)
    refine ⟨this.1, ?_⟩
    by_cases h : n.1 = entry
    · exact Or.inl h
    · exact Or.inr (this.2 h)

theorem C10_wf_meaning_aux (R : Nat) (g : Graph) (L : List Id) :
    WF R g L ↔
      ((g.keys.Nodup ∧ g.vecs.Nodup ∧ (∀ i, i ∈ g.keys ↔ i ∈ g.vecs) ∧
        (∀ n ∈ g.nodes, (∀ t ∈ n.2, t ≠ n.1 ∧ t ∈ g.keys) ∧ (n.1 ≠ entry → n.2.length ≤ R))) ∧
       L.Nodup ∧ entry ∉ L ∧ (∀ i, i ∈ g.keys ↔ (i = entry ∨ i ∈ L)) ∧ (∀ i ∈ L, i ≤ g.maxId)) := by
  rw [wf_iff]
  constructor
  · rintro ⟨⟨h1, h2, h3, h4⟩, h⟩
    exact ⟨⟨h1, h2, h3, fun n hn => h4 n hn (fun f => f)⟩, h⟩
  · rintro ⟨⟨h1, h2, h3, h4⟩, h⟩
    exact ⟨⟨h1, h2, h3, fun n hn _ => h4 n hn⟩, h⟩

section
variable {D : Type} [LT D] [DecidableRel (α := D) (· < ·)]

theorem classifyAll_inv (cfg : Cfg) (ds : Dists D) (hR : 1 ≤ cfg.degreeBound) (cs : List Change) (acc acc' : Acc) (L : List Id)
    (hI : CInv cfg.degreeBound acc L) (h : classifyAll true cfg ds cs acc = .ok acc') :
    CInv cfg.degreeBound acc' (liveAfter L cs) := by
  induction cs generalizing acc L with
  | nil => simp [classifyAll] at h; subst h; exact hI
  | cons c rest ih =>
    unfold classifyAll at h
    split at h
    · cases h
    · rename_i acc1 h1
      rw [liveAfter_cons]
      exact ih _ _ (classify_inv cfg ds hR acc acc1 L c hI h1) h

theorem reinsertAll_P (cfg : Cfg) (ds : Dists D) (hR : 1 ≤ cfg.degreeBound) (us : List Id) (g g' : Graph) (B : Id → Prop)
    (hP : P cfg.degreeBound g B) (h : reinsertAll cfg ds us g = .ok g') :
    P cfg.degreeBound g' (fun i => B i ∧ i ∉ us) ∧ (∀ i, i ∈ g'.keys ↔ i ∈ us ∨ i ∈ g.keys) ∧ g'.maxId = g.maxId := by
  induction us generalizing g B with
  | nil =>
    simp [reinsertAll] at h; subst h
    exact ⟨hP.congr (fun i hi => ⟨hi, by simp⟩), by simp, rfl⟩
  | cons u rest ih =>
    unfold reinsertAll at h
    split at h
    · cases h
    · rename_i g1 h1
      obtain ⟨hP1, hk1, hm1⟩ := insertPoint_P cfg ds hR B g g1 u hP h1
      obtain ⟨hP2, hk2, hm2⟩ := ih g1 _ hP1 h
      refine ⟨hP2.congr ?_, ?_, hm2.trans hm1⟩
      · intro i hi
        simp only [List.mem_cons, not_or]
        exact ⟨hi.1.1, hi.1.2, hi.2⟩
      · intro i; rw [hk2 i, hk1 i]; simp only [List.mem_cons]; grind

theorem deleteNodes_keys (g : Graph) (dl : List Id) (i : Id) : i ∈ (deleteNodes g dl).keys ↔ i ∈ g.keys ∧ i ∉ dl := by
  unfold deleteNodes Graph.keys
  simp only [List.mem_map, List.mem_filter]
  constructor
  · rintro ⟨n, ⟨hn, hd⟩, rfl⟩
    exact ⟨⟨n, hn, rfl⟩, by simpa using hd⟩
  · rintro ⟨⟨n, hn, rfl⟩, hd⟩
    exact ⟨n, ⟨hn, by simpa using hd⟩, rfl⟩

/-- the single-threaded rest of the batch re-establishes well-formedness from any classified state -/
theorem tail_wf (cfg : Cfg) (ds : Dists D) (hR : 1 ≤ cfg.degreeBound) (ord : List Id) (acc : Acc) (g' : Graph) (L' : List Id)
    (hI : CInv cfg.degreeBound acc L') (h : tail cfg ds ord acc = .ok g') :
    WF cfg.degreeBound g' L' := by
  rw [wf_iff]
  obtain ⟨hp, hmax, hts, htud, hdj, hlv, hnd, hle⟩ := hI
  unfold tail at h
  split at h
  · cases h
  · rename_i g1 hg1
    -- phase 2: inbound edges of touched nodes are gone
    have h2 : P cfg.degreeBound g1 (fun _ => False) ∧ (∀ i, i ∈ g1.keys ↔ i ∈ acc.g.keys) ∧ g1.vecs = acc.g.vecs ∧
        g1.maxId = acc.g.maxId ∧ (∀ n ∈ g1.nodes, n.1 ∉ acc.touched → ∀ t ∈ n.2, t ∉ acc.touched) := by
      split at hg1
      · rename_i hemp
        cases hg1
        have : acc.touched = [] := by simpa using hemp
        exact ⟨hp, fun _ => Iff.rfl, rfl, rfl, by simp [this]⟩
      · exact removeInbound_P cfg ds hR ord acc.touched acc.g g1 hp hg1
    obtain ⟨hp1, hk1, hv1, hm1, hcl1⟩ := h2
    -- phase 3: deletion
    have hp2 : P cfg.degreeBound (deleteNodes g1 acc.deleted) (fun i => i ∈ acc.updated) := by
      refine ⟨?_, ?_, ?_, ?_⟩
      · exact hp1.nodupK.sublist (List.Sublist.map _ List.filter_sublist)
      · exact hp1.nodupV.sublist List.filter_sublist
      · intro i
        rw [deleteNodes_keys]
        show _ ↔ i ∈ g1.vecs.filter _
        rw [List.mem_filter, hp1.kv i]; simp
      · intro n hn hnu
        obtain ⟨hn1, hnd1⟩ := List.mem_filter.mp hn
        have hnt : n.1 ∉ acc.touched := by
          intro ht
          rcases (htud _).mp ht with h | h
          · exact hnu h
          · simp [h] at hnd1
        obtain ⟨hc1, hc2⟩ := hp1.clean n hn1 (fun f => f)
        refine ⟨fun t ht => ⟨(hc1 t ht).1, ?_⟩, hc2⟩
        rw [deleteNodes_keys]
        refine ⟨(hc1 t ht).2, fun htd => ?_⟩
        exact hcl1 n hn1 hnt t ht ((htud t).mpr (Or.inr htd))
    -- phase 4: re-insertion
    obtain ⟨hp3, hk3, hm3⟩ := reinsertAll_P cfg ds hR acc.updated _ g' _ hp2 h
    have hkeys : ∀ i, i ∈ g'.keys ↔ (i = entry ∨ i ∈ L') := by
      intro i
      rw [hk3 i, deleteNodes_keys, hk1 i, ← hlv i]
      constructor
      · rintro (hu | h)
        · exact ⟨(hts i ((htud i).mpr (Or.inl hu))).1, hdj i hu⟩
        · exact h
      · intro h; exact Or.inr h
    refine ⟨hp3.congr (fun i hi => hi.2 hi.1), hnd, hle, hkeys, ?_⟩
    intro i hi
    have : g'.maxId = acc.g.maxId := by rw [hm3]; exact hm1
    rw [this]
    have hik := ((hlv i).mpr (Or.inr hi)).1
    exact hmax i hik (fun e => hle (e ▸ hi))

/-- `applyV` is the classification (with the sequential insert workers) followed by `tail` -/
theorem applyV_tail (lastWins : Bool) (cfg : Cfg) (ds : Dists D) (ord : List Id) (g : Graph) (batch : List Change) :
    applyV lastWins cfg ds ord g batch =
      (match classifyAll lastWins cfg ds batch { g := g } with
       | .error e => .error e
       | .ok acc => tail cfg ds ord acc) := rfl

theorem apply_wf (cfg : Cfg) (ds : Dists D) (hR : 1 ≤ cfg.degreeBound) (ord : List Id) (g g' : Graph) (L : List Id)
    (batch : List Change) (hWF : WF cfg.degreeBound g L) (h : apply cfg ds ord g batch = .ok g') :
    WF cfg.degreeBound g' (liveAfter L batch) := by
  rw [wf_iff] at hWF
  obtain ⟨hP, hl, he, hkl, hm⟩ := hWF
  have hI0 : CInv cfg.degreeBound { g := g } L := by
    refine ⟨hP, ?_, by simp, by simp, by simp, ?_, hl, he⟩
    · intro i hi hie
      rcases (hkl i).mp hi with h | h
      · exact absurd h hie
      · exact hm i h
    · intro i; simp; exact hkl i
  unfold apply at h
  rw [applyV_tail] at h
  split at h
  · cases h
  · rename_i acc hacc
    exact tail_wf cfg ds hR ord acc g' _ (classifyAll_inv cfg ds hR batch _ acc L hI0 hacc) h

/-- (alias used by C03) -/
theorem C10_step_aux (cfg : Cfg) (hR : 1 ≤ cfg.degreeBound) (ds : Dists D) (ord : List Id) (g g' : Graph) (L : List Id)
    (batch : List Change) (hWF : WF cfg.degreeBound g L) (h : apply cfg ds ord g batch = .ok g') :
    WF cfg.degreeBound g' (liveAfter L batch) :=
  apply_wf cfg ds hR ord g g' L batch hWF h

theorem C10_history_aux (cfg : Cfg) (hR : 1 ≤ cfg.degreeBound) (steps : List (Step D)) :
    WF cfg.degreeBound (run cfg steps (Graph.init, [])).1 (run cfg steps (Graph.init, [])).2 := by
  have hinit : WF cfg.degreeBound Graph.init [] := by
    unfold WF wfB Graph.init Graph.keys; simp [nodupB, entry]
  generalize Graph.init = g at hinit ⊢
  generalize ([] : List Id) = L at hinit ⊢
  induction steps generalizing g L with
  | nil => exact hinit
  | cons st rest ih =>
    unfold run
    split
    · exact ih g L hinit
    · rename_i g' hg'
      exact ih g' _ (C10_step_aux cfg hR st.ds st.ord g g' L st.batch hinit hg')

end

/-! ### the point store and the index change stream (shard.go transform functions + dispatch.go `getOperation`)

`pstep_spec`: one batch element changes only its own point's document, and the vector index (on ANY schema
path, nested or not) is told nothing iff the point neither had nor has the field; otherwise it is told about
this point, with a vector iff the new document has the field — that document's vector.  `pbatch_agree`
carries "`L` = the points that exist and carry the field" through a batch along `liveAfter`;
`pbatch_vecs` carries "the index holds the vector of the document". -/

theorem find_filter_ne (S : PStore) (i j : Id) (h : j ≠ i) :
    (S.filter (fun e => e.1 != i)).find? (fun e => e.1 == j) = S.find? (fun e => e.1 == j) := by
  rw [List.find?_filter]
  congr 1
  funext e
  by_cases hj : e.1 = j
  · have : e.1 ≠ i := fun x => h (hj ▸ x)
    simp [hj, h]
  · simp [hj]

theorem find_filter_eq (S : PStore) (i : Id) :
    (S.filter (fun e => e.1 != i)).find? (fun e => e.1 == i) = none := by
  rw [List.find?_filter]
  simp

theorem docOf_putDoc (S : PStore) (i j : Id) (d : Doc) :
    docOf (putDoc S i d) j = if j = i then some d else docOf S j := by
  unfold docOf putDoc
  by_cases h : j = i
  · subst h; simp
  · have h' : (i == j) = false := by simpa using fun e : i = j => h e.symm
    simp only [List.find?_cons, h', h, if_false, find_filter_ne S i j h]

theorem docOf_dropDoc (S : PStore) (i j : Id) :
    docOf (dropDoc S i) j = if j = i then none else docOf S j := by
  unfold docOf dropDoc
  by_cases h : j = i
  · subst h; simp
  · simp only [h, if_false, find_filter_ne S i j h]



/-- has-the-field of an optional document (`len(data) == 0` ⇒ no field) -/
def hasF (vp : Path) : Option Doc → Bool
  | none => false
  | some d => hasField vp d

theorem qv_hasF (vp : Path) (od : Option Doc) (a : Option Leaf) (h : qv vp od = .ok a) : hasF vp od = a.isSome := by
  cases od with
  | none => simp [qv] at h; subst h; rfl
  | some d =>
    simp only [qv] at h
    simp only [hasF, hasField, h]
    cases a <;> rfl

/-- what `changeOf` emits: nothing iff neither document has the field; otherwise a change for this point
that carries a vector iff the new document has the field (and then it is that document's vector) -/
theorem changeOf_spec (vp : Path) (i : Id) (prev cur : Option Doc) (c : Option VChange)
    (h : changeOf vp i prev cur = .ok c) :
    (c = none ∧ hasF vp prev = false ∧ hasF vp cur = false) ∨
    (∃ v, c = some { id := i, vec := v } ∧ v.isSome = hasF vp cur ∧ (hasF vp prev = true ∨ hasF vp cur = true) ∧
      (∀ t, v = some t ↔ qv vp cur = .ok (some (Leaf.vec t)))) := by
  unfold changeOf at h
  split at h
  · cases h
  · rename_i a ha
    have hp := qv_hasF vp prev a ha
    split at h
    · cases h
    · rename_i hb
      have hc := qv_hasF vp cur none hb
      cases h
      cases a with
      | none => left; simp_all
      | some l => right; exact ⟨none, by simp, by simp [hc], by simp [hp], by simp [hb]⟩
    · rename_i t hb
      have hc := qv_hasF vp cur _ hb
      cases h
      right
      refine ⟨some t, rfl, by simp [hc], by simp [hc], ?_⟩
      intro t'
      rw [hb]
      constructor
      · intro e; cases e; rfl
      · intro e; cases e; rfl
    · cases h

theorem fld_eq (vp : Path) (S : PStore) (i : Id) : fld vp S i = hasF vp (docOf S i) := by
  unfold fld hasF
  cases docOf S i <;> rfl

/-- effect of one batch element on "exists and has the field", and on the emitted change -/
theorem pstep_spec (vp : Path) (S S' : PStore) (o : POp) (c : Option VChange) (h : pstep vp S o = .ok (S', c)) :
    (∀ j, j ≠ o.id → docOf S' j = docOf S j) ∧
    ((c = none ∧ fld vp S o.id = false ∧ fld vp S' o.id = false) ∨
     (∃ v, c = some { id := o.id, vec := v } ∧ v.isSome = fld vp S' o.id ∧
        (fld vp S o.id = true ∨ fld vp S' o.id = true) ∧ (∀ t, v = some t ↔ docVec vp S' o.id = some t))) := by
  cases o with
  | ins i doc =>
    simp only [pstep] at h
    split at h
    · cases h
    · rename_i hno
      split at h
      · cases h
      · rename_i c' hc
        cases h
        refine ⟨fun j hj => by simp [docOf_putDoc, POp.id] at hj ⊢; simp [hj], ?_⟩
        have := changeOf_spec vp i none (some doc) c hc
        simp only [POp.id, fld_eq, docVec, docOf_putDoc, if_true, hno] at this ⊢
        rcases this with ⟨h1, h2, h3⟩ | ⟨v, h1, h2, h3, h4⟩
        · left; exact ⟨h1, h2, h3⟩
        · right
          refine ⟨v, h1, h2, h3, ?_⟩
          intro t; rw [h4 t]; simp only [qv]
          cases query vp doc with
          | error e => simp
          | ok a => cases a with
            | none => simp
            | some l => cases l <;> simp
  | upd i inc =>
    simp only [pstep] at h
    split at h
    · rename_i hno
      cases h
      refine ⟨fun j _ => rfl, Or.inl ⟨rfl, ?_, ?_⟩⟩ <;> simp [fld, POp.id, hno]
    · rename_i old hold
      split at h
      · cases h
      · rename_i c' hc
        cases h
        refine ⟨fun j hj => by simp [docOf_putDoc, POp.id] at hj ⊢; simp [hj], ?_⟩
        have := changeOf_spec vp i (some old) (some (mergeDoc old inc)) c hc
        simp only [POp.id, fld_eq, docVec, docOf_putDoc, if_true, hold] at this ⊢
        rcases this with ⟨h1, h2, h3⟩ | ⟨v, h1, h2, h3, h4⟩
        · left; exact ⟨h1, h2, h3⟩
        · right
          refine ⟨v, h1, h2, h3, ?_⟩
          intro t; rw [h4 t]; simp only [qv]
          cases query vp (mergeDoc old inc) with
          | error e => simp
          | ok a => cases a with
            | none => simp
            | some l => cases l <;> simp
  | del i =>
    simp only [pstep] at h
    split at h
    · rename_i hno
      cases h
      refine ⟨fun j _ => rfl, Or.inl ⟨rfl, ?_, ?_⟩⟩ <;> simp [fld, POp.id, hno]
    · rename_i old hold
      split at h
      · cases h
      · rename_i c' hc
        cases h
        refine ⟨fun j hj => by simp [docOf_dropDoc, POp.id] at hj ⊢; simp [hj], ?_⟩
        have := changeOf_spec vp i (some old) none c hc
        simp only [POp.id, fld_eq, docVec, docOf_dropDoc, if_true, hold] at this ⊢
        rcases this with ⟨h1, h2, h3⟩ | ⟨v, h1, h2, h3, h4⟩
        · left; exact ⟨h1, h2, h3⟩
        · right
          refine ⟨v, h1, h2, h3, ?_⟩
          intro t; rw [h4 t]; simp [qv]



/-- `L` lists exactly the points that exist and carry the field -/
def Agree (vp : Path) (L : List Id) (S : PStore) : Prop := L.Nodup ∧ ∀ i, i ∈ L ↔ fld vp S i = true

theorem liveAfter_append (L : List Id) (a b : List Change) : liveAfter L (a ++ b) = liveAfter (liveAfter L a) b := by
  induction a generalizing L with
  | nil => rfl
  | cons c rest ih => simp only [List.cons_append, liveAfter_cons, ih]

theorem pstep_agree (vp : Path) (S S' : PStore) (o : POp) (c : Option VChange) (L : List Id)
    (hA : Agree vp L S) (h : pstep vp S o = .ok (S', c)) :
    Agree vp (liveAfter L (c.toList.map VChange.toChange)) S' := by
  obtain ⟨hoth, hc⟩ := pstep_spec vp S S' o c h
  have hfo : ∀ j, j ≠ o.id → fld vp S' j = fld vp S j := fun j hj => by simp only [fld, hoth j hj]
  rcases hc with ⟨rfl, h1, h2⟩ | ⟨v, rfl, hv, _, _⟩
  · simp only [Option.toList, List.map_nil, liveAfter]
    refine ⟨hA.1, fun i => ?_⟩
    by_cases hi : i = o.id
    · subst hi; rw [hA.2, h1, h2]
    · rw [hA.2, hfo i hi]
  · simp only [Option.toList, List.map_cons, List.map_nil, liveAfter_cons, liveAfter]
    refine ⟨liveStep_nodup _ _ hA.1, fun i => ?_⟩
    rw [liveStep_mem]
    simp only [VChange.toChange]
    by_cases hi : i = o.id
    · subst hi
      rw [← hv]
      cases v <;> simp
    · rw [hfo i hi, hA.2]
      cases v <;> simp [hi]

theorem pbatch_agree (vp : Path) (ops : List POp) (S S' : PStore) (cs : List VChange) (L : List Id)
    (hA : Agree vp L S) (h : pbatch vp ops S = .ok (S', cs)) :
    Agree vp (liveAfter L (cs.map VChange.toChange)) S' := by
  induction ops generalizing S L cs with
  | nil => simp [pbatch] at h; obtain ⟨rfl, rfl⟩ := h; exact hA
  | cons o rest ih =>
    simp only [pbatch] at h
    split at h
    · cases h
    · rename_i S1 c hs
      split at h
      · cases h
      · rename_i S2 cs2 hb
        cases h
        rw [List.map_append, liveAfter_append]
        exact ih S1 cs2 _ (pstep_agree vp S S1 o c L hA hs) hb

/-! keys of the points bucket are unique (bbolt keys; node ids unique among live points: C01) -/

def PStore.keys (S : PStore) : List Id := S.map (·.1)

theorem mem_fieldIds (vp : Path) (S : PStore) (hS : S.keys.Nodup) (i : Id) :
    i ∈ fieldIds vp S ↔ fld vp S i = true := by
  unfold fieldIds fld docOf
  induction S with
  | nil => simp
  | cons e rest ih =>
    have hnd : (PStore.keys rest).Nodup := (List.nodup_cons.mp hS).2
    have hne : e.1 ∉ PStore.keys rest := (List.nodup_cons.mp hS).1
    by_cases hi : e.1 = i
    · subst hi
      simp only [List.find?_cons, beq_self_eq_true, Option.map_some]
      by_cases hf : hasField vp e.2 = true
      · simp [hf]
      · have : e.1 ∉ List.map (·.1) (List.filter (fun e => hasField vp e.2) rest) := by
          intro hm
          obtain ⟨x, hx, hx1⟩ := List.mem_map.mp hm
          exact hne (List.mem_map.mpr ⟨x, (List.mem_filter.mp hx).1, hx1⟩)
        simp [hf, this]
    · have hi' : (e.1 == i) = false := by simpa using hi
      simp only [List.find?_cons, hi']
      rw [← ih hnd]
      by_cases hf : hasField vp e.2 = true
      · have hi2 : ¬ i = e.1 := fun x => hi x.symm
        simp [hf, hi2]
      · simp [hf]

theorem fieldIds_nodup (vp : Path) (S : PStore) (hS : S.keys.Nodup) : (fieldIds vp S).Nodup := by
  unfold fieldIds
  exact List.Nodup.sublist (List.Sublist.map _ List.filter_sublist) hS

theorem agree_fieldIds (vp : Path) (S : PStore) (hS : S.keys.Nodup) : Agree vp (fieldIds vp S) S :=
  ⟨fieldIds_nodup vp S hS, mem_fieldIds vp S hS⟩

theorem pstep_keys (vp : Path) (S S' : PStore) (o : POp) (c : Option VChange) (hS : S.keys.Nodup)
    (h : pstep vp S o = .ok (S', c)) : S'.keys.Nodup := by
  have hput : ∀ i d, (putDoc S i d).keys.Nodup := by
    intro i d
    unfold putDoc PStore.keys
    rw [List.map_cons, List.nodup_cons]
    refine ⟨?_, List.Nodup.sublist (List.Sublist.map _ List.filter_sublist) hS⟩
    intro hm
    obtain ⟨x, hx, hx1⟩ := List.mem_map.mp hm
    have := (List.mem_filter.mp hx).2
    simp at this
    exact this hx1
  have hdrop : ∀ i, (dropDoc S i).keys.Nodup := fun i =>
    List.Nodup.sublist (List.Sublist.map _ List.filter_sublist) hS
  cases o with
  | ins i doc =>
    simp only [pstep] at h
    split at h
    · cases h
    · split at h
      · cases h
      · cases h; exact hput _ _
  | upd i inc =>
    simp only [pstep] at h
    split at h
    · cases h; exact hS
    · split at h
      · cases h
      · cases h; exact hput _ _
  | del i =>
    simp only [pstep] at h
    split at h
    · cases h; exact hS
    · split at h
      · cases h
      · cases h; exact hdrop _

theorem pbatch_keys (vp : Path) (ops : List POp) (S S' : PStore) (cs : List VChange) (hS : S.keys.Nodup)
    (h : pbatch vp ops S = .ok (S', cs)) : S'.keys.Nodup := by
  induction ops generalizing S cs with
  | nil => simp [pbatch] at h; obtain ⟨rfl, rfl⟩ := h; exact hS
  | cons o rest ih =>
    simp only [pbatch] at h
    split at h
    · cases h
    · rename_i S1 c hs
      split at h
      · cases h
      · rename_i S2 cs2 hb
        cases h
        exact ih S1 cs2 (pstep_keys vp S S1 o c hS hs) hb

/-- `WF` does not depend on the order in which `L` lists the points -/
theorem WF_congr (R : Nat) (g : Graph) (L L' : List Id) (hnd : L'.Nodup) (hm : ∀ i, i ∈ L ↔ i ∈ L')
    (h : WF R g L) : WF R g L' := by
  rw [wf_iff] at h ⊢
  obtain ⟨hP, _, he, hk, hmx⟩ := h
  exact ⟨hP, hnd, fun x => he ((hm _).mpr x), fun i => by rw [hk i, hm i], fun i hi => hmx i ((hm i).mpr hi)⟩

theorem docVec_none_of_fld (vp : Path) (S : PStore) (i : Id) (h : fld vp S i = false) : docVec vp S i = none := by
  unfold fld at h
  unfold docVec
  cases hd : docOf S i with
  | none => rfl
  | some d =>
    simp only [hd, hasField] at h ⊢
    cases hq : query vp d with
    | error e => rfl
    | ok a =>
      cases a with
      | none => rfl
      | some l => simp [hq] at h

theorem pstep_vecs (vp : Path) (S S' : PStore) (o : POp) (c : Option VChange) (T : Id → Option Nat)
    (hT : ∀ i, T i = docVec vp S i) (h : pstep vp S o = .ok (S', c)) :
    ∀ i, vecsAfter T c.toList i = docVec vp S' i := by
  obtain ⟨hoth, hc⟩ := pstep_spec vp S S' o c h
  have hvo : ∀ j, j ≠ o.id → docVec vp S' j = docVec vp S j := fun j hj => by simp only [docVec, hoth j hj]
  intro i
  rcases hc with ⟨rfl, h1, h2⟩ | ⟨v, rfl, _, _, hv⟩
  · simp only [Option.toList, vecsAfter, hT]
    by_cases hi : i = o.id
    · subst hi; rw [docVec_none_of_fld _ _ _ h1, docVec_none_of_fld _ _ _ h2]
    · rw [hvo i hi]
  · simp only [Option.toList, vecsAfter]
    by_cases hi : i = o.id
    · subst hi
      simp only [if_true]
      cases v with
      | none =>
        cases hd : docVec vp S' o.id with
        | none => rfl
        | some t => exact absurd ((hv t).mpr hd) (by simp)
      | some t => exact ((hv t).mp rfl).symm
    · simp only [hi, if_false, hT, hvo i hi]

theorem vecsAfter_append (T : Id → Option Nat) (a b : List VChange) (i : Id) :
    vecsAfter T (a ++ b) i = vecsAfter (vecsAfter T a) b i := by
  induction a generalizing T with
  | nil => rfl
  | cons c rest ih => simp only [List.cons_append, vecsAfter, ih]

theorem pbatch_vecs (vp : Path) (ops : List POp) (S S' : PStore) (cs : List VChange) (T : Id → Option Nat)
    (hT : ∀ i, T i = docVec vp S i) (h : pbatch vp ops S = .ok (S', cs)) :
    ∀ i, vecsAfter T cs i = docVec vp S' i := by
  induction ops generalizing S T cs with
  | nil => simp [pbatch] at h; obtain ⟨rfl, rfl⟩ := h; exact hT
  | cons o rest ih =>
    simp only [pbatch] at h
    split at h
    · cases h
    · rename_i S1 c hs
      split at h
      · cases h
      · rename_i S2 cs2 hb
        cases h
        intro i
        rw [vecsAfter_append]
        exact ih S1 cs2 _ (pstep_vecs vp S S1 o c T hT hs) hb i



section
variable {D : Type} [LT D] [DecidableRel (α := D) (· < ·)]

/-- (used by C10_shard_step and by C03) -/
theorem shard_step_aux (cfg : Cfg) (hR : 1 ≤ cfg.degreeBound) (ds : Dists D) (ord : List Id) (g g' : Graph)
    (vp : Path) (ops : List POp) (S S' : PStore) (cs : List VChange) (hS : S.keys.Nodup)
    (hWF : WF cfg.degreeBound g (fieldIds vp S)) (hb : pbatch vp ops S = .ok (S', cs))
    (h : apply cfg ds ord g (cs.map VChange.toChange) = .ok g') :
    WF cfg.degreeBound g' (fieldIds vp S') := by
  have hk := pbatch_keys vp ops S S' cs hS hb
  have hA := pbatch_agree vp ops S S' cs _ (agree_fieldIds vp S hS) hb
  exact WF_congr _ g' _ _ (fieldIds_nodup vp S' hk) (fun i => by rw [hA.2 i, mem_fieldIds vp S' hk i])
    (C10_step_aux cfg hR ds ord g g' _ _ hWF h)

theorem shard_history_from_aux (cfg : Cfg) (hR : 1 ≤ cfg.degreeBound) (vp : Path) (steps : List (SStep D))
    (S : PStore) (g : Graph) (hS : S.keys.Nodup) (hWF : WF cfg.degreeBound g (fieldIds vp S)) :
    (shardRun cfg vp steps (S, g)).1.keys.Nodup ∧
    WF cfg.degreeBound (shardRun cfg vp steps (S, g)).2 (fieldIds vp (shardRun cfg vp steps (S, g)).1) := by
  induction steps generalizing S g with
  | nil => exact ⟨hS, hWF⟩
  | cons st rest ih =>
    unfold shardRun
    split
    · exact ih S g hS hWF
    · rename_i S' cs hb
      split
      · exact ih S g hS hWF
      · rename_i g' hg'
        exact ih S' g' (pbatch_keys vp st.ops S S' cs hS hb)
          (shard_step_aux cfg hR st.ds st.ord g g' vp st.ops S S' cs hS hWF hb hg')

theorem shard_history_aux (cfg : Cfg) (hR : 1 ≤ cfg.degreeBound) (vp : Path) (steps : List (SStep D)) :
    (shardRun cfg vp steps ([], Graph.init)).1.keys.Nodup ∧
    WF cfg.degreeBound (shardRun cfg vp steps ([], Graph.init)).2
      (fieldIds vp (shardRun cfg vp steps ([], Graph.init)).1) := by
  refine shard_history_from_aux cfg hR vp steps [] Graph.init (by simp [PStore.keys]) ?_
  unfold WF wfB Graph.init Graph.keys fieldIds
  simp [nodupB, entry]

end

end Sema.C10
