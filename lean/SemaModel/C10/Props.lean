/-
C10 — the persisted Vamana similarity graph stays well-formed after every write.

`WF R g L` (Model.lean, executable: it is the Boolean `wfB` that the driver evaluates on dumps of the real
index after every batch) says, for the node store / vector store / maxNodeId `g` and the node ids `L`
of the live points whose document carries the vector field:
  * node ids = vector ids = L ∪ {entry}, each exactly once (L without duplicates, entry ∉ L);
  * every edge leads to an existing node other than its source;
  * every node except the entry node has at most R (= degreeBound) edges;
  * maxNodeId ≥ every id in L.

The theorems hold for EVERY distance oracle (`Dists D`, any type `D` with a decidable `<`: nothing is
assumed about the order, about alpha, about the metric or the quantiser), every oracle `ord` for the Go map
order of the rescue step, every degree bound ≥ 1, every search size, and every batch — any mix of insert /
vector update / vector removal / delete changes, including batches naming the same point several times
(the last-change-wins bookkeeping of the repaired `insertUpdateDelete`; `lastWins = false` is the tree before
the `fix:` commit, for which `C10_defect13_witness` shows the invariant broken).

Modelling assumptions (see notes/C10.md): in `apply` the insert workers run one after the other (sequential
schedule) — `C10_step_any_workers` removes that assumption for well-formedness: it starts from ANY graph the
workers may leave; a rejected batch leaves the state unchanged (bbolt rollback + scrapped cache); node ids in
the change stream are those of the point store (`C10_ids` in Links.lean: C01's invariant).
-/
import SemaModel.C10.Batch
import SemaModel.Generated.FactsC10
namespace Sema.C10
open Sema.C03

/-- `WF` spelled out (so that the Boolean definition cannot hide anything) -/
theorem C10_wf_meaning (R : Nat) (g : Graph) (L : List Id) :
    WF R g L ↔
      ((g.keys.Nodup ∧ g.vecs.Nodup ∧ (∀ i, i ∈ g.keys ↔ i ∈ g.vecs) ∧
        (∀ n ∈ g.nodes, (∀ t ∈ n.2, t ≠ n.1 ∧ t ∈ g.keys) ∧ (n.1 ≠ entry → n.2.length ≤ R))) ∧
       L.Nodup ∧ entry ∉ L ∧ (∀ i, i ∈ g.keys ↔ (i = entry ∨ i ∈ L)) ∧ (∀ i ∈ L, i ≤ g.maxId)) :=
  C10_wf_meaning_aux R g L

/-- the fresh index (entry node only, no points) is well-formed -/
theorem C10_init (R : Nat) : WF R Graph.init [] := by
  unfold WF wfB Graph.init Graph.keys
  simp [nodupB, entry]

section
variable {D : Type} [LT D] [DecidableRel (α := D) (· < ·)]

/-- one batch: if the batch is accepted, well-formedness is preserved and the nodes are exactly the live
points carrying the field after the batch (`liveAfter`) plus the entry node.  No hypothesis on the batch. -/
theorem C10_step (cfg : Cfg) (hR : 1 ≤ cfg.degreeBound) (ds : Dists D) (ord : List Id) (g g' : Graph) (L : List Id)
    (batch : List Change) (hWF : WF cfg.degreeBound g L) (h : apply cfg ds ord g batch = .ok g') :
    WF cfg.degreeBound g' (liveAfter L batch) :=
  apply_wf cfg ds hR ord g g' L batch hWF h

/-- a batch naming the entry node or id 0 is rejected -/
theorem C10_reserved_ids_rejected (cfg : Cfg) (ds : Dists D) (ord : List Id) (g : Graph) (c : Change) (rest : List Change)
    (hc : c.id = entry ∨ c.id = 0) : ∃ e, apply cfg ds ord g (c :: rest) = .error e := by
  unfold apply applyV classifyAll classify
  rcases hc with h | h <;> simp [h, entry]

/-- every history of batches (accepted or rejected) from a well-formed state ends in a well-formed state -/
theorem C10_history_from (cfg : Cfg) (hR : 1 ≤ cfg.degreeBound) (steps : List (Step D)) (g : Graph) (L : List Id)
    (hWF : WF cfg.degreeBound g L) :
    WF cfg.degreeBound (run cfg steps (g, L)).1 (run cfg steps (g, L)).2 := by
  induction steps generalizing g L with
  | nil => exact hWF
  | cons st rest ih =>
    unfold run
    split
    · exact ih g L hWF
    · rename_i g' hg'
      exact ih g' _ (C10_step cfg hR st.ds st.ord g g' L st.batch hWF hg')

/-- … in particular every history from the empty index -/
theorem C10_history (cfg : Cfg) (hR : 1 ≤ cfg.degreeBound) (steps : List (Step D)) :
    WF cfg.degreeBound (run cfg steps (Graph.init, [])).1 (run cfg steps (Graph.init, [])).2 :=
  C10_history_from cfg hR steps Graph.init [] (C10_init _)

end

/-! ### batches of several changes and the parallel insert workers

`apply` runs the insert workers one after the other.  The real code runs them in parallel, so the EDGES they
create are not a function of the batch.  What is: the bookkeeping of the classification (`classes`: no graph,
no distance), and everything that happens after the workers have been waited for (`tail`: single-threaded in
the code).  The three theorems below split `C10_step` along that line; the correspondence (`batch` lines of
the driver, go/vgraph/batch.go) compares exactly these pieces with the real run of every multi-change batch. -/

section
variable {D : Type} [LT D] [DecidableRel (α := D) (· < ·)]

/-- `apply` is the classification (with the sequential insert workers) followed by `tail` -/
theorem C10_apply_phases (cfg : Cfg) (ds : Dists D) (ord : List Id) (g : Graph) (batch : List Change) :
    apply cfg ds ord g batch =
      (match classifyAll true cfg ds batch { g := g } with
       | .error e => .error e
       | .ok acc => tail cfg ds ord acc) :=
  applyV_tail true cfg ds ord g batch

/-- what a change is filed under does not depend on any distance (hence on no edge and on no interleaving of
the insert workers): the lists the sequential model ends the classification with are those of the pure
bookkeeping `classes`, for the repaired code and for the tree before the repair (`lastWins = false`) -/
theorem C10_classes (lastWins : Bool) (cfg : Cfg) (ds : Dists D) (g : Graph) (batch : List Change) (acc : Acc)
    (h : classifyAll lastWins cfg ds batch { g := g } = .ok acc) :
    acc.updated = (classes lastWins g.hasVec g.maxId batch).upd ∧
    acc.deleted = (classes lastWins g.hasVec g.maxId batch).del ∧
    acc.touched = (classes lastWins g.hasVec g.maxId batch).tch ∧
    acc.g.maxId = (classes lastWins g.hasVec g.maxId batch).maxId ∧
    (∀ i, acc.g.hasVec i = ((classes lastWins g.hasVec g.maxId batch).ins.contains i || g.hasVec i)) := by
  obtain ⟨h1, h2, h3, h4, h5⟩ := classifyAll_classes lastWins cfg ds g batch acc h
  exact ⟨h1, h2, h3, h4, h5⟩

/-- `C10_step` for ANY behaviour of the insert workers: let `g1` be whatever graph they leave behind.  If `g1`
is well-formed for the old live points plus the points handed to the workers (`classes … .ins`) — the harness
evaluates exactly this `WF` on the node store observed at that moment of every real batch — then the rest of
the batch (`tail`, started from `g1` with the bookkeeping of `classes`) ends in a graph that is well-formed for
the live points after the batch.  Hypothesis on the batch: it names neither the entry node nor id 0 (such a
batch is rejected: `C10_reserved_ids_rejected`). -/
theorem C10_step_any_workers (cfg : Cfg) (hR : 1 ≤ cfg.degreeBound) (ds : Dists D) (ord : List Id) (g g1 g' : Graph)
    (L : List Id) (batch : List Change) (hWF : WF cfg.degreeBound g L) (hres : ∀ c ∈ batch, c.id ≠ entry)
    (hmid : WF cfg.degreeBound g1 (L ++ (classes true g.hasVec g.maxId batch).ins))
    (h : tail cfg ds ord { g := g1, updated := (classes true g.hasVec g.maxId batch).upd,
                           deleted := (classes true g.hasVec g.maxId batch).del,
                           touched := (classes true g.hasVec g.maxId batch).tch } = .ok g') :
    WF cfg.degreeBound g' (liveAfter L batch) :=
  tail_any_mid cfg hR ds ord g g1 g' L batch hWF hres hmid h

/-- the sequential model is one such behaviour: the graph ITS workers leave is well-formed for the old live
points plus `ins` (so `C10_step` is the instance `g1 := acc.g` of `C10_step_any_workers`) -/
theorem C10_sequential_workers (cfg : Cfg) (hR : 1 ≤ cfg.degreeBound) (ds : Dists D) (g : Graph) (L : List Id)
    (batch : List Change) (acc : Acc) (hWF : WF cfg.degreeBound g L)
    (h : classifyAll true cfg ds batch { g := g } = .ok acc) :
    WF cfg.degreeBound acc.g (L ++ (classes true g.hasVec g.maxId batch).ins) ∧ (∀ c ∈ batch, c.id ≠ entry ∧ c.id ≠ 0) :=
  ⟨classifyAll_mid cfg hR ds g L batch acc hWF h, classifyAll_no_reserved true cfg ds batch _ acc h⟩

end

/-! ### T2: syntactic facts of the source, regenerated on every check (tools/facts_c10) -/

/-- the model's entry node id is `vamana.STARTID` -/
example : Sema.Gen.FactsC10.startId = entry := by decide

/-- `applyV` follows the phase order of `insertUpdateDelete` … -/
example : Sema.Gen.FactsC10.phases =
    ["classify", "insertWorkers", "waitForInserts", "removeInboundEdges", "deleteVectors", "deleteNodes",
     "reinsertUpdated", "fit", "flush"] := by decide

/-- … and `removeInbound` that of `removeInboundEdges` -/
example : Sema.Gen.FactsC10.removeInboundPhases = ["edgeScan", "pruneDeleteNeighbour", "rescueOntoEntry"] := by decide


/-! T2 for the change stream: the syntactic shape of the code `pstep` / `changeOf` model, regenerated from
the working tree on every check -/

/-- `pstep`: an insert is never withheld from the indices; an update / a delete only when the point does not
exist (`docOf S i = none`) … -/
example : Sema.Gen.FactsC10.insertSkips = [] ∧
    Sema.Gen.FactsC10.updateSkips = ["b4 == pointstore.ErrPointDoesNotExist"] ∧
    Sema.Gen.FactsC10.deleteSkips = ["b4 == pointstore.ErrPointDoesNotExist"] := by decide

/-- … and the change carries the node id with (insert) the new document, (update) the stored and the merged
document, (delete) the stored document: the `prev` / `cur` arguments of `changeOf` in `pstep` -/
example : Sema.Gen.FactsC10.insertChange = ["NodeId", "NewData"] ∧
    Sema.Gen.FactsC10.updateChange = ["NodeId", "PreviousData", "NewData"] ∧
    Sema.Gen.FactsC10.deleteChange = ["NodeId", "PreviousData"] := by decide

/-- `changeOf`: the dispatcher asks `getOperation` for EVERY key of the index schema with both documents, and
leaves an index alone only on `opSkip` … -/
example : Sema.Gen.FactsC10.dispatchRange = "a2 of v1.indexSchema" ∧
    Sema.Gen.FactsC10.dispatchOperationArgs = ["v7", "a2", "a1.PreviousData", "a1.NewData"] ∧
    Sema.Gen.FactsC10.dispatchSkips = ["a6 == opSkip"] := by decide

/-- … which is the case "absent before and after" -/
example : Sema.Gen.FactsC10.operationCases =
    ["v5 == nil && v6 != nil => opInsert", "v5 != nil && v6 != nil => opUpdate", "v5 != nil && v6 == nil => opDelete", "v5 == nil && v6 == nil => opSkip"] := by decide

/-! ### non-vacuity and the defect of the unrepaired bookkeeping -/

/-- distances of the examples: |a - b| on the ids themselves, alpha = 2 -/
def exDists : Dists Nat :=
  { q := fun a b => if a ≤ b then b - a else a - b, p := fun a b => if a ≤ b then b - a else a - b,
    ap := fun a b => 2 * (if a ≤ b then b - a else a - b) }

def exCfg : Cfg := { degreeBound := 2, searchSize := 3 }

/-- the graph after inserting 2,3,4,5,6 one by one -/
def exGraph : Graph :=
  (run exCfg [⟨exDists, [], [⟨2, true⟩]⟩, ⟨exDists, [], [⟨3, true⟩]⟩, ⟨exDists, [], [⟨4, true⟩, ⟨5, true⟩, ⟨6, true⟩]⟩]
    (Graph.init, [])).1

/-- `r` is an accepted batch whose result satisfies `f` -/
def okAnd (r : Except Err Graph) (f : Graph → Bool) : Bool :=
  match r with
  | .ok g => f g
  | .error _ => false

/-- hypotheses of `C10_step` are satisfiable on a non-trivial state, with a batch mixing an insert, a
vector update, a removal, a delete of an absent point and a point named three times; the batch is accepted -/
example : (wfB exCfg.degreeBound exGraph [2, 3, 4, 5, 6] && exGraph.nodes.length == 6 &&
    okAnd (apply exCfg exDists [] exGraph
        [⟨7, true⟩, ⟨3, true⟩, ⟨4, false⟩, ⟨9, false⟩, ⟨5, true⟩, ⟨5, false⟩, ⟨5, true⟩, ⟨2, false⟩])
      (fun g' => g'.keys.length == 5 && wfB exCfg.degreeBound g' [3, 5, 6, 7])) = true := by decide

/-- DESIGN section 8 no. 13 on the model of the UNREPAIRED bookkeeping (`lastWins = false`): from a
well-formed state, an update batch that sets the vector of point 2 and then removes it is accepted, and
afterwards node 2 still exists although no live point carries the field — `WF` fails.
(With the repaired bookkeeping `C10_step` applies; the second conjunct shows the same batch on it.) -/
theorem C10_defect13_witness :
    (wfB exCfg.degreeBound exGraph [2, 3, 4, 5, 6] &&
     okAnd (applyV false exCfg exDists [] exGraph [⟨2, true⟩, ⟨2, false⟩])
       (fun g' => g'.keys.contains 2 && liveAfter [2, 3, 4, 5, 6] [⟨2, true⟩, ⟨2, false⟩] == [3, 4, 5, 6] &&
          !wfB exCfg.degreeBound g' [3, 4, 5, 6]) &&
     okAnd (applyV true exCfg exDists [] exGraph [⟨2, true⟩, ⟨2, false⟩])
       (fun g' => !g'.keys.contains 2 && wfB exCfg.degreeBound g' [3, 4, 5, 6])) = true := by decide

/-- the bookkeeping on the batch of the example above: 7 goes to the workers; 3 is updated; 4 and 2 are
deleted; 5 — named three times — is filed under `updated` once (its last change) and nowhere else; 9 is
skipped.  Without the repair 5 is filed three times. -/
example : classes true exGraph.hasVec exGraph.maxId
      [⟨7, true⟩, ⟨3, true⟩, ⟨4, false⟩, ⟨9, false⟩, ⟨5, true⟩, ⟨5, false⟩, ⟨5, true⟩, ⟨2, false⟩] =
    { ins := [7], upd := [3, 5], del := [4, 2], tch := [2, 5, 5, 5, 4, 3], maxId := 7 } ∧
    (classes false exGraph.hasVec exGraph.maxId
      [⟨7, true⟩, ⟨3, true⟩, ⟨4, false⟩, ⟨9, false⟩, ⟨5, true⟩, ⟨5, false⟩, ⟨5, true⟩, ⟨2, false⟩]).upd = [3, 5, 5] := by
  decide

/-- a mid graph the SEQUENTIAL model never produces (7 hangs off node 6 only; the model links it to 6 and 5 and
back): it is well-formed for the old live points plus `ins`, so `C10_step_any_workers` applies to it — its
hypotheses are satisfiable beyond the sequential schedule — and the rest of the batch is accepted from it -/
def exMid : Graph :=
  { exGraph with nodes := (7, [6]) :: exGraph.nodes, vecs := 7 :: exGraph.vecs, maxId := 7 }

example :
    (let batch : List Change := [⟨7, true⟩, ⟨3, true⟩, ⟨4, false⟩, ⟨9, false⟩, ⟨5, true⟩, ⟨5, false⟩, ⟨5, true⟩, ⟨2, false⟩]
     let k := classes true exGraph.hasVec exGraph.maxId batch
     wfB exCfg.degreeBound exGraph [2, 3, 4, 5, 6] && batch.all (fun c => c.id != entry) &&
     wfB exCfg.degreeBound exMid ([2, 3, 4, 5, 6] ++ k.ins) &&
     (match classifyAll true exCfg exDists batch { g := exGraph } with
      | .ok acc => acc.g.nodes != exMid.nodes
      | .error _ => false) &&
     okAnd (tail exCfg exDists [] { g := exMid, updated := k.upd, deleted := k.del, touched := k.tch })
       (fun g' => wfB exCfg.degreeBound g' (liveAfter [2, 3, 4, 5, 6] batch))) = true := by decide

/-! ### the point store and the index change stream — index schemas over nested property paths

The theorems above take the change stream as given and define the live points through it (`liveAfter`).
The ones below close that gap for the shard (`pstep` / `pbatch`: the transform functions of `InsertPoints`,
`UpdatePoints`, `DeletePoints` followed by `getOperation` / `preProcessVamana` of the dispatcher): `L` is
READ OFF THE POINTS BUCKET (`fieldIds vp S`: the points whose document has a non-nil value at the schema
path `vp`), for every schema path — top-level or nested at any depth — and every batch: documents of any
shape, updates that replace or delete the top-level object above the leaf, that carry a sibling only, an
empty object, a nil leaf, points named several times, unknown points. -/

/-- which changes reach the index at all: a batch element is withheld from the vector index iff its point
neither had nor has the field (or does not exist); otherwise the index is told about exactly this point,
with the vector of the NEW document (none iff the new document lacks the field); no other document moves -/
theorem C10_stream_complete (vp : Path) (S S' : PStore) (o : POp) (c : Option VChange)
    (h : pstep vp S o = .ok (S', c)) :
    (c = none ↔ (fld vp S o.id = false ∧ fld vp S' o.id = false)) ∧
    (∀ c', c = some c' → c'.id = o.id ∧ c'.vec = docVec vp S' o.id ∧ c'.vec.isSome = fld vp S' o.id) ∧
    (∀ j, j ≠ o.id → docOf S' j = docOf S j) := by
  obtain ⟨hoth, hc⟩ := pstep_spec vp S S' o c h
  refine ⟨?_, ?_, hoth⟩
  · rcases hc with ⟨rfl, h1, h2⟩ | ⟨v, rfl, _, h3, _⟩
    · simp [h1, h2]
    · constructor
      · intro e; cases e
      · rintro ⟨h1, h2⟩; rcases h3 with h3 | h3 <;> simp_all
  · intro c' hc'
    rcases hc with ⟨rfl, _, _⟩ | ⟨v, rfl, hv, _, hvec⟩
    · cases hc'
    · cases hc'
      refine ⟨rfl, ?_, hv⟩
      cases v with
      | none =>
        cases hd : docVec vp S' o.id with
        | none => rfl
        | some t => exact absurd ((hvec t).mpr hd) (by simp)
      | some t => exact ((hvec t).mp rfl).symm

/-- the live set the graph theorems speak about IS the set of points carrying the field: running the
specification's `liveAfter` along the stream the shard emits gives exactly (as a duplicate-free list) the
points whose document has the field after the batch -/
theorem C10_stream_live (vp : Path) (ops : List POp) (S S' : PStore) (cs : List VChange)
    (hS : S.keys.Nodup) (h : pbatch vp ops S = .ok (S', cs)) :
    S'.keys.Nodup ∧ (liveAfter (fieldIds vp S) (cs.map VChange.toChange)).Nodup ∧
    ∀ i, i ∈ liveAfter (fieldIds vp S) (cs.map VChange.toChange) ↔ i ∈ fieldIds vp S' := by
  have hk := pbatch_keys vp ops S S' cs hS h
  have hA := pbatch_agree vp ops S S' cs _ (agree_fieldIds vp S hS) h
  exact ⟨hk, hA.1, fun i => by rw [hA.2 i, mem_fieldIds vp S' hk i]⟩

/-- the index holds, for every point, the vector its document carries at the schema path (and none for the
others), provided it did before the batch: `vecsAfter` = `vecStore.Set` / `Delete` along the stream, the
last change of a point winning (the bookkeeping `C10_step` is about).  This is the "point's stored vector"
the distances of C03 refer to. -/
theorem C10_stream_vectors (vp : Path) (ops : List POp) (S S' : PStore) (cs : List VChange) (T : Id → Option Nat)
    (hT : ∀ i, T i = docVec vp S i) (h : pbatch vp ops S = .ok (S', cs)) :
    ∀ i, vecsAfter T cs i = docVec vp S' i :=
  pbatch_vecs vp ops S S' cs T hT h

section
variable {D : Type} [LT D] [DecidableRel (α := D) (· < ·)]

/-- `C10_step` at the level of the shard: a write batch (any mix, any schema path) accepted by the points
bucket and by the index takes a graph that is well-formed FOR THE POINTS BUCKET to one that is well-formed
for the new points bucket: exactly one node and one vector per live point whose document has the field. -/
theorem C10_shard_step (cfg : Cfg) (hR : 1 ≤ cfg.degreeBound) (ds : Dists D) (ord : List Id) (g g' : Graph)
    (vp : Path) (ops : List POp) (S S' : PStore) (cs : List VChange) (hS : S.keys.Nodup)
    (hWF : WF cfg.degreeBound g (fieldIds vp S)) (hb : pbatch vp ops S = .ok (S', cs))
    (h : apply cfg ds ord g (cs.map VChange.toChange) = .ok g') :
    WF cfg.degreeBound g' (fieldIds vp S') :=
  shard_step_aux cfg hR ds ord g g' vp ops S S' cs hS hWF hb h

/-- every history of write requests on the shard (accepted or rejected, any schema path) from a state in
which the graph is well-formed for the points bucket ends in such a state -/
theorem C10_shard_history_from (cfg : Cfg) (hR : 1 ≤ cfg.degreeBound) (vp : Path) (steps : List (SStep D))
    (S : PStore) (g : Graph) (hS : S.keys.Nodup) (hWF : WF cfg.degreeBound g (fieldIds vp S)) :
    (shardRun cfg vp steps (S, g)).1.keys.Nodup ∧
    WF cfg.degreeBound (shardRun cfg vp steps (S, g)).2 (fieldIds vp (shardRun cfg vp steps (S, g)).1) :=
  shard_history_from_aux cfg hR vp steps S g hS hWF

/-- … in particular every history from the empty shard: after every write the graph has exactly one node
and one vector per live point whose DOCUMENT has the field at the schema path, plus the entry node -/
theorem C10_shard_history (cfg : Cfg) (hR : 1 ≤ cfg.degreeBound) (vp : Path) (steps : List (SStep D)) :
    (shardRun cfg vp steps ([], Graph.init)).1.keys.Nodup ∧
    WF cfg.degreeBound (shardRun cfg vp steps ([], Graph.init)).2
      (fieldIds vp (shardRun cfg vp steps ([], Graph.init)).1) :=
  shard_history_aux cfg hR vp steps

end

/-! non-vacuity: the schema path `n.v` (keys as bytes: n = 110, v = 118, s = 115, t = 116, g = 103) -/

def exVp : Path := [110, 118]

/-- points 2..6 of `exGraph`, each `{n: {v: <vector i>, s: …}, t: …}`; point 7 has no `n` at all -/
def exStore : PStore :=
  [2, 3, 4, 5, 6].map (fun i => (i, [([110, 118], Leaf.vec i), ([110, 115], Leaf.other), ([116], Leaf.other)])) ++
    [(7, [([116], Leaf.other)])]

/-- an update batch none of whose top-level keys is a schema key: a new parent object for 2, a sibling only
for 3 (vector gone), `n: "_delete"` for 4, an empty `n` for 5, an unrelated key for 6, a parent with a vector
for 7 (field added), 3 again with a vector, an unknown point -/
def exOps : List POp :=
  [.upd 2 [([110, 118], Leaf.vec 20)], .upd 3 [([110, 115], Leaf.other)], .upd 4 [([110], Leaf.del)],
   .upd 5 [([110], Leaf.obj)], .upd 6 [([116], Leaf.other)], .upd 7 [([110, 118], Leaf.vec 70), ([103], Leaf.other)],
   .upd 3 [([110, 118], Leaf.vec 30)], .upd 9 [([110, 118], Leaf.vec 90)]]

/-- the hypotheses of `C10_shard_step` / `C10_stream_live` hold on it, the stream is what one expects (the
unrelated update of 6 re-submits its vector, the unknown point is skipped), and the graph follows -/
example :
    (nodupB (exStore.map (·.1)) && wfB exCfg.degreeBound exGraph (fieldIds exVp exStore) &&
     (match pbatch exVp exOps exStore with
      | .ok (S', cs) =>
        cs == [⟨2, some 20⟩, ⟨3, none⟩, ⟨4, none⟩, ⟨5, none⟩, ⟨6, some 6⟩, ⟨7, some 70⟩, ⟨3, some 30⟩] &&
        fieldIds exVp S' == [3, 7, 6, 2] &&
        okAnd (apply exCfg exDists [] exGraph (cs.map VChange.toChange)) (fun g' => wfB exCfg.degreeBound g' (fieldIds exVp S'))
      | .error _ => false)) = true := by decide

/-- … and the hypothesis "the stream is the one `pbatch` emits" cannot be dropped: if the change of an update
that names no schema key at top level (`n: {s: …}` on point 3 — the vector is gone from the document) is
withheld from the index, the graph is left with a node for a point without the field. -/
theorem C10_withheld_change_witness :
    (match pbatch exVp [.upd 3 [([110, 115], Leaf.other)]] exStore with
     | .ok (S', cs) =>
       cs == [⟨3, none⟩] && fieldIds exVp S' == [2, 4, 5, 6] &&
       wfB exCfg.degreeBound exGraph (fieldIds exVp exStore) &&
       okAnd (apply exCfg exDists [] exGraph []) (fun g' => g'.keys.contains 3 && !wfB exCfg.degreeBound g' (fieldIds exVp S')) &&
       okAnd (apply exCfg exDists [] exGraph (cs.map VChange.toChange)) (fun g' => wfB exCfg.degreeBound g' (fieldIds exVp S'))
     | .error _ => false) = true := by decide

/-- a history on the shard with the nested schema path: three inserts (one without the field), a request that
is rejected (a scalar where the path expects an object: `dec.Query` fails; nothing changes), an update that
replaces the parent of 3 by a sibling only and gives 4 the field — the final graph has exactly the nodes of
the points whose document has the field -/
example :
    (let nv : Nat → Doc := fun t => [([110, 118], Leaf.vec t), ([116], Leaf.other)]
     let s := shardRun exCfg exVp
       [⟨exDists, [], [.ins 2 (nv 2), .ins 3 (nv 3), .ins 4 [([116], Leaf.other)]]⟩,
        ⟨exDists, [], [.ins 5 [([110], Leaf.other)]]⟩,
        ⟨exDists, [], [.upd 3 [([110, 115], Leaf.other)], .upd 4 [([110, 118], Leaf.vec 40), ([110, 115], Leaf.other)]]⟩]
       ([], Graph.init)
     s.1.map (·.1) == [4, 3, 2] && fieldIds exVp s.1 == [4, 2] && s.2.keys.length == 3 &&
       wfB exCfg.degreeBound s.2 (fieldIds exVp s.1)) = true := by decide

end Sema.C10
