/-
C10 — the persisted Vamana similarity graph stays well-formed after every write.

`WF R g L` (Model.lean, executable: it is the Boolean `wfB` that the driver evaluates on dumps of the real
index after every batch) says, for the node store / vector store / maxNodeId `g` and the node ids `L`
of the live points whose document carries the vector field:
  * node ids = vector ids = L ∪ {entry}, each exactly once (L without duplicates, entry ∉ L);
  * every edge leads to an existing node other than its source;
  * every node except the entry node has at most R (= degreeBound) edges;
  * maxNodeId ≥ every id in L.

The theorems hold for EVERY distance oracle (`Dists D`, any type `D` with a decidable `<`: nothing is
assumed about the order, about alpha, about the metric or the quantiser), every oracle `ord` for the Go map
order of the rescue step, every degree bound ≥ 1, every search size, and every batch — any mix of insert /
vector update / vector removal / delete changes, including batches naming the same point several times
(the last-change-wins bookkeeping of the repaired `insertUpdateDelete`; `lastWins = false` is the tree before
the `fix:` commit, for which `C10_defect13_witness` shows the invariant broken).

Modelling assumptions (see notes/C10.md): the insert workers run one after the other (sequential
schedule); a rejected batch leaves the state unchanged (bbolt rollback + scrapped cache); node ids in the
change stream are those of the point store (C01: ids of live points are unique, `L` has no duplicates).
-/
import SemaModel.C10.Lemmas
import SemaModel.Generated.FactsC10
namespace Sema.C10
open Sema.C03

/-- `WF` spelled out (so that the Boolean definition cannot hide anything) -/
theorem C10_wf_meaning (R : Nat) (g : Graph) (L : List Id) :
    WF R g L ↔
      ((g.keys.Nodup ∧ g.vecs.Nodup ∧ (∀ i, i ∈ g.keys ↔ i ∈ g.vecs) ∧
        (∀ n ∈ g.nodes, (∀ t ∈ n.2, t ≠ n.1 ∧ t ∈ g.keys) ∧ (n.1 ≠ entry → n.2.length ≤ R))) ∧
       L.Nodup ∧ entry ∉ L ∧ (∀ i, i ∈ g.keys ↔ (i = entry ∨ i ∈ L)) ∧ (∀ i ∈ L, i ≤ g.maxId)) :=
  C10_wf_meaning_aux R g L

/-- the fresh index (entry node only, no points) is well-formed -/
theorem C10_init (R : Nat) : WF R Graph.init [] := by
  unfold WF wfB Graph.init Graph.keys
  simp [nodupB, entry]

section
variable {D : Type} [LT D] [DecidableRel (α := D) (· < ·)]

/-- one batch: if the batch is accepted, well-formedness is preserved and the nodes are exactly the live
points carrying the field after the batch (`liveAfter`) plus the entry node.  No hypothesis on the batch. -/
theorem C10_step (cfg : Cfg) (hR : 1 ≤ cfg.degreeBound) (ds : Dists D) (ord : List Id) (g g' : Graph) (L : List Id)
    (batch : List Change) (hWF : WF cfg.degreeBound g L) (h : apply cfg ds ord g batch = .ok g') :
    WF cfg.degreeBound g' (liveAfter L batch) :=
  apply_wf cfg ds hR ord g g' L batch hWF h

/-- a batch naming the entry node or id 0 is rejected -/
theorem C10_reserved_ids_rejected (cfg : Cfg) (ds : Dists D) (ord : List Id) (g : Graph) (c : Change) (rest : List Change)
    (hc : c.id = entry ∨ c.id = 0) : ∃ e, apply cfg ds ord g (c :: rest) = .error e := by
  unfold apply applyV classifyAll classify
  rcases hc with h | h <;> simp [h, entry]

/-- every history of batches (accepted or rejected) from a well-formed state ends in a well-formed state -/
theorem C10_history_from (cfg : Cfg) (hR : 1 ≤ cfg.degreeBound) (steps : List (Step D)) (g : Graph) (L : List Id)
    (hWF : WF cfg.degreeBound g L) :
    WF cfg.degreeBound (run cfg steps (g, L)).1 (run cfg steps (g, L)).2 := by
  induction steps generalizing g L with
  | nil => exact hWF
  | cons st rest ih =>
    unfold run
    split
    · exact ih g L hWF
    · rename_i g' hg'
      exact ih g' _ (C10_step cfg hR st.ds st.ord g g' L st.batch hWF hg')

/-- … in particular every history from the empty index -/
theorem C10_history (cfg : Cfg) (hR : 1 ≤ cfg.degreeBound) (steps : List (Step D)) :
    WF cfg.degreeBound (run cfg steps (Graph.init, [])).1 (run cfg steps (Graph.init, [])).2 :=
  C10_history_from cfg hR steps Graph.init [] (C10_init _)

end

/-! ### T2: syntactic facts of the source, regenerated on every check (tools/facts_c10) -/

/-- the model's entry node id is `vamana.STARTID` -/
example : Sema.Gen.FactsC10.startId = entry := by decide

/-- `applyV` follows the phase order of `insertUpdateDelete` … -/
example : Sema.Gen.FactsC10.phases =
    ["classify", "insertWorkers", "waitForInserts", "removeInboundEdges", "deleteVectors", "deleteNodes",
     "reinsertUpdated", "fit", "flush"] := by decide

/-- … and `removeInbound` that of `removeInboundEdges` -/
example : Sema.Gen.FactsC10.removeInboundPhases = ["edgeScan", "pruneDeleteNeighbour", "rescueOntoEntry"] := by decide

/-! ### non-vacuity and the defect of the unrepaired bookkeeping -/

/-- distances of the examples: |a - b| on the ids themselves, alpha = 2 -/
def exDists : Dists Nat :=
  { q := fun a b => if a ≤ b then b - a else a - b, p := fun a b => if a ≤ b then b - a else a - b,
    ap := fun a b => 2 * (if a ≤ b then b - a else a - b) }

def exCfg : Cfg := { degreeBound := 2, searchSize := 3 }

/-- the graph after inserting 2,3,4,5,6 one by one -/
def exGraph : Graph :=
  (run exCfg [⟨exDists, [], [⟨2, true⟩]⟩, ⟨exDists, [], [⟨3, true⟩]⟩, ⟨exDists, [], [⟨4, true⟩, ⟨5, true⟩, ⟨6, true⟩]⟩]
    (Graph.init, [])).1

/-- `r` is an accepted batch whose result satisfies `f` -/
def okAnd (r : Except Err Graph) (f : Graph → Bool) : Bool :=
  match r with
  | .ok g => f g
  | .error _ => false

/-- hypotheses of `C10_step` are satisfiable on a non-trivial state, with a batch mixing an insert, a
vector update, a removal, a delete of an absent point and a point named three times; the batch is accepted -/
example : (wfB exCfg.degreeBound exGraph [2, 3, 4, 5, 6] && exGraph.nodes.length == 6 &&
    okAnd (apply exCfg exDists [] exGraph
        [⟨7, true⟩, ⟨3, true⟩, ⟨4, false⟩, ⟨9, false⟩, ⟨5, true⟩, ⟨5, false⟩, ⟨5, true⟩, ⟨2, false⟩])
      (fun g' => g'.keys.length == 5 && wfB exCfg.degreeBound g' [3, 5, 6, 7])) = true := by decide

/-- DESIGN section 8 no. 13 on the model of the UNREPAIRED bookkeeping (`lastWins = false`): from a
well-formed state, an update batch that sets the vector of point 2 and then removes it is accepted, and
afterwards node 2 still exists although no live point carries the field — `WF` fails.
(With the repaired bookkeeping `C10_step` applies; the second conjunct shows the same batch on it.) -/
theorem C10_defect13_witness :
    (wfB exCfg.degreeBound exGraph [2, 3, 4, 5, 6] &&
     okAnd (applyV false exCfg exDists [] exGraph [⟨2, true⟩, ⟨2, false⟩])
       (fun g' => g'.keys.contains 2 && liveAfter [2, 3, 4, 5, 6] [⟨2, true⟩, ⟨2, false⟩] == [3, 4, 5, 6] &&
          !wfB exCfg.degreeBound g' [3, 4, 5, 6]) &&
     okAnd (applyV true exCfg exDists [] exGraph [⟨2, true⟩, ⟨2, false⟩])
       (fun g' => !g'.keys.contains 2 && wfB exCfg.degreeBound g' [3, 4, 5, 6])) = true := by decide

end Sema.C10
