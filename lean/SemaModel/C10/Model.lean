/-
C10 — executable model of the Vamana graph build (shard/index/vamana/{vamana,insert,prune,node}.go)
and the well-formedness predicate `WF` that the theorems are about and that the driver evaluates on
dumps of the real index.  Core-only.

State: node store (id ↦ edge list), vector store (set of ids that have a stored vector — the vector
itself is never inspected, every distance comes from the oracle `Dists`) and `maxNodeId`.

`apply` follows `insertUpdateDelete` phase by phase:
  1. classification of every change by `exists × vector?` (with the last-change-wins bookkeeping of the
     repaired code); inserts are handed to the insert workers,
  2. `removeInboundEdges` (EdgeScan, pruneDeleteNeighbour, rescue onto the entry node),
  3. deletion from both stores, 4. re-insertion of updated points, 5. Fit/flush (no effect on this state).
The insert workers are modelled SEQUENTIALLY: an insert runs to completion when its change is
classified (one worker, no interleaving).  That is one of the schedules of the real code; other
interleavings are covered by the harness only (WF is evaluated on real multi-point batches).
-/
import SemaModel.C03.Model
namespace Sema.C10
open Sema.C03

structure Cfg where
  degreeBound : Nat
  searchSize : Nat
  deriving Repr

structure Graph where
  nodes : List (Id × List Id) := []
  vecs : List Id := []
  maxId : Nat := 0
  deriving Repr, DecidableEq

/-- what `NewIndexVamana` leaves behind on an empty bucket: the entry node with its random vector -/
def Graph.init : Graph := { nodes := [(entry, [])], vecs := [entry], maxId := 0 }

def Graph.keys (g : Graph) : List Id := g.nodes.map (·.1)
def Graph.edges (g : Graph) (i : Id) : Option (List Id) := (g.nodes.find? (fun n => n.1 == i)).map (·.2)
def Graph.hasVec (g : Graph) (i : Id) : Bool := g.vecs.contains i
def Graph.view (g : Graph) : View := { edges := g.edges, hasVec := g.hasVec }

/-- `nodeStore.Put` -/
def putNode (nodes : List (Id × List Id)) (i : Id) (es : List Id) : List (Id × List Id) :=
  (i, es) :: nodes.filter (fun n => n.1 != i)

/-- `vecStore.Set` -/
def setVec (vecs : List Id) (i : Id) : List Id := if vecs.contains i then vecs else i :: vecs

/-- the distance oracles of one batch -/
structure Dists (D : Type) where
  /-- `DistanceFromFloat(vector of the change for a)(point b)` -/
  q : Id → Id → D
  /-- `DistanceFromPoint(a)(b)` -/
  p : Id → Id → D
  /-- `Alpha * DistanceFromPoint(a)(b)` (the float32 product; an abstract monotone `scale` of `p`) -/
  ap : Id → Id → D

section
variable {D : Type} [LT D] [DecidableRel (α := D) (· < ·)]

/-- `robustPrune(node, candidateSet)`: returns the new edge list of `self`.
A candidate is `pruneRemoved` iff a neighbour `s` chosen earlier in this call satisfied
`Alpha*dist(s, c) < c.Distance`; the flag is therefore computed from the chosen list `acc`. -/
def robustPrune (R : Nat) (ap : Id → Id → D) (self : Id) : List (Elem D) → List Id → List Id
  | [], acc => acc
  | c :: rest, acc =>
    if c.id == self || acc.any (fun s => decide (ap s c.id < c.dist)) then robustPrune R ap self rest acc
    else
      let acc := acc ++ [c.id]                 -- AddNeighbour
      if R ≤ acc.length then acc               -- edgeCount >= DegreeBound → break
      else robustPrune R ap self rest acc

/-- the candidate set built by `Add(...); Sort()` on a fresh DistSet -/
def candidates (dist : Id → D) (ids : List Id) : List (Elem D) :=
  ((DistSet.new 0).add dist ids).sort.items

/-- the back-edge loop of `insertSinglePoint` -/
def backEdges (cfg : Cfg) (ds : Dists D) (a : Id) : List Id → Graph → Except Err Graph
  | [], g => .ok g
  | b :: rest, g =>
    match g.edges b with
    | none => .error (.noNode b)
    | some eb =>
      let eb' :=
        if eb.length + 1 > cfg.degreeBound then
          robustPrune cfg.degreeBound ds.ap b (candidates (ds.p b) (eb.filter g.hasVec ++ [a])) []
        else eb ++ [a]
      backEdges cfg ds a rest { g with nodes := putNode g.nodes b eb' }

/-- `insertSinglePoint` -/
def insertPoint (cfg : Cfg) (ds : Dists D) (g : Graph) (a : Id) : Except Err Graph :=
  let g1 := { g with vecs := setVec g.vecs a }
  match greedySearch g1.view (ds.q a) 1 cfg.searchSize none (g1.vecs.length + 1) with
  | .error e => .error e
  | .ok (_, visited) =>
    let es := robustPrune cfg.degreeBound ds.ap a visited []
    backEdges cfg ds a es { g1 with nodes := putNode g1.nodes a es }

/-- `pruneDeleteNeighbour(pointA, nodeA, deleteSet)`; `pa` is the id of the point, `na` of the node
(the same id on a well-formed graph; the code pairs two `GetMany` results by index). -/
def pruneDeleteNeighbour (cfg : Cfg) (ds : Dists D) (S : List Id) (g : Graph) (pa na : Id) : Except Err Graph :=
  match g.edges na with
  | none => .error (.noNode na)
  | some ea =>
    let valid0 := ea.filter (fun t => !S.contains t)
    let expand := ea.filter (fun t => S.contains t)
    if expand.isEmpty then .error (.noExpand pa)
    else
      let expanded := expand.filterMap g.edges                               -- nodeStore.GetMany
      let validC := valid0 ++ (expanded.map (fun eb => eb.filter (fun t => !S.contains t))).flatten
      let cand := candidates (ds.p pa) (validC.filter g.hasVec)              -- vecStore.GetMany, Add, Sort
      let ea' :=
        if cand.length > cfg.degreeBound then robustPrune cfg.degreeBound ds.ap na cand []
        else (cand.map (·.id)).filter (fun t => t != na)
      .ok { g with nodes := putNode g.nodes na ea' }

def pruneAll (cfg : Cfg) (ds : Dists D) (S : List Id) : List (Id × Id) → Graph → Except Err Graph
  | [], g => .ok g
  | (pa, na) :: rest, g =>
    match pruneDeleteNeighbour cfg ds S g pa na with
    | .error e => .error e
    | .ok g' => pruneAll cfg ds S rest g'

/-- `EdgeScan`: nodes outside the delete set with an edge into it -/
def toPrune (S : List Id) (g : Graph) : List Id :=
  ((g.nodes.filter (fun n => !S.contains n.1)).filter (fun n => n.2.any S.contains)).map (·.1)

/-- `EdgeScan`: nodes outside the delete set (other than the entry) without an inbound edge from a node
outside the delete set.  The Go code iterates a map: `ord` is the oracle for that order. -/
def toSave (S : List Id) (ord : List Id) (g : Graph) : List Id :=
  let valid := g.nodes.filter (fun n => !S.contains n.1)
  let set := (valid.map (·.1)).filter (fun i => !(valid.any (fun n => n.2.contains i)) && i != entry)
  ord.filter set.contains ++ set.filter (fun i => !ord.contains i)

/-- `AddNeighbourIfNotExists` for every rescued point -/
def saveOnto (es : List Id) (pts : List Id) : List Id :=
  pts.foldl (fun es t => if t == entry then es else if es.contains t then es else es ++ [t]) es

/-- `removeInboundEdges(deleteSet)` -/
def removeInbound (cfg : Cfg) (ds : Dists D) (ord : List Id) (S : List Id) (g : Graph) : Except Err Graph :=
  let tp := toPrune S g
  let ts := toSave S ord g
  match pruneAll cfg ds S ((tp.filter g.hasVec).zip tp) g with
  | .error e => .error e
  | .ok g1 =>
    if ts.isEmpty then .ok g1
    else
      match g1.edges entry with
      | none => .error (.noNode entry)
      | some e0 => .ok { g1 with nodes := putNode g1.nodes entry (saveOnto e0 (ts.filter g1.hasVec)) }

/-- `vecStore.Delete` + `nodeStore.Delete` (+ flush) -/
def deleteNodes (g : Graph) (dl : List Id) : Graph :=
  { g with nodes := g.nodes.filter (fun n => !dl.contains n.1), vecs := g.vecs.filter (fun i => !dl.contains i) }

/-- one element of the change stream (`IndexVectorChange`): `hasVector = (Vector != nil)` -/
structure Change where
  id : Id
  hasVector : Bool
  deriving Repr, DecidableEq

structure Acc where
  g : Graph
  updated : List Id := []        -- `updatedPoints`
  deleted : List Id := []        -- `deletedPointsIds`
  touched : List Id := []        -- `toRemoveInBoundNodeIds`
  deriving Repr

/-- the transform function at the head of `insertUpdateDelete`, plus (sequential workers) the insert.
`lastWins = false` is the bookkeeping of the tree before the `fix:` commit. -/
def classify (lastWins : Bool) (cfg : Cfg) (ds : Dists D) (acc : Acc) (c : Change) : Except Err Acc :=
  if c.id == entry then .error (.badId c.id)
  else if c.id == 0 then .error (.badId c.id)
  else
    -- sequential workers: a point inserted earlier in this batch already has its vector
    -- (`insertedHere || vecStore.Exists` in the code)
    let ex := acc.g.hasVec c.id
    let acc :=
      if lastWins && acc.touched.contains c.id then
        { acc with updated := acc.updated.filter (· != c.id), deleted := acc.deleted.filter (· != c.id) }
      else acc
    match ex, c.hasVector with
    | false, false => .ok acc
    | false, true =>
      let g := { acc.g with maxId := if c.id > acc.g.maxId then c.id else acc.g.maxId }
      match insertPoint cfg ds g c.id with
      | .error e => .error e
      | .ok g' => .ok { acc with g := g' }
    | true, true => .ok { acc with updated := acc.updated ++ [c.id], touched := c.id :: acc.touched }
    | true, false => .ok { acc with deleted := acc.deleted ++ [c.id], touched := c.id :: acc.touched }

def classifyAll (lastWins : Bool) (cfg : Cfg) (ds : Dists D) : List Change → Acc → Except Err Acc
  | [], acc => .ok acc
  | c :: rest, acc =>
    match classify lastWins cfg ds acc c with
    | .error e => .error e
    | .ok acc' => classifyAll lastWins cfg ds rest acc'

def reinsertAll (cfg : Cfg) (ds : Dists D) : List Id → Graph → Except Err Graph
  | [], g => .ok g
  | u :: rest, g =>
    match insertPoint cfg ds g u with
    | .error e => .error e
    | .ok g' => reinsertAll cfg ds rest g'

/-- `insertUpdateDelete` on one batch.  An error rejects the batch (the enclosing bbolt transaction
is rolled back and the cache scrapped: the state stays `g`, see `run`). -/
def applyV (lastWins : Bool) (cfg : Cfg) (ds : Dists D) (ord : List Id) (g : Graph) (batch : List Change) :
    Except Err Graph :=
  match classifyAll lastWins cfg ds batch { g := g } with
  | .error e => .error e
  | .ok acc =>
    match (if acc.touched.isEmpty then .ok acc.g else removeInbound cfg ds ord acc.touched acc.g) with
    | .error e => .error e
    | .ok g1 => reinsertAll cfg ds acc.updated (deleteNodes g1 acc.deleted)

/-- the repaired code -/
def apply (cfg : Cfg) (ds : Dists D) (ord : List Id) (g : Graph) (batch : List Change) : Except Err Graph :=
  applyV true cfg ds ord g batch

/-- everything of `insertUpdateDelete` AFTER the insert workers have been waited for
(`<-MergeErrorsWithContext`): `removeInboundEdges`, the two `Delete`s, the re-insert loop.  This part of
the Go code is single-threaded, so it is a function of the graph the workers left behind (`acc.g`) and of
the bookkeeping of the classification (`updated`, `deleted`, `touched`).  `applyV` is `classifyAll` followed
by `tail` (`applyV_tail`, by `rfl`). -/
def tail (cfg : Cfg) (ds : Dists D) (ord : List Id) (acc : Acc) : Except Err Graph :=
  match (if acc.touched.isEmpty then .ok acc.g else removeInbound cfg ds ord acc.touched acc.g) with
  | .error e => .error e
  | .ok g1 => reinsertAll cfg ds acc.updated (deleteNodes g1 acc.deleted)

end

/-! ### the bookkeeping of the classification, without the graph

What the transform function at the head of `insertUpdateDelete` files a change under depends only on
`insertedHere || vecStore.Exists(id)` and on its own lists — not on any edge, any distance, nor on how far
an insert worker has got.  `classes` is that bookkeeping alone; `C10_classes` proves that the sequential
model's `classifyAll` computes exactly these lists whatever the distances are, and
`C10_step_any_workers` that the rest of the batch (`tail`) re-establishes well-formedness from ANY graph
the workers may have left, as long as that graph is well-formed for the old live points plus `ins`. -/

structure Classes where
  ins : List Id := []        -- `insertedIds` (in the order of the hand-over to the workers)
  upd : List Id := []        -- ids of `updatedPoints`, in order
  del : List Id := []        -- `deletedPointsIds`, in order
  tch : List Id := []        -- `toRemoveInBoundNodeIds` (most recent first; a set in the code)
  maxId : Nat := 0           -- `maxNodeId`
  deriving Repr, DecidableEq

/-- one call of the transform function (`has0 i` = `vecStore.Exists(i)` before the batch) -/
def classStep (lastWins : Bool) (has0 : Id → Bool) (k : Classes) (c : Change) : Classes :=
  let ex := k.ins.contains c.id || has0 c.id
  let k :=
    if lastWins && k.tch.contains c.id then
      { k with upd := k.upd.filter (· != c.id), del := k.del.filter (· != c.id) }
    else k
  match ex, c.hasVector with
  | false, false => k
  | false, true => { k with ins := k.ins ++ [c.id], maxId := if c.id > k.maxId then c.id else k.maxId }
  | true, true => { k with upd := k.upd ++ [c.id], tch := c.id :: k.tch }
  | true, false => { k with del := k.del ++ [c.id], tch := c.id :: k.tch }

def classes (lastWins : Bool) (has0 : Id → Bool) (maxId : Nat) (batch : List Change) : Classes :=
  batch.foldl (classStep lastWins has0) { maxId := maxId }

/-! ### the specification side: which points carry the field, and well-formedness -/

/-- node ids of the live points that carry the vector field, after a batch -/
def liveAfter (L : List Id) : List Change → List Id
  | [] => L
  | c :: rest =>
    if c.hasVector then liveAfter (if L.contains c.id then L else L ++ [c.id]) rest
    else liveAfter (L.filter (· != c.id)) rest

def nodupB : List Id → Bool
  | [] => true
  | x :: xs => !xs.contains x && nodupB xs

/-- THE well-formedness predicate, executable: evaluated by the driver on dumps of the real index
(`L` = node ids of the live points whose document has the vector field, read from the points bucket). -/
def wfB (R : Nat) (g : Graph) (L : List Id) : Bool :=
  -- exactly one node and one stored vector per live point carrying the field, plus the entry node
  nodupB g.keys && nodupB g.vecs && nodupB L && !L.contains entry
  && g.keys.all (entry :: L).contains && (entry :: L).all g.keys.contains
  && g.vecs.all (entry :: L).contains && (entry :: L).all g.vecs.contains
  -- every edge leads to an existing node other than its source; degree bound except for the entry
  && g.nodes.all (fun n => n.2.all (fun t => t != n.1 && g.keys.contains t) && (n.1 == entry || n.2.length ≤ R))
  -- the recorded maximum node id bounds all ids in use
  && L.all (· ≤ g.maxId)

def WF (R : Nat) (g : Graph) (L : List Id) : Prop := wfB R g L = true

instance (R : Nat) (g : Graph) (L : List Id) : Decidable (WF R g L) := by unfold WF; infer_instance

/-- a history: batches with their oracles; a rejected batch leaves the state unchanged -/
structure Step (D : Type) where
  ds : Dists D
  ord : List Id
  batch : List Change

def run {D : Type} [LT D] [DecidableRel (α := D) (· < ·)] (cfg : Cfg) : List (Step D) → Graph × List Id → Graph × List Id
  | [], s => s
  | st :: rest, (g, L) =>
    match apply cfg st.ds st.ord g st.batch with
    | .error _ => run cfg rest (g, L)
    | .ok g' => run cfg rest (g', liveAfter L st.batch)

/-! ### the point store and the index change stream

`shard/shard.go` (`InsertPoints` / `UpdatePoints` / `DeletePoints`) turns every element of a write batch into an
`IndexPointChange{NodeId, PreviousData, NewData}`; `shard/index/dispatch.go` + `utils.go` (`getOperation`,
`preProcessVamana`) turn that into the `IndexVectorChange` the graph consumes — or into nothing.  The index
schema key is a PATH (`"nested.vector"`): `getOperation` runs `dec.Query(path)` on both documents.  An update
merges TOP-LEVEL keys only (`existingData[k] = v`, `"_delete"` removes `k`), so the value at a nested path
changes or disappears whenever an update names the top-level key above it — with a new parent object, a
sibling only, an empty object, a nil leaf or `"_delete"`.

Documents are kept flattened: one entry per leaf, with its path from the root (a non-empty object is the set
of the entries below it; `Leaf.obj` is the EMPTY object).  Keys are numbers (the harness sends the key
bytes). -/

abbrev Key := Nat
abbrev Path := List Key

/-- a leaf of a decoded document, as far as the shard and the dispatcher look at it -/
inductive Leaf where
  | nil                 -- msgpack nil: `getOperation` treats it like an absent field
  | del                 -- the string "_delete"
  | vec (tag : Nat)     -- an array of float32 (the tag names the vector)
  | other               -- any other scalar / array
  | obj                 -- the empty object {}
  deriving Repr, DecidableEq

abbrev Doc := List (Path × Leaf)

inductive SErr where
  | query       -- `dec.Query`: a non-object on the way down ("unsupported code … decoding key")
  | badVector   -- `castDataToArray`: the property is not an array
  | pointExists -- "point already exists"
  deriving Repr, DecidableEq

def strictPrefix (p q : Path) : Bool := p.isPrefixOf q && decide (p.length < q.length)

/-- `dec.Query(path)`; `none`: nothing found, or msgpack nil (`queryResult[0] == nil`) -/
def query (p : Path) (d : Doc) : Except SErr (Option Leaf) :=
  match d.find? (fun e => e.1 == p) with
  | some e => .ok (if e.2 == Leaf.nil then none else some e.2)
  | none =>
    if d.any (fun e => strictPrefix p e.1) then .ok (some Leaf.obj)       -- a non-empty object
    else
      match d.find? (fun e => strictPrefix e.1 p) with
      | some e => if e.2 == Leaf.obj then .ok none else .error .query      -- walking into {} / into a scalar
      | none => .ok none

/-- "the point's document has the field" (what the property calls a point that has the vector field) -/
def hasField (vp : Path) (d : Doc) : Bool :=
  match query vp d with
  | .ok (some _) => true
  | _ => false

/-- the merge loop of `UpdatePoints`: `for k, v := range incomingData { if v == "_delete" { delete(existing, k) }
else { existing[k] = v } }` -/
def mergeDoc (old inc : Doc) : Doc :=
  old.filter (fun e => !inc.any (fun f => f.1.head? == e.1.head?)) ++
    inc.filter (fun f => !(f.1.length == 1 && f.2 == Leaf.del))

/-- the points bucket: node id ↦ document -/
abbrev PStore := List (Id × Doc)

def docOf (S : PStore) (i : Id) : Option Doc := (S.find? (fun e => e.1 == i)).map (·.2)
def putDoc (S : PStore) (i : Id) (d : Doc) : PStore := (i, d) :: S.filter (fun e => e.1 != i)
def dropDoc (S : PStore) (i : Id) : PStore := S.filter (fun e => e.1 != i)

/-- `IndexVectorChange` with the vector named (`Change` forgets which vector it is) -/
structure VChange where
  id : Id
  vec : Option Nat
  deriving Repr, DecidableEq

def VChange.toChange (c : VChange) : Change := { id := c.id, hasVector := c.vec.isSome }

/-- `getPropertyFromBytes` (`len(data) == 0` ⇒ nil) -/
def qv (vp : Path) : Option Doc → Except SErr (Option Leaf)
  | none => .ok none
  | some d => query vp d

/-- `getOperation` + `preProcessVamana`: what the vector index on path `vp` is told about one point change
(`none`: `opSkip`, the index is not told anything) -/
def changeOf (vp : Path) (i : Id) (prev cur : Option Doc) : Except SErr (Option VChange) :=
  match qv vp prev with
  | .error e => .error e
  | .ok a =>
    match qv vp cur with
    | .error e => .error e
    | .ok none => .ok (if a.isSome then some { id := i, vec := none } else none)
    | .ok (some (Leaf.vec t)) => .ok (some { id := i, vec := some t })
    | .ok (some _) => .error .badVector

/-- one element of a write batch, by node id (the uuid ↦ node id map and the id allocator are C01's) -/
inductive POp where
  | ins (i : Id) (doc : Doc)
  | upd (i : Id) (inc : Doc)
  | del (i : Id)
  deriving Repr

def POp.id : POp → Id
  | .ins i _ => i
  | .upd i _ => i
  | .del i => i

/-- the transform function of `InsertPoints` / `UpdatePoints` / `DeletePoints` followed by the dispatcher -/
def pstep (vp : Path) (S : PStore) : POp → Except SErr (PStore × Option VChange)
  | .ins i doc =>
    match docOf S i with
    | some _ => .error .pointExists
    | none =>
      match changeOf vp i none (some doc) with
      | .error e => .error e
      | .ok c => .ok (putDoc S i doc, c)
  | .upd i inc =>
    match docOf S i with
    | none => .ok (S, none)                              -- "updating non-existing points is a no-op"
    | some old =>
      match changeOf vp i (some old) (some (mergeDoc old inc)) with
      | .error e => .error e
      | .ok c => .ok (putDoc S i (mergeDoc old inc), c)
  | .del i =>
    match docOf S i with
    | none => .ok (S, none)
    | some old =>
      match changeOf vp i (some old) none with
      | .error e => .error e
      | .ok c => .ok (dropDoc S i, c)

/-- a whole batch, in order (a point named twice sees the document left by its first element) -/
def pbatch (vp : Path) : List POp → PStore → Except SErr (PStore × List VChange)
  | [], S => .ok (S, [])
  | o :: rest, S =>
    match pstep vp S o with
    | .error e => .error e
    | .ok (S1, c) =>
      match pbatch vp rest S1 with
      | .error e => .error e
      | .ok (S2, cs) => .ok (S2, c.toList ++ cs)

/-- does point `i` exist and carry the field -/
def fld (vp : Path) (S : PStore) (i : Id) : Bool :=
  match docOf S i with
  | some d => hasField vp d
  | none => false

/-- `L` of `WF`, read off the points bucket: node ids of the live points whose document has the field -/
def fieldIds (vp : Path) (S : PStore) : List Id := (S.filter (fun e => hasField vp e.2)).map (·.1)

/-- the vector the document of `i` carries at `vp` -/
def docVec (vp : Path) (S : PStore) (i : Id) : Option Nat :=
  match docOf S i with
  | some d => match query vp d with
    | .ok (some (Leaf.vec t)) => some t
    | _ => none
  | none => none

/-- the vectors the index holds after consuming a change stream (`vecStore.Set` on insert / re-insert,
`vecStore.Delete`; the last change of a point wins) -/
def vecsAfter (T : Id → Option Nat) : List VChange → Id → Option Nat
  | [], i => T i
  | c :: rest, i => vecsAfter (fun j => if j = c.id then c.vec else T j) rest i

/-- one write request to the shard: the batch, with the oracles of the index run it triggers -/
structure SStep (D : Type) where
  ds : Dists D
  ord : List Id
  ops : List POp

/-- a history of write requests on the shard: the points bucket and the graph move together; a request
rejected by the points bucket / the dispatcher or by the index leaves BOTH unchanged (one bbolt transaction,
rolled back; the shared cache is scrapped) -/
def shardRun {D : Type} [LT D] [DecidableRel (α := D) (· < ·)] (cfg : Cfg) (vp : Path) :
    List (SStep D) → PStore × Graph → PStore × Graph
  | [], s => s
  | st :: rest, (S, g) =>
    match pbatch vp st.ops S with
    | .error _ => shardRun cfg vp rest (S, g)
    | .ok (S', cs) =>
      match apply cfg st.ds st.ord g (cs.map VChange.toChange) with
      | .error _ => shardRun cfg vp rest (S, g)
      | .ok g' => shardRun cfg vp rest (S', g')

end Sema.C10
