/-
C10 — the last clause of the property, by import from C01 and C03:
"Internal node ids are unique among live points and never simultaneously live and on the free list, so a
search can never fail on, or surface, a point that was removed."

`C10_ids`       : C01's invariant (`C01_history`: every history of insert / update / delete batches on the
                  shard's point store and id allocator, from the empty shard) read as a statement about node
                  ids — the ids C10's change stream and point store (`PStore`, `pstep`, `fieldIds`) are keyed by.
`C10_ids_store` : hence the hypothesis `S.keys.Nodup` of `C10_shard_step` / `C10_shard_history_from` holds for
                  every C10 point store whose node ids are those of such a state.
`C10_search_ok` : `C03_safe_shard` read the other way round: after every history of write requests a search is
                  answered (it never fails) and no returned id belongs to a point that was removed or lost the field.
-/
import SemaModel.C10.Props
import SemaModel.C03.Props
import SemaModel.C01.Props
namespace Sema.C10
open Sema.C03

/-- node ids of the live points of a C01 shard state (`n<id>i` keys) -/
def liveNodeIds (s : C01.Shard) : List Id := C01.AL.keys s.pts.nI

/-- after every history of write batches on the shard (C01's model of `InsertPoints` / `UpdatePoints` /
`DeletePoints`, `pointstore`, `IdCounter`; every oracle for the Go map orders; accepted or rejected batches):
  1. internal node ids are unique among live points (one `n<id>i` entry per id, and two live uuids never share
     a node id);
  2. the free list has no duplicates and no id is simultaneously live and on the free list;
  3. no live id and no free id is the entry node's id or 0;
  4. the id the allocator hands out next (`NewIdCounter` + `NextId`, any order of the free list) is not live,
     not the entry node's, not 0 — an insert never lands on a node the graph already has. -/
theorem C10_ids (cfg : C01.Cfg) (h : List (C01.Op × C01.Oracle)) :
    let s := (C01.Shard.run cfg C01.Shard.empty h).1
    ((liveNodeIds s).Nodup ∧
      ∀ u u' id, C01.AL.get s.pts.pI u = some id → C01.AL.get s.pts.pI u' = some id → u = u') ∧
    (s.freeV.Nodup ∧ ∀ id, id ∈ s.freeV → id ∉ liveNodeIds s) ∧
    (∀ id, (id ∈ liveNodeIds s ∨ id ∈ s.freeV) → id ≠ entry ∧ id ≠ 0) ∧
    (∀ o : C01.Oracle, (C01.newIdCounter s o).nextId.1 ∉ liveNodeIds s ∧
      (C01.newIdCounter s o).nextId.1 ≠ entry ∧ (C01.newIdCounter s o).nextId.1 ≠ 0) := by
  intro s
  have hI : C01.Inv s := (C01.C01_history cfg h).1
  have hge : ∀ id, 2 ≤ id → id ≠ entry ∧ id ≠ 0 := by
    intro id h2
    constructor
    · intro e; rw [e] at h2; exact absurd h2 (by decide)
    · intro e; rw [e] at h2; exact absurd h2 (by decide)
  refine ⟨⟨hI.pts.nI_nodup, fun u u' id a b => hI.pts.inj a b⟩, ⟨hI.ctr.free_nodup, ?_⟩, ?_, ?_⟩
  · intro id hid
    exact (C01.AL.get_eq_none_iff _ _).mp (hI.ctr.free_dead id hid)
  · rintro id (hid | hid)
    · have : (C01.AL.get s.pts.nI id).isSome = true := (C01.AL.get_isSome_iff _ _).mpr hid
      cases hg : C01.AL.get s.pts.nI id with
      | none => rw [hg] at this; cases this
      | some u => exact hge id (hI.ctr.live_range id u hg).1
    · exact hge id (hI.ctr.free_range id hid).1
  · intro o
    obtain ⟨hnone, hc⟩ := C01.nextId_spec (C01.newIdCounter s o) (C01.newIdCounter_CInv hI o) ""
    refine ⟨(C01.AL.get_eq_none_iff _ _).mp hnone, ?_⟩
    have := hc.live_range (C01.newIdCounter s o).nextId.1 "" (by rw [C01.AL.get_put]; simp)
    exact hge _ this.1

/-- the node ids C10's point store is keyed by are those of C01's state: every `PStore` with that key list
satisfies the hypothesis `S.keys.Nodup` of `C10_shard_step` / `C10_shard_history_from`, none of its points sits
on the entry node or on id 0, and none is on the free list -/
theorem C10_ids_store (cfg : C01.Cfg) (h : List (C01.Op × C01.Oracle)) (S : PStore)
    (hS : S.keys = liveNodeIds (C01.Shard.run cfg C01.Shard.empty h).1) :
    S.keys.Nodup ∧ (∀ i ∈ S.keys, i ≠ entry ∧ i ≠ 0 ∧ i ∉ (C01.Shard.run cfg C01.Shard.empty h).1.freeV) := by
  obtain ⟨⟨h1, _⟩, ⟨_, h3⟩, h4, _⟩ := C10_ids cfg h
  rw [hS]
  refine ⟨h1, fun i hi => ⟨(h4 i (Or.inl hi)).1, (h4 i (Or.inl hi)).2, fun hf => h3 i hf hi⟩⟩

section
variable {D H : Type} [LinearOrder D]

/-- "a search can never fail on, or surface, a point that was removed": after every history of write requests
on the shard (any schema path, accepted or rejected requests, from the empty shard) a search with
`limit ≤ searchSize` IS ANSWERED, and no returned id belongs to a point that does not exist any more or whose
document has lost the vector field (`fld … = false`).  Corollary of `C03_safe_shard`. -/
theorem C10_search_ok {B : Type} [LT B] [DecidableRel (α := B) (· < ·)]
    (cfg : Cfg) (hR : 1 ≤ cfg.degreeBound) (vp : Path) (steps : List (SStep B))
    (dq : Id → D) (hyb : D → H) (limit searchSize : Nat) (filter : Option (List Id)) (hk : limit ≤ searchSize) :
    ∃ res, search (shardRun cfg vp steps ([], Graph.init)).2.view dq hyb limit searchSize filter
        ((shardRun cfg vp steps ([], Graph.init)).2.vecs.length + 1) = .ok res ∧
      ∀ i, fld vp (shardRun cfg vp steps ([], Graph.init)).1 i = false → ∀ h ∈ res, h.id ≠ i := by
  obtain ⟨res, hres, _, hlive⟩ := C03_safe_shard cfg hR vp steps dq hyb limit searchSize filter hk
  refine ⟨res, hres, ?_⟩
  intro i hi h hh e
  obtain ⟨d, hd, hf⟩ := hlive h hh
  rw [e] at hd
  unfold fld at hi
  rw [hd] at hi
  simp only [hf] at hi
  cases hi

end

/-! non-vacuity: a C01 history (two inserts, a delete, an insert that reuses the freed id) — the statement of
`C10_ids` instantiated on a state with a live point on a reused id and an empty free list again -/
example :
    (let s := (C01.Shard.run { maxSize := 100, size := fun _ => 1 } C01.Shard.empty
        [(.insert [("a", some []), ("b", some [])], {}), (.delete ["a"], {}), (.insert [("c", some [])], {}),
         (.delete ["b"], {})]).1
     liveNodeIds s == [2] && s.freeV == [3] && (C01.newIdCounter s {}).nextId.1 == 3) = true := by decide

end Sema.C10
