/-
C16 — tenant isolation.  Executable model of the only namespace that separates tenants:

* node database (bucket `userCollections`): key = `user ++ "/" ++ collection`
  (cluster/rpchandlers.go: RPCCreateCollection, RPCGetCollection, RPCDeleteCollection, RPCCreateShard),
  scans over the prefix `user ++ "/"` (RPCListCollections, quota count in RPCCreateCollection);
* shard directories `filepath.Join(root, "userCollections", user, collection, shard)`
  (cluster/shardmgr.go loadShard / DeleteCollectionShards) — `Join` = `Clean`: empty and "."
  segments vanish, ".." pops the previous segment, separators inside an element split it;
* the header middleware (which user ids are let through) in two variants: `pinned` (only the empty
  id is refused — the tree as pinned) and `fixed` (".", ".." and ids containing a separator are
  refused as well — the repaired tree);
* on top, the collection / point operations of one node (httpapi/v2 handlers → cluster/actions.go).

Abstractions (stated in notes/C16.md): the bucket is an association list whose `PrefixScan` visits
exactly the keys having the prefix (bbolt cursor semantics are Base/KV's business); a shard file is
the list of its points (id token, integer payload) — the shard internals are C01–C06; a collection
has at most one shard (the harness keeps the per-shard limits large); `uuid.New()` for a new shard
is an oracle argument of the insert operation.
Core-only (linked into the driver).
-/
import SemaModel.Base.Bytes
namespace Sema.C16
open Sema

abbrev Path := List Bytes

def slash : Byte := 0x2F#8
def dot : Byte := 0x2E#8
def bslash : Byte := 0x5C#8

/-! ### node-db keys and scan prefixes -/

/-- `[]byte(userId + DBDELIMITER + collectionId)` -/
def key (u c : Bytes) : Bytes := u ++ slash :: c
/-- `[]byte(userId + DBDELIMITER)` -/
def scanPrefix (u : Bytes) : Bytes := u ++ [slash]

/-! ### `filepath.Join` on a rooted path (the root directory is absolute and clean) -/

/-- the elements between separators (`strings.Split(s, "/")`) -/
def splitSlash : Bytes → List Bytes
  | [] => [[]]
  | b :: bs =>
    if b = slash then [] :: splitSlash bs
    else match splitSlash bs with
      | s :: r => (b :: s) :: r
      | [] => [[b]]

/-- one step of `Clean`: the directory stack after reading one more segment -/
def pushSeg (stack : Path) (s : Bytes) : Path :=
  if s = [] ∨ s = [dot] then stack
  else if s = [dot, dot] then stack.dropLast
  else stack ++ [s]

def cleanSegs (root : Path) (segs : List Bytes) : Path := segs.foldl pushSeg root

/-- `filepath.Join(root, elems...)` as the list of directory names below "/" -/
def joinPath (root : Path) (elems : List Bytes) : Path := cleanSegs root (elems.flatMap splitSlash)

/-- a plain directory name: non-empty, no separator, not "." or ".." -/
def validSeg (s : Bytes) : Prop := s ≠ [] ∧ s ≠ [dot] ∧ s ≠ [dot, dot] ∧ slash ∉ s
instance (s : Bytes) : Decidable (validSeg s) := by unfold validSeg; infer_instance

/-! ### validation at the HTTP layer -/

inductive Variant | pinned | fixed
  deriving DecidableEq, Repr

/-- httpapi/middleware/appheaders.go: which `X-User-Id` values reach the handlers -/
def acceptUser : Variant → Bytes → Bool
  | .pinned, u => u ≠ []
  | .fixed, u => u ≠ [] && u ≠ [dot] && u ≠ [dot, dot] && !u.contains slash && !u.contains bslash

def isLower (b : Byte) : Bool := 97 ≤ b.toNat && b.toNat ≤ 122
def isUpper (b : Byte) : Bool := 65 ≤ b.toNat && b.toNat ≤ 90
def isDigit (b : Byte) : Bool := 48 ≤ b.toNat && b.toNat ≤ 57

/-- `CreateCollectionRequest.Validate` of httpapi/v2 (3..24 of [a-z0-9]) and httpapi/v1 (3..16 of [a-zA-Z0-9]) -/
def validCollId (v1 : Bool) (c : Bytes) : Bool :=
  if v1 then 3 ≤ c.length && c.length ≤ 16 && c.all (fun b => isLower b || isUpper b || isDigit b)
  else 3 ≤ c.length && c.length ≤ 24 && c.all (fun b => isLower b || isDigit b)

/-- `CollectionURIMiddleware` of httpapi/v2: only the length of the path element is checked -/
def validUriId (c : Bytes) : Bool := 3 ≤ c.length && c.length ≤ 24

/-! ### state of one node -/

structure Coll where
  user : Bytes
  id : Bytes
  shards : List Bytes
  deriving DecidableEq, Repr

/-- a point: id token and integer payload -/
abbrev Pt := Nat × Int

structure Node where
  /-- bucket `userCollections` of nodedb.bbolt -/
  db : List (Bytes × Coll) := []
  /-- shard directories that exist on disk (cleaned path) with the points of their sharddb.bbolt -/
  fs : List (Path × List Pt) := []
  deriving Repr

structure Cfg where
  root : Path
  dir : Bytes
  variant : Variant
  /-- user plan: MaxCollections, MaxCollectionPointCount -/
  maxCols : Nat
  maxPts : Nat

/-! #### bucket primitives -/

def dbGet (db : List (Bytes × Coll)) (k : Bytes) : Option Coll := (db.find? (fun e => e.1 = k)).map (·.2)
def dbPut (db : List (Bytes × Coll)) (k : Bytes) (v : Coll) : List (Bytes × Coll) := db.filter (fun e => e.1 ≠ k) ++ [(k, v)]
def dbErase (db : List (Bytes × Coll)) (k : Bytes) : List (Bytes × Coll) := db.filter (fun e => e.1 ≠ k)
/-- `PrefixScan(prefix)`: exactly the entries whose key has the prefix -/
def dbScan (db : List (Bytes × Coll)) (p : Bytes) : List (Bytes × Coll) := db.filter (fun e => decide (p <+: e.1))

/-! #### directory primitives -/

def fsGet (fs : List (Path × List Pt)) (p : Path) : List Pt := ((fs.find? (fun e => e.1 = p)).map (·.2)).getD []
/-- `os.MkdirAll(shardDir)` + `shard.NewShard` in `loadShard`: creates an empty shard if there is none -/
def fsTouch (fs : List (Path × List Pt)) (p : Path) : List (Path × List Pt) :=
  if fs.any (fun e => e.1 = p) then fs else fs ++ [(p, [])]
def fsSet (fs : List (Path × List Pt)) (p : Path) (v : List Pt) : List (Path × List Pt) :=
  fs.map (fun e => if e.1 = p then (p, v) else e)
/-- `d` is a proper ancestor of `p` -/
def below (d p : Path) : Bool := decide (d <+: p) && decide (d.length < p.length)
/-- the directory entries of `d` (`os.ReadDir`, directories only) -/
def fsEntries (fs : List (Path × List Pt)) (d : Path) : List Bytes :=
  (fs.filterMap (fun e => if below d e.1 then e.1[d.length]? else none)).eraseDups
/-- `os.RemoveAll(filepath.Join(d, entry))` for every entry of `d` -/
def fsRemoveBelow (fs : List (Path × List Pt)) (d : Path) : List (Path × List Pt) := fs.filter (fun e => !below d e.1)

/-! #### operations -/

inductive Op
  | create (v1 : Bool) (c : Bytes)
  | list
  | get (c : Bytes)
  | drop (c : Bytes)
  | insert (c : Bytes) (sid : Bytes) (pts : List Pt)
  | update (c : Bytes) (pts : List Pt)
  | delete (c : Bytes) (ids : List Nat)
  | search (c : Bytes)
  deriving Repr

inductive Resp
  | rejected            -- 400 from the header middleware
  | bad                 -- 400 from request validation
  | ok
  | exists_             -- 409
  | quota               -- 403
  | notFound            -- 404
  | accepted            -- 202: collection deleted, shard count differs
  | cols (ids : List Bytes)
  | info (counts : List Nat)
  | insertFailed        -- 200 with a non-empty failedRanges
  | failed (ids : List Nat)
  | points (pts : List Pt)
  deriving DecidableEq, Repr

def shardDir (cfg : Cfg) (col : Coll) (sh : Bytes) : Path := joinPath cfg.root [cfg.dir, col.user, col.id, sh]
def collDir (cfg : Cfg) (col : Coll) : Path := joinPath cfg.root [cfg.dir, col.user, col.id]

/-- `loadShard` for every shard of the collection (GetShardsInfo and every fan-out touch them all) -/
def touchAll (cfg : Cfg) (col : Coll) (fs : List (Path × List Pt)) : List (Path × List Pt) :=
  col.shards.foldl (fun fs sh => fsTouch fs (shardDir cfg col sh)) fs

def hasDup : List Nat → Bool
  | [] => false
  | x :: xs => xs.contains x || hasDup xs

/-- `CollectionURIMiddleware`: length check of the path element, then `GetCollection` -/
def withColl (s : Node) (u c : Bytes) (k : Coll → Node × Resp) : Node × Resp :=
  if !validUriId c then (s, .bad) else
  match dbGet s.db (key u c) with
  | none => (s, .notFound)
  | some col => k col

/-- POST /collections → RPCCreateCollection -/
def createOp (cfg : Cfg) (s : Node) (u : Bytes) (v1 : Bool) (c : Bytes) : Node × Resp :=
  if !validCollId v1 c then (s, .bad) else
  match dbGet s.db (key u c) with
  | some _ => (s, .exists_)
  | none =>
    if (dbScan s.db (scanPrefix u)).length ≥ cfg.maxCols then (s, .quota)
    else ({ s with db := dbPut s.db (key u c) ⟨u, c, []⟩ }, .ok)

/-- GET /collections/{id} → GetShardsInfo -/
def getBody (cfg : Cfg) (s : Node) (col : Coll) : Node × Resp :=
  let fs := touchAll cfg col s.fs
  ({ s with fs := fs }, .info (col.shards.map fun sh => (fsGet fs (shardDir cfg col sh)).length))

/-- DELETE /collections/{id} → RPCDeleteCollection, then DeleteCollectionShards on the servers that
own a shard of the collection -/
def dropBody (cfg : Cfg) (s : Node) (u c : Bytes) (col : Coll) : Node × Resp :=
  let db := dbErase s.db (key u c)
  if col.shards = [] then ({ s with db := db }, .ok) else
  let d := collDir cfg col
  let deleted := fsEntries s.fs d
  ({ db := db, fs := fsRemoveBelow s.fs d }, if deleted.length = col.shards.length then .ok else .accepted)

/-- POST /collections/{id}/points → InsertPoints -/
def insertBody (cfg : Cfg) (s : Node) (u c sid : Bytes) (pts : List Pt) (col : Coll) : Node × Resp :=
  if pts = [] then (s, .bad) else
  -- GetShardsInfo, collection quota
  let fs := touchAll cfg col s.fs
  let total := (col.shards.map fun sh => (fsGet fs (shardDir cfg col sh)).length).sum
  if total + pts.length > cfg.maxPts then ({ s with fs := fs }, .quota) else
  -- distributePoints: a first shard is created on demand (RPCCreateShard), everything fits the first shard
  let db := if col.shards = [] then dbPut s.db (key u c) { col with shards := [sid] } else s.db
  let sh := col.shards.headD sid
  let p := shardDir cfg col sh
  let fs := fsTouch fs p
  let old := fsGet fs p
  -- Shard.InsertPoints refuses the whole batch on a duplicate or an existing id
  if hasDup (pts.map (·.1)) || pts.any (fun q => old.any (fun o => o.1 = q.1)) then ({ db := db, fs := fs }, .insertFailed)
  else ({ db := db, fs := fsSet fs p (old ++ pts) }, .ok)

/-- PUT /collections/{id}/points → UpdatePoints (fan-out to the shard, curateFailedPoints) -/
def updateBody (cfg : Cfg) (s : Node) (pts : List Pt) (col : Coll) : Node × Resp :=
  if pts = [] then (s, .bad) else
  let fs := touchAll cfg col s.fs
  match col.shards with
  | [] => ({ s with fs := fs }, .failed (pts.map (·.1)))
  | sh :: _ =>
    let p := shardDir cfg col sh
    let old := fsGet fs p
    let new := pts.foldl (fun cur q => cur.map (fun o => if o.1 = q.1 then (o.1, q.2) else o)) old
    ({ s with fs := fsSet fs p new }, .failed ((pts.map (·.1)).filter (fun i => !old.any (fun o => o.1 = i))))

/-- DELETE /collections/{id}/points → DeletePoints -/
def deleteBody (cfg : Cfg) (s : Node) (ids : List Nat) (col : Coll) : Node × Resp :=
  if ids = [] then (s, .bad) else
  let fs := touchAll cfg col s.fs
  match col.shards with
  | [] => ({ s with fs := fs }, .failed ids)
  | sh :: _ =>
    let p := shardDir cfg col sh
    let old := fsGet fs p
    ({ s with fs := fsSet fs p (old.filter (fun o => !ids.contains o.1)) }, .failed (ids.filter (fun i => !old.any (fun o => o.1 = i))))

/-- POST /collections/{id}/points/search → SearchPoints (a query matching every point) -/
def searchBody (cfg : Cfg) (s : Node) (col : Coll) : Node × Resp :=
  let fs := touchAll cfg col s.fs
  ({ s with fs := fs }, .points (col.shards.flatMap fun sh => fsGet fs (shardDir cfg col sh)))

/-- one request of user `u` (X-User-Id) against the node -/
def step (cfg : Cfg) (s : Node) (u : Bytes) (op : Op) : Node × Resp :=
  if !acceptUser cfg.variant u then (s, .rejected) else
  match op with
  | .create v1 c => createOp cfg s u v1 c
  | .list => (s, .cols ((dbScan s.db (scanPrefix u)).map (·.2.id)))
  | .get c => withColl s u c (getBody cfg s)
  | .drop c => withColl s u c (dropBody cfg s u c)
  | .insert c sid pts => withColl s u c (insertBody cfg s u c sid pts)
  | .update c pts => withColl s u c (updateBody cfg s pts)
  | .delete c ids => withColl s u c (deleteBody cfg s ids)
  | .search c => withColl s u c (searchBody cfg s)

/-- a history: requests tagged with the issuing user; the list of responses in order -/
def run (cfg : Cfg) : Node → List (Bytes × Op) → Node × List Resp
  | s, [] => (s, [])
  | s, (u, op) :: rest =>
    let r := step cfg s u op
    let q := run cfg r.1 rest
    (q.1, r.2 :: q.2)

/-! ### what a user can observe / is charged for -/

/-- the directory of user `b` -/
def userDir (cfg : Cfg) (b : Bytes) : Path := cfg.root ++ [cfg.dir, b]

/-- the part of the node that belongs to `b`: the records under the scan prefix of `b` and the
shard directories below `b`'s directory.  Every response to `b` is a function of this part
(theorem `C16_self`), and so is `b`'s quota. -/
def proj (cfg : Cfg) (b : Bytes) (s : Node) : Node :=
  { db := s.db.filter (fun e => decide (scanPrefix b <+: e.1)),
    fs := s.fs.filter (fun e => decide (userDir cfg b <+: e.1)) }

/-! ### concurrent clients: a collection-scoped request is two atomic steps

`CollectionURIMiddleware` first fetches the collection record (`ClusterNode.GetCollection`: one read
of the node database under the key `user/collection`), then the handler acts with that record —
other requests may run in between.  `step` above is the special case in which nothing does. -/

/-- the collection a request is addressed to (`/collections/{id}/…`), if any -/
def Op.coll? : Op → Option Bytes
  | .get c => some c
  | .drop c => some c
  | .insert c _ _ => some c
  | .update c _ => some c
  | .delete c _ => some c
  | .search c => some c
  | _ => none

/-- the handler of a collection-scoped request, run on the node as it is NOW with the record the
middleware fetched EARLIER -/
def body (cfg : Cfg) (s : Node) (u : Bytes) : Op → Coll → Node × Resp
  | .get _, col => getBody cfg s col
  | .drop c, col => dropBody cfg s u c col
  | .insert c sid pts, col => insertBody cfg s u c sid pts col
  | .update _ pts, col => updateBody cfg s pts col
  | .delete _ ids, col => deleteBody cfg s ids col
  | .search _, col => searchBody cfg s col
  | _, _ => (s, .bad)

/-- one client connection: its tenant, the requests it has still to send, the request in flight
(between the look-up and the handler) with the record the look-up returned, and the responses it
has received (latest first) -/
structure Client where
  user : Bytes
  todo : List Op
  inflight : Option (Op × Coll) := none
  got : List Resp := []
  deriving Repr

/-- one atomic step of a client: finish the request in flight, or start the next one -/
def cstep (cfg : Cfg) (s : Node) (t : Client) : Node × Client :=
  match t.inflight with
  | some (op, col) =>
    let r := body cfg s t.user op col
    (r.1, { t with inflight := none, got := r.2 :: t.got })
  | none =>
    match t.todo with
    | [] => (s, t)
    | op :: rest =>
      if !acceptUser cfg.variant t.user then (s, { t with todo := rest, got := .rejected :: t.got }) else
      match op.coll? with
      | none =>
        let r := step cfg s t.user op
        (r.1, { t with todo := rest, got := r.2 :: t.got })
      | some c =>
        if !validUriId c then (s, { t with todo := rest, got := .bad :: t.got }) else
        match dbGet s.db (key t.user c) with
        | none => (s, { t with todo := rest, got := .notFound :: t.got })
        | some col => (s, { t with todo := rest, inflight := some (op, col) })

/-- a schedule names, step by step, the client that moves (indices without a client are skipped) -/
def crun (cfg : Cfg) : Node → List Client → List Nat → Node × List Client
  | s, ts, [] => (s, ts)
  | s, ts, i :: sched =>
    match ts[i]? with
    | none => crun cfg s ts sched
    | some t =>
      let r := cstep cfg s t
      crun cfg r.1 (ts.set i r.2) sched

/-- the same schedule when only the clients of tenant `b` ever get to move -/
def crunOnly (cfg : Cfg) (b : Bytes) : Node → List Client → List Nat → Node × List Client
  | s, ts, [] => (s, ts)
  | s, ts, i :: sched =>
    match ts[i]? with
    | none => crunOnly cfg b s ts sched
    | some t =>
      if t.user = b then
        let r := cstep cfg s t
        crunOnly cfg b r.1 (ts.set i r.2) sched
      else crunOnly cfg b s ts sched

end Sema.C16
