/- helper lemmas for C16 (tenant isolation).  Core-only. -/
import SemaModel.C16.Model
set_option linter.unusedSimpArgs false
set_option linter.unusedVariables false
set_option linter.unusedSectionVars false
namespace Sema.C16
open Sema

/-! ### lists -/

theorem append_cons_inj {α} {x : α} : ∀ {a b r r' : List α}, x ∉ a → x ∉ b → a ++ x :: r = b ++ x :: r' → a = b ∧ r = r'
  | [], [], _, _, _, _, h => by simpa using h
  | [], y :: b, _, _, _, hb, h => by
    simp at h; simp at hb; exact absurd h.1 hb.1
  | y :: a, [], _, _, ha, _, h => by
    simp at h; simp at ha; exact absurd h.1.symm ha.1
  | y :: a, z :: b, r, r', ha, hb, h => by
    simp at h ha hb
    obtain ⟨h1, h2⟩ := append_cons_inj (x := x) (a := a) (b := b) (by simpa using ha.2) (by simpa using hb.2) h.2
    exact ⟨by rw [h.1, h1], h2⟩

theorem find?_filter_of_imp {α} (f q : α → Bool) (h : ∀ x, f x = true → q x = true) :
    ∀ l : List α, (l.filter q).find? f = l.find? f
  | [] => rfl
  | x :: l => by
    by_cases hq : q x = true
    · simp only [List.filter_cons, hq, if_true, List.find?_cons]
      cases hf : f x <;> simp [find?_filter_of_imp f q h l]
    · have hf : f x = false := by
        cases hfx : f x
        · rfl
        · exact absurd (h x hfx) hq
      simp [List.filter_cons, hq, List.find?_cons, hf, find?_filter_of_imp f q h l]

theorem filter_filter_of_imp {α} (f q : α → Bool) (h : ∀ x, f x = true → q x = true) (l : List α) :
    (l.filter q).filter f = l.filter f := by
  rw [List.filter_filter]
  congr 1; funext x
  cases hf : f x
  · simp
  · simp [h x hf]

theorem filter_filter_of_not {α} (f q : α → Bool) (h : ∀ x, q x = true → f x = true) (l : List α) :
    (l.filter f).filter q = l.filter q := by
  rw [List.filter_filter]
  congr 1; funext x
  cases hq : q x
  · simp
  · simp [h x hq]

theorem filter_comm' {α} (f q : α → Bool) (l : List α) : (l.filter f).filter q = (l.filter q).filter f := by
  rw [List.filter_filter, List.filter_filter]; congr 1; funext x; exact Bool.and_comm _ _

theorem any_filter_of_imp {α} (f q : α → Bool) (h : ∀ x, f x = true → q x = true) (l : List α) :
    (l.filter q).any f = l.any f := by
  induction l with
  | nil => rfl
  | cons x l ih =>
    by_cases hq : q x = true
    · simp [List.filter_cons, hq, ih]
    · have hf : f x = false := by
        cases hfx : f x
        · rfl
        · exact absurd (h x hfx) hq
      simp [List.filter_cons, hq, hf, ih]

theorem filterMap_filter_of_imp {α β} (g : α → Option β) (q : α → Bool) (h : ∀ x, (g x).isSome → q x = true) (l : List α) :
    (l.filter q).filterMap g = l.filterMap g := by
  induction l with
  | nil => rfl
  | cons x l ih =>
    by_cases hq : q x = true
    · simp [List.filter_cons, hq, List.filterMap_cons, ih]
    · have hg : g x = none := by
        cases hgx : g x
        · rfl
        · exact absurd (h x (by simp [hgx])) hq
      simp [List.filter_cons, hq, List.filterMap_cons, hg, ih]


/-! ### keys and prefixes -/

theorem key_inj' {u c u' c' : Bytes} (hu : slash ∉ u) (hu' : slash ∉ u') (h : key u c = key u' c') : u = u' ∧ c = c' :=
  append_cons_inj hu hu' h

theorem prefix_key_iff {u u' c : Bytes} (hu : slash ∉ u) (hu' : slash ∉ u') : scanPrefix u <+: key u' c ↔ u = u' := by
  constructor
  · rintro ⟨t, ht⟩
    have : u ++ slash :: t = u' ++ slash :: c := by simpa [scanPrefix, key] using ht
    exact (append_cons_inj hu hu' this).1
  · rintro rfl
    exact ⟨c, by simp [scanPrefix, key]⟩

/-! ### paths -/

theorem validSeg_slash {s : Bytes} (h : validSeg s) : slash ∉ s := h.2.2.2

theorem splitSlash_of_not_mem : ∀ {s : Bytes}, slash ∉ s → splitSlash s = [s]
  | [], _ => rfl
  | b :: bs, h => by
    simp at h
    have hb : b ≠ slash := fun e => h.1 e.symm
    simp [splitSlash, hb, splitSlash_of_not_mem (s := bs) (by simpa using h.2)]

theorem pushSeg_valid (st : Path) {s : Bytes} (h : validSeg s) : pushSeg st s = st ++ [s] := by
  obtain ⟨h1, h2, h3, _⟩ := h
  simp [pushSeg, h1, h2, h3]

theorem joinPath_valid (root : Path) : ∀ (elems : List Bytes), (∀ e ∈ elems, validSeg e) → joinPath root elems = root ++ elems := by
  intro elems
  induction elems generalizing root with
  | nil => intro _; simp [joinPath, cleanSegs]
  | cons e es ih =>
    intro h
    have he := h e (by simp)
    have hes : ∀ x ∈ es, validSeg x := fun x hx => h x (by simp [hx])
    have := ih (root ++ [e]) hes
    simp only [joinPath, cleanSegs, List.flatMap_cons, splitSlash_of_not_mem (validSeg_slash he), List.foldl_append, List.foldl_cons, List.foldl_nil, pushSeg_valid root he] at this ⊢
    rw [this]; simp

theorem validCollId_validSeg {v1 : Bool} {c : Bytes} (h : validCollId v1 c = true) : validSeg c := by
  have hlen : 3 ≤ c.length := by
    cases v1 <;> simp [validCollId] at h <;> omega
  have hall : ∀ b ∈ c, isLower b || isUpper b || isDigit b := by
    intro b hb
    cases v1 <;> simp [validCollId] at h
    · have := h.2 b hb; rcases this with h' | h' <;> simp [h']
    · have := h.2 b hb; rcases this with (h' | h') | h' <;> simp [h']
  refine ⟨?_, ?_, ?_, ?_⟩
  · intro e; simp [e] at hlen
  · intro e; simp [e] at hlen
  · intro e; simp [e] at hlen
  · intro hm
    have := hall slash hm
    simp [isLower, isUpper, isDigit, slash] at this

theorem acceptFixed_validSeg {u : Bytes} (h : acceptUser .fixed u = true) : validSeg u := by
  simp [acceptUser] at h
  exact ⟨h.1.1.1.1, h.1.1.1.2, h.1.1.2, h.1.2⟩


/-! ### the bucket and directory primitives against a restriction `P` on keys / paths -/

section prims
variable (P : Bytes → Bool) (Q : Path → Bool)

theorem dbGet_res (db : List (Bytes × Coll)) {k : Bytes} (hk : P k = true) :
    dbGet (db.filter fun e => P e.1) k = dbGet db k := by
  unfold dbGet
  rw [find?_filter_of_imp]
  intro x hx
  have : x.1 = k := by simpa using hx
  rw [this]; exact hk

theorem dbScan_res (db : List (Bytes × Coll)) {pfx : Bytes} (h : ∀ k, pfx <+: k → P k = true) :
    dbScan (db.filter fun e => P e.1) pfx = dbScan db pfx := by
  unfold dbScan
  apply filter_filter_of_imp
  intro x hx
  exact h _ (by simpa using hx)

theorem res_dbErase (db : List (Bytes × Coll)) (k : Bytes) :
    (dbErase db k).filter (fun e => P e.1) = dbErase (db.filter fun e => P e.1) k := by
  unfold dbErase; exact filter_comm' _ _ _

theorem res_dbErase_out (db : List (Bytes × Coll)) {k : Bytes} (hk : P k = false) :
    (dbErase db k).filter (fun e => P e.1) = db.filter fun e => P e.1 := by
  unfold dbErase
  apply filter_filter_of_not
  intro x hx
  have : x.1 ≠ k := fun e => by rw [e, hk] at hx; exact Bool.noConfusion hx
  simpa using this

theorem res_dbPut_out (db : List (Bytes × Coll)) {k : Bytes} (v : Coll) (hk : P k = false) :
    (dbPut db k v).filter (fun e => P e.1) = db.filter fun e => P e.1 := by
  unfold dbPut
  rw [List.filter_append]
  have := res_dbErase_out P db hk
  unfold dbErase at this
  rw [this]; simp [hk]

theorem res_dbPut_in (db : List (Bytes × Coll)) {k : Bytes} (v : Coll) (hk : P k = true) :
    (dbPut db k v).filter (fun e => P e.1) = dbPut (db.filter fun e => P e.1) k v := by
  unfold dbPut
  rw [List.filter_append, filter_comm']
  simp [hk]

theorem fsGet_res (fs : List (Path × List Pt)) {p : Path} (hp : Q p = true) :
    fsGet (fs.filter fun e => Q e.1) p = fsGet fs p := by
  unfold fsGet
  rw [find?_filter_of_imp]
  intro x hx
  have : x.1 = p := by simpa using hx
  rw [this]; exact hp

theorem res_fsTouch_in (fs : List (Path × List Pt)) {p : Path} (hp : Q p = true) :
    (fsTouch fs p).filter (fun e => Q e.1) = fsTouch (fs.filter fun e => Q e.1) p := by
  unfold fsTouch
  rw [any_filter_of_imp]
  · split
    · rfl
    · simp [List.filter_append, hp]
  · intro x hx
    have : x.1 = p := by simpa using hx
    rw [this]; exact hp

theorem res_fsTouch_out (fs : List (Path × List Pt)) {p : Path} (hp : Q p = false) :
    (fsTouch fs p).filter (fun e => Q e.1) = fs.filter fun e => Q e.1 := by
  unfold fsTouch
  split
  · rfl
  · simp [List.filter_append, hp]

theorem res_fsSet (fs : List (Path × List Pt)) (p : Path) (v : List Pt) :
    (fsSet fs p v).filter (fun e => Q e.1) = fsSet (fs.filter fun e => Q e.1) p v := by
  unfold fsSet
  induction fs with
  | nil => rfl
  | cons e fs ih =>
    by_cases he : e.1 = p
    · by_cases hq : Q p = true
      · simp [List.filter_cons, he, hq, ih]
      · simp [List.filter_cons, he, hq, ih]
    · by_cases hq : Q e.1 = true
      · simp [List.filter_cons, he, hq, ih]
      · simp [List.filter_cons, he, hq, ih]

theorem res_fsSet_out (fs : List (Path × List Pt)) {p : Path} (v : List Pt) (hp : Q p = false) :
    (fsSet fs p v).filter (fun e => Q e.1) = fs.filter fun e => Q e.1 := by
  unfold fsSet
  induction fs with
  | nil => rfl
  | cons e fs ih =>
    by_cases he : e.1 = p
    · simp [List.filter_cons, he, hp, ih]
    · by_cases hq : Q e.1 = true
      · simp [List.filter_cons, he, hq, ih]
      · simp [List.filter_cons, he, hq, ih]

theorem res_fsRemoveBelow (fs : List (Path × List Pt)) (d : Path) :
    (fsRemoveBelow fs d).filter (fun e => Q e.1) = fsRemoveBelow (fs.filter fun e => Q e.1) d := by
  unfold fsRemoveBelow; exact filter_comm' _ _ _

theorem res_fsRemoveBelow_out (fs : List (Path × List Pt)) {d : Path} (h : ∀ p, below d p = true → Q p = false) :
    (fsRemoveBelow fs d).filter (fun e => Q e.1) = fs.filter fun e => Q e.1 := by
  unfold fsRemoveBelow
  apply filter_filter_of_not
  intro x hx
  cases hb : below d x.1
  · rfl
  · rw [h _ hb] at hx; exact Bool.noConfusion hx

theorem fsEntries_res (fs : List (Path × List Pt)) {d : Path} (h : ∀ p, below d p = true → Q p = true) :
    fsEntries (fs.filter fun e => Q e.1) d = fsEntries fs d := by
  unfold fsEntries
  rw [filterMap_filter_of_imp]
  intro x hx
  cases hb : below d x.1
  · simp [hb] at hx
  · exact h _ hb

end prims


/-! ### regions -/

def inDb (b k : Bytes) : Bool := decide (scanPrefix b <+: k)
def inFs (cfg : Cfg) (b : Bytes) (p : Path) : Bool := decide (userDir cfg b <+: p)

theorem proj_eq (cfg : Cfg) (b : Bytes) (s : Node) :
    proj cfg b s = { db := s.db.filter (fun e => inDb b e.1), fs := s.fs.filter (fun e => inFs cfg b e.1) } := rfl

theorem inDb_key {b u c : Bytes} (hb : slash ∉ b) (hu : slash ∉ u) : inDb b (key u c) = decide (b = u) := by
  unfold inDb; rw [decide_eq_decide]; exact prefix_key_iff hb hu

theorem inDb_of_prefix {b k : Bytes} (h : scanPrefix b <+: k) : inDb b k = true := by
  unfold inDb; simpa using h

theorem inFs_under {cfg : Cfg} {b u : Bytes} {p : Path} (h : cfg.root ++ [cfg.dir, u] <+: p) :
    inFs cfg b p = decide (b = u) := by
  unfold inFs userDir; rw [decide_eq_decide]; constructor
  · intro hb
    have h1 := List.prefix_of_prefix_length_le hb h (by simp)
    have h2 := h1.eq_of_length (by simp)
    simpa using h2
  · rintro rfl; exact h

/-- well-formed node database: every record sits under its own key, with plain names -/
def WF (s : Node) : Prop :=
  ∀ e ∈ s.db, e.1 = key e.2.user e.2.id ∧ validSeg e.2.user ∧ validSeg e.2.id ∧ ∀ sh ∈ e.2.shards, validSeg sh

structure Owns (u c : Bytes) (col : Coll) : Prop where
  user : col.user = u
  id : col.id = c
  vu : validSeg u
  vc : validSeg c
  vs : ∀ sh ∈ col.shards, validSeg sh

theorem dbGet_mem {db : List (Bytes × Coll)} {k : Bytes} {col : Coll} (h : dbGet db k = some col) : (k, col) ∈ db := by
  unfold dbGet at h
  cases hf : db.find? (fun e => decide (e.1 = k)) with
  | none => simp [hf] at h
  | some e =>
    simp [hf] at h
    have hm := List.mem_of_find?_eq_some hf
    have hk := List.find?_some hf
    have : e = (k, col) := by
      cases e with | mk a c => simp at hk h; simp [hk, h]
    rw [← this]; exact hm

theorem owns_of_get {s : Node} {u c : Bytes} {col : Coll} (hwf : WF s) (hu : validSeg u)
    (h : dbGet s.db (key u c) = some col) : Owns u c col := by
  obtain ⟨h1, h2, h3, h4⟩ := hwf _ (dbGet_mem h)
  simp only at h1 h2 h3 h4
  obtain ⟨e1, e2⟩ := key_inj' (validSeg_slash hu) (validSeg_slash h2) h1
  exact ⟨e1.symm, e2.symm, hu, e2 ▸ h3, h4⟩

section paths
variable {cfg : Cfg} (hd : validSeg cfg.dir) {u c : Bytes} {col : Coll} (o : Owns u c col)
include hd o

theorem shardDir_eq {sh : Bytes} (hs : validSeg sh) : shardDir cfg col sh = cfg.root ++ [cfg.dir, u, c, sh] := by
  unfold shardDir
  rw [joinPath_valid, o.user, o.id]
  intro e he
  simp at he
  rcases he with rfl | rfl | rfl | rfl
  · exact hd
  · exact o.user ▸ o.vu
  · exact o.id ▸ o.vc
  · exact hs

theorem collDir_eq : collDir cfg col = cfg.root ++ [cfg.dir, u, c] := by
  unfold collDir
  rw [joinPath_valid, o.user, o.id]
  intro e he
  simp at he
  rcases he with rfl | rfl | rfl
  · exact hd
  · exact o.user ▸ o.vu
  · exact o.id ▸ o.vc

theorem inFs_shardDir (b : Bytes) {sh : Bytes} (hs : validSeg sh) : inFs cfg b (shardDir cfg col sh) = decide (b = u) := by
  rw [shardDir_eq hd o hs]
  apply inFs_under
  exact ⟨[c, sh], by simp⟩

theorem inFs_below_collDir (b : Bytes) {p : Path} (hp : below (collDir cfg col) p = true) : inFs cfg b p = decide (b = u) := by
  rw [collDir_eq hd o] at hp
  apply inFs_under
  have : cfg.root ++ [cfg.dir, u, c] <+: p := by
    simp [below] at hp; exact hp.1
  exact List.IsPrefix.trans ⟨[c], by simp⟩ this

end paths

theorem res_touchAll_in (Q : Path → Bool) (cfg : Cfg) (col : Coll) (fs : List (Path × List Pt))
    (h : ∀ sh ∈ col.shards, Q (shardDir cfg col sh) = true) :
    (touchAll cfg col fs).filter (fun e => Q e.1) = touchAll cfg col (fs.filter fun e => Q e.1) := by
  unfold touchAll
  generalize col.shards = l at h
  induction l generalizing fs with
  | nil => rfl
  | cons sh l ih =>
    simp only [List.foldl_cons]
    rw [ih _ (fun x hx => h x (by simp [hx])), res_fsTouch_in Q fs (h sh (by simp))]

theorem res_touchAll_out (Q : Path → Bool) (cfg : Cfg) (col : Coll) (fs : List (Path × List Pt))
    (h : ∀ sh ∈ col.shards, Q (shardDir cfg col sh) = false) :
    (touchAll cfg col fs).filter (fun e => Q e.1) = fs.filter fun e => Q e.1 := by
  unfold touchAll
  generalize col.shards = l at h
  induction l generalizing fs with
  | nil => rfl
  | cons sh l ih =>
    simp only [List.foldl_cons]
    rw [ih _ (fun x hx => h x (by simp [hx])), res_fsTouch_out Q fs (h sh (by simp))]


/-! ### every operation against the projection on one user -/

section ops
theorem flatMap_congr' {α β} {f g : α → List β} : ∀ {l : List α}, (∀ x ∈ l, f x = g x) → l.flatMap f = l.flatMap g
  | [], _ => rfl
  | x :: l, h => by
    simp only [List.flatMap_cons]
    rw [h x (by simp), flatMap_congr' (l := l) (fun y hy => h y (by simp [hy]))]

variable {cfg : Cfg} (hd : validSeg cfg.dir)
include hd

theorem getBody_self {s : Node} {b c : Bytes} {col : Coll} (o : Owns b c col) :
    getBody cfg (proj cfg b s) col = (proj cfg b (getBody cfg s col).1, (getBody cfg s col).2) := by
  have hin : ∀ sh ∈ col.shards, inFs cfg b (shardDir cfg col sh) = true := fun sh hs => by
    rw [inFs_shardDir hd o b (o.vs sh hs)]; simp
  have ht := res_touchAll_in (inFs cfg b) cfg col s.fs hin
  simp only [getBody, proj_eq]
  rw [← ht]
  have hg : ∀ sh ∈ col.shards, fsGet (List.filter (fun e => inFs cfg b e.1) (touchAll cfg col s.fs)) (shardDir cfg col sh) = fsGet (touchAll cfg col s.fs) (shardDir cfg col sh) :=
    fun sh hs => fsGet_res (inFs cfg b) _ (hin sh hs)
  rw [List.map_congr_left (fun sh hs => by rw [hg sh hs])]

theorem getBody_other {s : Node} {a b c : Bytes} {col : Coll} (o : Owns a c col) (hab : b ≠ a) :
    proj cfg b (getBody cfg s col).1 = proj cfg b s := by
  have hout : ∀ sh ∈ col.shards, inFs cfg b (shardDir cfg col sh) = false := fun sh hs => by
    rw [inFs_shardDir hd o b (o.vs sh hs)]; simp [hab]
  simp only [getBody, proj_eq]
  rw [res_touchAll_out (inFs cfg b) cfg col s.fs hout]


theorem searchBody_self {s : Node} {b c : Bytes} {col : Coll} (o : Owns b c col) :
    searchBody cfg (proj cfg b s) col = (proj cfg b (searchBody cfg s col).1, (searchBody cfg s col).2) := by
  have hin : ∀ sh ∈ col.shards, inFs cfg b (shardDir cfg col sh) = true := fun sh hs => by
    rw [inFs_shardDir hd o b (o.vs sh hs)]; simp
  have ht := res_touchAll_in (inFs cfg b) cfg col s.fs hin
  simp only [searchBody, proj_eq]
  rw [← ht]
  have hg : ∀ sh ∈ col.shards, fsGet (List.filter (fun e => inFs cfg b e.1) (touchAll cfg col s.fs)) (shardDir cfg col sh) = fsGet (touchAll cfg col s.fs) (shardDir cfg col sh) :=
    fun sh hs => fsGet_res (inFs cfg b) _ (hin sh hs)
  rw [flatMap_congr' (fun sh hs => by rw [hg sh hs])]

theorem searchBody_other {s : Node} {a b c : Bytes} {col : Coll} (o : Owns a c col) (hab : b ≠ a) :
    proj cfg b (searchBody cfg s col).1 = proj cfg b s := by
  have hout : ∀ sh ∈ col.shards, inFs cfg b (shardDir cfg col sh) = false := fun sh hs => by
    rw [inFs_shardDir hd o b (o.vs sh hs)]; simp [hab]
  simp only [searchBody, proj_eq]
  rw [res_touchAll_out (inFs cfg b) cfg col s.fs hout]

theorem dropBody_self {s : Node} {b c : Bytes} {col : Coll} (o : Owns b c col) :
    dropBody cfg (proj cfg b s) b c col = (proj cfg b (dropBody cfg s b c col).1, (dropBody cfg s b c col).2) := by
  have hbel : ∀ p, below (collDir cfg col) p = true → inFs cfg b p = true := fun p hp => by
    rw [inFs_below_collDir hd o b hp]; simp
  simp only [dropBody]
  by_cases hsh : col.shards = []
  · simp only [hsh, if_true, proj_eq]
    rw [← res_dbErase (inDb b)]
  · simp only [hsh, if_false, proj_eq]
    simp only [fsEntries_res (inFs cfg b) s.fs hbel]
    rw [← res_dbErase (inDb b), ← res_fsRemoveBelow (inFs cfg b)]

theorem dropBody_other {s : Node} {a b c : Bytes} {col : Coll} (o : Owns a c col) (hb : validSeg b) (hab : b ≠ a) :
    proj cfg b (dropBody cfg s a c col).1 = proj cfg b s := by
  have hbel : ∀ p, below (collDir cfg col) p = true → inFs cfg b p = false := fun p hp => by
    rw [inFs_below_collDir hd o b hp]; simp [hab]
  have hk : inDb b (key a c) = false := by
    rw [inDb_key (validSeg_slash hb) (validSeg_slash o.vu)]; simp [hab]
  simp only [dropBody]
  split
  · simp only [proj_eq]; rw [res_dbErase_out (inDb b) s.db hk]
  · simp only [proj_eq]; rw [res_dbErase_out (inDb b) s.db hk, res_fsRemoveBelow_out (inFs cfg b) s.fs hbel]


theorem updateBody_self {s : Node} {b c : Bytes} {col : Coll} (pts : List Pt) (o : Owns b c col) :
    updateBody cfg (proj cfg b s) pts col = (proj cfg b (updateBody cfg s pts col).1, (updateBody cfg s pts col).2) := by
  have hin : ∀ sh ∈ col.shards, inFs cfg b (shardDir cfg col sh) = true := fun sh hs => by
    rw [inFs_shardDir hd o b (o.vs sh hs)]; simp
  have ht := res_touchAll_in (inFs cfg b) cfg col s.fs hin
  simp only [updateBody]
  by_cases hp : pts = []
  · simp [hp]
  · simp only [hp, if_false, proj_eq]
    rw [← ht]
    cases hsh : col.shards with
    | nil => rfl
    | cons sh rest =>
      have hq := hin sh (by simp [hsh])
      simp only [fsGet_res (inFs cfg b) (touchAll cfg col s.fs) hq]
      rw [← res_fsSet (inFs cfg b)]

theorem updateBody_other {s : Node} {a b c : Bytes} {col : Coll} (pts : List Pt) (o : Owns a c col) (hab : b ≠ a) :
    proj cfg b (updateBody cfg s pts col).1 = proj cfg b s := by
  have hout : ∀ sh ∈ col.shards, inFs cfg b (shardDir cfg col sh) = false := fun sh hs => by
    rw [inFs_shardDir hd o b (o.vs sh hs)]; simp [hab]
  have ht := res_touchAll_out (inFs cfg b) cfg col s.fs hout
  simp only [updateBody]
  by_cases hp : pts = []
  · simp [hp]
  · simp only [hp, if_false]
    cases hsh : col.shards with
    | nil => simp only [proj_eq]; rw [ht]
    | cons sh rest =>
      have hq := hout sh (by simp [hsh])
      simp only [proj_eq]
      rw [res_fsSet_out (inFs cfg b) _ _ hq, ht]

theorem deleteBody_self {s : Node} {b c : Bytes} {col : Coll} (ids : List Nat) (o : Owns b c col) :
    deleteBody cfg (proj cfg b s) ids col = (proj cfg b (deleteBody cfg s ids col).1, (deleteBody cfg s ids col).2) := by
  have hin : ∀ sh ∈ col.shards, inFs cfg b (shardDir cfg col sh) = true := fun sh hs => by
    rw [inFs_shardDir hd o b (o.vs sh hs)]; simp
  have ht := res_touchAll_in (inFs cfg b) cfg col s.fs hin
  simp only [deleteBody]
  by_cases hp : ids = []
  · simp [hp]
  · simp only [hp, if_false, proj_eq]
    rw [← ht]
    cases hsh : col.shards with
    | nil => rfl
    | cons sh rest =>
      have hq := hin sh (by simp [hsh])
      simp only [fsGet_res (inFs cfg b) (touchAll cfg col s.fs) hq]
      rw [← res_fsSet (inFs cfg b)]

theorem deleteBody_other {s : Node} {a b c : Bytes} {col : Coll} (ids : List Nat) (o : Owns a c col) (hab : b ≠ a) :
    proj cfg b (deleteBody cfg s ids col).1 = proj cfg b s := by
  have hout : ∀ sh ∈ col.shards, inFs cfg b (shardDir cfg col sh) = false := fun sh hs => by
    rw [inFs_shardDir hd o b (o.vs sh hs)]; simp [hab]
  have ht := res_touchAll_out (inFs cfg b) cfg col s.fs hout
  simp only [deleteBody]
  by_cases hp : ids = []
  · simp [hp]
  · simp only [hp, if_false]
    cases hsh : col.shards with
    | nil => simp only [proj_eq]; rw [ht]
    | cons sh rest =>
      have hq := hout sh (by simp [hsh])
      simp only [proj_eq]
      rw [res_fsSet_out (inFs cfg b) _ _ hq, ht]


omit hd in
theorem headD_valid {col : Coll} {b c sid : Bytes} (o : Owns b c col) (hs : validSeg sid) : validSeg (col.shards.headD sid) := by
  cases h : col.shards with
  | nil => simpa using hs
  | cons sh rest => simpa using o.vs sh (by simp [h])

theorem insertBody_self {s : Node} {b c sid : Bytes} {col : Coll} (pts : List Pt) (o : Owns b c col) (hs : validSeg sid) :
    insertBody cfg (proj cfg b s) b c sid pts col = (proj cfg b (insertBody cfg s b c sid pts col).1, (insertBody cfg s b c sid pts col).2) := by
  have hin : ∀ sh ∈ col.shards, inFs cfg b (shardDir cfg col sh) = true := fun sh hs => by
    rw [inFs_shardDir hd o b (o.vs sh hs)]; simp
  have ht := res_touchAll_in (inFs cfg b) cfg col s.fs hin
  have hq : inFs cfg b (shardDir cfg col (col.shards.headD sid)) = true := by
    rw [inFs_shardDir hd o b (headD_valid o hs)]; simp
  have hk : inDb b (key b c) = true := by
    rw [inDb_key (validSeg_slash o.vu) (validSeg_slash o.vu)]; simp
  have hg : ∀ sh ∈ col.shards, fsGet (List.filter (fun e => inFs cfg b e.1) (touchAll cfg col s.fs)) (shardDir cfg col sh) = fsGet (touchAll cfg col s.fs) (shardDir cfg col sh) :=
    fun sh hs => fsGet_res (inFs cfg b) _ (hin sh hs)
  have hdb : (if col.shards = [] then dbPut (List.filter (fun e => inDb b e.1) s.db) (key b c) { col with shards := [sid] }
      else List.filter (fun e => inDb b e.1) s.db) =
      List.filter (fun e => inDb b e.1) (if col.shards = [] then dbPut s.db (key b c) { col with shards := [sid] } else s.db) := by
    split
    · rw [res_dbPut_in (inDb b) s.db _ hk]
    · rfl
  have h2 : (List.map (fun sh => (fsGet (List.filter (fun e => inFs cfg b e.1) (touchAll cfg col s.fs)) (shardDir cfg col sh)).length) col.shards)
      = List.map (fun sh => (fsGet (touchAll cfg col s.fs) (shardDir cfg col sh)).length) col.shards :=
    List.map_congr_left (fun sh hs => by rw [hg sh hs])
  have h3 := (res_fsTouch_in (inFs cfg b) (touchAll cfg col s.fs) hq).symm
  have h4 := fsGet_res (inFs cfg b) (fsTouch (touchAll cfg col s.fs) (shardDir cfg col (col.shards.headD sid))) hq
  have h6 := fun v => (res_fsSet (inFs cfg b) (fsTouch (touchAll cfg col s.fs) (shardDir cfg col (col.shards.headD sid))) (shardDir cfg col (col.shards.headD sid)) v).symm
  simp only [insertBody]
  by_cases hp : pts = []
  · simp [hp]
  · simp only [hp, if_false, proj_eq, ht.symm, h2, h3, h4, hdb, h6]
    split
    · rfl
    · split <;> rfl

theorem insertBody_other {s : Node} {a b c sid : Bytes} {col : Coll} (pts : List Pt) (o : Owns a c col) (hs : validSeg sid)
    (hb : validSeg b) (hab : b ≠ a) :
    proj cfg b (insertBody cfg s a c sid pts col).1 = proj cfg b s := by
  have hout : ∀ sh ∈ col.shards, inFs cfg b (shardDir cfg col sh) = false := fun sh hs => by
    rw [inFs_shardDir hd o b (o.vs sh hs)]; simp [hab]
  have ht := res_touchAll_out (inFs cfg b) cfg col s.fs hout
  have hq : inFs cfg b (shardDir cfg col (col.shards.headD sid)) = false := by
    rw [inFs_shardDir hd o b (headD_valid o hs)]; simp [hab]
  have hk : inDb b (key a c) = false := by
    rw [inDb_key (validSeg_slash hb) (validSeg_slash o.vu)]; simp [hab]
  have hdb : List.filter (fun e => inDb b e.1) (if col.shards = [] then dbPut s.db (key a c) { col with shards := [sid] } else s.db)
      = List.filter (fun e => inDb b e.1) s.db := by
    split
    · rw [res_dbPut_out (inDb b) s.db _ hk]
    · rfl
  simp only [insertBody]
  by_cases hp : pts = []
  · simp [hp]
  · simp only [hp, if_false]
    split
    · simp only [proj_eq]; rw [ht]
    · split
      · simp only [proj_eq]; rw [hdb, res_fsTouch_out (inFs cfg b) _ hq, ht]
      · simp only [proj_eq]; rw [hdb, res_fsSet_out (inFs cfg b) _ _ hq, res_fsTouch_out (inFs cfg b) _ hq, ht]


theorem createOp_self {s : Node} {b : Bytes} (v1 : Bool) (c : Bytes) (hb : validSeg b) :
    createOp cfg (proj cfg b s) b v1 c = (proj cfg b (createOp cfg s b v1 c).1, (createOp cfg s b v1 c).2) := by
  have hk : inDb b (key b c) = true := by
    rw [inDb_key (validSeg_slash hb) (validSeg_slash hb)]; simp
  have h1 := dbGet_res (inDb b) s.db hk
  have h2 := dbScan_res (inDb b) s.db (pfx := scanPrefix b) (fun k hk => inDb_of_prefix hk)
  have h3 := fun v => (res_dbPut_in (inDb b) s.db v hk).symm
  simp only [createOp, proj_eq, h1, h2, h3]
  split
  · rfl
  · split
    · rfl
    · split <;> rfl

theorem createOp_other {s : Node} {a b : Bytes} (v1 : Bool) (c : Bytes) (ha : validSeg a) (hb : validSeg b) (hab : b ≠ a) :
    proj cfg b (createOp cfg s a v1 c).1 = proj cfg b s := by
  have hk : inDb b (key a c) = false := by
    rw [inDb_key (validSeg_slash hb) (validSeg_slash ha)]; simp [hab]
  simp only [createOp]
  split
  · rfl
  · split
    · rfl
    · split
      · rfl
      · simp only [proj_eq]; rw [res_dbPut_out (inDb b) s.db _ hk]

theorem withColl_self {s : Node} {b c : Bytes} (hwf : WF s) (hb : validSeg b) (k k' : Coll → Node × Resp)
    (h : ∀ col, Owns b c col → k' col = (proj cfg b (k col).1, (k col).2)) :
    withColl (proj cfg b s) b c k' = (proj cfg b (withColl s b c k).1, (withColl s b c k).2) := by
  have hk : inDb b (key b c) = true := by
    rw [inDb_key (validSeg_slash hb) (validSeg_slash hb)]; simp
  have h1 := dbGet_res (inDb b) s.db hk
  simp only [withColl, proj_eq, h1]
  split
  · rfl
  · cases hget : dbGet s.db (key b c) with
    | none => rfl
    | some col => simp only; rw [h col (owns_of_get hwf hb hget)]; rfl

theorem withColl_other {s : Node} {a b c : Bytes} (hwf : WF s) (ha : validSeg a) (k : Coll → Node × Resp)
    (h : ∀ col, Owns a c col → proj cfg b (k col).1 = proj cfg b s) :
    proj cfg b (withColl s a c k).1 = proj cfg b s := by
  simp only [withColl]
  split
  · rfl
  · cases hget : dbGet s.db (key a c) with
    | none => rfl
    | some col => exact h col (owns_of_get hwf ha hget)

/-- the oracle argument of an insert (the name `uuid.New()` gives a new shard) is a plain name -/
def OpOk : Op → Prop
  | .insert _ sid _ => validSeg sid
  | _ => True

omit hd in
instance (op : Op) : Decidable (OpOk op) := by
  cases op <;> unfold OpOk <;> infer_instance

theorem step_self {s : Node} {b : Bytes} {op : Op} (hwf : WF s) (hb : acceptUser cfg.variant b = true → validSeg b) (hop : OpOk op) :
    step cfg (proj cfg b s) b op = (proj cfg b (step cfg s b op).1, (step cfg s b op).2) := by
  unfold step
  by_cases hacc : acceptUser cfg.variant b = true
  · have vb := hb hacc
    simp only [hacc, Bool.not_true, Bool.false_eq_true, if_false]
    cases op with
    | create v1 c => exact createOp_self hd v1 c vb
    | list =>
      have h2 := dbScan_res (inDb b) s.db (pfx := scanPrefix b) (fun k hk => inDb_of_prefix hk)
      simp only [proj_eq, h2]
    | get c => exact withColl_self hd hwf vb _ _ (fun col o => getBody_self hd o)
    | drop c => exact withColl_self hd hwf vb _ _ (fun col o => dropBody_self hd o)
    | insert c sid pts => exact withColl_self hd hwf vb _ _ (fun col o => insertBody_self hd pts o hop)
    | update c pts => exact withColl_self hd hwf vb _ _ (fun col o => updateBody_self hd pts o)
    | delete c ids => exact withColl_self hd hwf vb _ _ (fun col o => deleteBody_self hd ids o)
    | search c => exact withColl_self hd hwf vb _ _ (fun col o => searchBody_self hd o)
  · simp [hacc]

theorem step_other {s : Node} {a b : Bytes} {op : Op} (hwf : WF s) (ha : acceptUser cfg.variant a = true → validSeg a)
    (hb : validSeg b) (hab : b ≠ a) (hop : OpOk op) :
    proj cfg b (step cfg s a op).1 = proj cfg b s := by
  unfold step
  by_cases hacc : acceptUser cfg.variant a = true
  · have va := ha hacc
    simp only [hacc, Bool.not_true, Bool.false_eq_true, if_false]
    cases op with
    | create v1 c => exact createOp_other hd v1 c va hb hab
    | list => rfl
    | get c => exact withColl_other hd hwf va _ (fun col o => getBody_other hd o hab)
    | drop c => exact withColl_other hd hwf va _ (fun col o => dropBody_other hd o hb hab)
    | insert c sid pts => exact withColl_other hd hwf va _ (fun col o => insertBody_other hd pts o hop hb hab)
    | update c pts => exact withColl_other hd hwf va _ (fun col o => updateBody_other hd pts o hab)
    | delete c ids => exact withColl_other hd hwf va _ (fun col o => deleteBody_other hd ids o hab)
    | search c => exact withColl_other hd hwf va _ (fun col o => searchBody_other hd o hab)
  · simp [hacc]


/-! ### the invariant is preserved -/

omit hd in
theorem wf_of_subset {s t : Node} (hwf : WF s) (h : ∀ e ∈ t.db, e ∈ s.db) : WF t :=
  fun e he => hwf e (h e he)

omit hd in
theorem wf_put {s : Node} {fs : List (Path × List Pt)} {k : Bytes} {v : Coll} (hwf : WF s)
    (hv : k = key v.user v.id ∧ validSeg v.user ∧ validSeg v.id ∧ ∀ sh ∈ v.shards, validSeg sh) :
    WF { db := dbPut s.db k v, fs := fs } := by
  intro e he
  simp only [dbPut, List.mem_append, List.mem_filter, List.mem_singleton] at he
  rcases he with ⟨he, _⟩ | rfl
  · exact hwf e he
  · exact hv

omit hd in
theorem wf_withColl {s : Node} {u c : Bytes} (hwf : WF s) (hu : validSeg u) (k : Coll → Node × Resp)
    (h : ∀ col, Owns u c col → WF (k col).1) : WF (withColl s u c k).1 := by
  simp only [withColl]
  split
  · exact hwf
  · cases hget : dbGet s.db (key u c) with
    | none => exact hwf
    | some col => exact h col (owns_of_get hwf hu hget)

omit hd in
theorem wf_step {s : Node} {u : Bytes} {op : Op} (hwf : WF s) (hu : acceptUser cfg.variant u = true → validSeg u) (hop : OpOk op) :
    WF (step cfg s u op).1 := by
  unfold step
  by_cases hacc : acceptUser cfg.variant u = true
  · have vu := hu hacc
    simp only [hacc, Bool.not_true, Bool.false_eq_true, if_false]
    cases op with
    | create v1 c =>
      simp only [createOp]
      split
      · exact hwf
      · rename_i hv
        split
        · exact hwf
        · split
          · exact hwf
          · exact wf_put hwf ⟨rfl, vu, validCollId_validSeg (by simpa using hv), by simp⟩
    | list => exact hwf
    | get c => exact wf_withColl hwf vu _ (fun col o => wf_of_subset hwf (fun e he => he))
    | drop c =>
      refine wf_withColl hwf vu _ (fun col o => ?_)
      simp only [dropBody]
      split <;> exact wf_of_subset hwf (fun e he => (List.mem_filter.mp he).1)
    | insert c sid pts =>
      refine wf_withColl hwf vu _ (fun col o => ?_)
      have hput : WF { db := (if col.shards = [] then dbPut s.db (key u c) { col with shards := [sid] } else s.db), fs := s.fs } := by
        split
        · exact wf_put hwf ⟨by rw [o.user, o.id], o.user ▸ o.vu, o.id ▸ o.vc, by intro sh hsh; simp at hsh; subst hsh; exact hop⟩
        · exact hwf
      simp only [insertBody]
      split
      · exact hwf
      · split
        · exact wf_of_subset hwf (fun e he => he)
        · split <;> exact wf_of_subset hput (fun e he => he)
    | update c pts =>
      refine wf_withColl hwf vu _ (fun col o => ?_)
      simp only [updateBody]
      split
      · exact hwf
      · split <;> exact wf_of_subset hwf (fun e he => he)
    | delete c ids =>
      refine wf_withColl hwf vu _ (fun col o => ?_)
      simp only [deleteBody]
      split
      · exact hwf
      · split <;> exact wf_of_subset hwf (fun e he => he)
    | search c => exact wf_withColl hwf vu _ (fun col o => wf_of_subset hwf (fun e he => he))
  · simp only [hacc]; exact hwf

/-! ### histories -/

/-- the responses addressed to `b` in a run of the interleaved history `H` -/
def respTo (b : Bytes) : List (Bytes × Op) → List Resp → List Resp
  | (u, _) :: hs, r :: rs => if u = b then r :: respTo b hs rs else respTo b hs rs
  | _, _ => []

/-- every accepted issuer is a plain name, and so is every shard-name oracle -/
def HistOk (cfg : Cfg) (H : List (Bytes × Op)) : Prop :=
  ∀ x ∈ H, (acceptUser cfg.variant x.1 = true → validSeg x.1) ∧ OpOk x.2

theorem run_proj {b : Bytes} (hb : validSeg b) : ∀ (H : List (Bytes × Op)) (s : Node), WF s → HistOk cfg H →
    run cfg (proj cfg b s) (H.filter fun x => x.1 = b) = (proj cfg b (run cfg s H).1, respTo b H (run cfg s H).2)
  | [], s, _, _ => rfl
  | (u, op) :: rest, s, hwf, hok => by
    have hx := hok (u, op) (by simp)
    have hrest : HistOk cfg rest := fun x hx => hok x (by simp [hx])
    have hwf' := wf_step (cfg := cfg) hwf hx.1 hx.2
    have ih := run_proj hb rest _ hwf' hrest
    by_cases hub : u = b
    · subst hub
      simp only [List.filter_cons, decide_true, if_true, run, respTo]
      rw [step_self hd hwf hx.1 hx.2]
      simp only [ih]
    · simp only [List.filter_cons, hub, decide_false, Bool.false_eq_true, if_false, run, respTo]
      rw [← step_other hd hwf hx.1 hb (fun e => hub e.symm) hx.2]
      exact ih

end ops

/-! ### concurrent clients -/

section conc
variable {cfg : Cfg} (hd : validSeg cfg.dir)
include hd

theorem body_self {s : Node} {b c : Bytes} {op : Op} {col : Coll} (hc : op.coll? = some c) (o : Owns b c col) (hop : OpOk op) :
    body cfg (proj cfg b s) b op col = (proj cfg b (body cfg s b op col).1, (body cfg s b op col).2) := by
  cases op with
  | create v1 c' => simp [Op.coll?] at hc
  | list => simp [Op.coll?] at hc
  | get c' => exact getBody_self hd o
  | drop c' =>
    simp only [Op.coll?, Option.some.injEq] at hc; subst hc
    exact dropBody_self hd o
  | insert c' sid pts =>
    simp only [Op.coll?, Option.some.injEq] at hc; subst hc
    exact insertBody_self hd pts o hop
  | update c' pts => exact updateBody_self hd pts o
  | delete c' ids => exact deleteBody_self hd ids o
  | search c' => exact searchBody_self hd o

theorem body_other {s : Node} {a b c : Bytes} {op : Op} {col : Coll} (hc : op.coll? = some c) (o : Owns a c col) (hop : OpOk op)
    (hb : validSeg b) (hab : b ≠ a) :
    proj cfg b (body cfg s a op col).1 = proj cfg b s := by
  cases op with
  | create v1 c' => simp [Op.coll?] at hc
  | list => simp [Op.coll?] at hc
  | get c' => exact getBody_other hd o hab
  | drop c' =>
    simp only [Op.coll?, Option.some.injEq] at hc; subst hc
    exact dropBody_other hd o hb hab
  | insert c' sid pts =>
    simp only [Op.coll?, Option.some.injEq] at hc; subst hc
    exact insertBody_other hd pts o hop hb hab
  | update c' pts => exact updateBody_other hd pts o hab
  | delete c' ids => exact deleteBody_other hd ids o hab
  | search c' => exact searchBody_other hd o hab

omit hd in
theorem wf_body {s : Node} {u c : Bytes} {op : Op} {col : Coll} (hwf : WF s) (hc : op.coll? = some c) (o : Owns u c col) (hop : OpOk op) :
    WF (body cfg s u op col).1 := by
  cases op with
  | create v1 c' => simp [Op.coll?] at hc
  | list => simp [Op.coll?] at hc
  | get c' => exact wf_of_subset hwf (fun e he => he)
  | drop c' =>
    simp only [body, dropBody]
    split <;> exact wf_of_subset hwf (fun e he => (List.mem_filter.mp he).1)
  | insert c' sid pts =>
    simp only [Op.coll?, Option.some.injEq] at hc; subst hc
    have hput : WF { db := (if col.shards = [] then dbPut s.db (key u c') { col with shards := [sid] } else s.db), fs := s.fs } := by
      split
      · exact wf_put hwf ⟨by rw [o.user, o.id], o.user ▸ o.vu, o.id ▸ o.vc, by intro sh hsh; simp at hsh; subst hsh; exact hop⟩
      · exact hwf
    simp only [body, insertBody]
    split
    · exact hwf
    · split
      · exact wf_of_subset hwf (fun e he => he)
      · split <;> exact wf_of_subset hput (fun e he => he)
  | update c' pts =>
    simp only [body, updateBody]
    split
    · exact hwf
    · split <;> exact wf_of_subset hwf (fun e he => he)
  | delete c' ids =>
    simp only [body, deleteBody]
    split
    · exact hwf
    · split <;> exact wf_of_subset hwf (fun e he => he)
  | search c' => exact wf_of_subset hwf (fun e he => he)

/-- a client is in a good state: the shard-name oracles of its requests are plain names, and a
record it holds in flight is a record of ITS tenant for the collection the request names -/
def Client.Good (t : Client) : Prop :=
  (∀ op ∈ t.todo, OpOk op) ∧
  ∀ op col, t.inflight = some (op, col) → OpOk op ∧ ∃ c, op.coll? = some c ∧ Owns t.user c col

omit hd in
/-- `step` on a collection-scoped request is the look-up followed at once by the handler -/
theorem step_eq_body {s : Node} {u c : Bytes} {op : Op} (hc : op.coll? = some c) (hacc : acceptUser cfg.variant u = true) :
    step cfg s u op = if !validUriId c then (s, .bad) else
      match dbGet s.db (key u c) with
      | none => (s, .notFound)
      | some col => body cfg s u op col := by
  cases op <;> simp only [Op.coll?, Option.some.injEq, reduceCtorEq] at hc
  all_goals (subst hc; simp only [step, hacc, withColl, body, Bool.not_true, Bool.false_eq_true, if_false])
  all_goals (split <;> try rfl)
  all_goals (split <;> rfl)

omit hd in
theorem cstep_user (s : Node) (t : Client) : (cstep cfg s t).2.user = t.user := by
  unfold cstep
  split
  · rfl
  · split
    · rfl
    · split
      · rfl
      · split
        · rfl
        · split
          · rfl
          · split <;> rfl

omit hd in
theorem wf_cstep {s : Node} {t : Client} (hwf : WF s) (hacc : acceptUser cfg.variant t.user = true → validSeg t.user) (hg : t.Good) :
    WF (cstep cfg s t).1 ∧ (cstep cfg s t).2.Good := by
  unfold cstep
  split
  · rename_i op col hin
    obtain ⟨hop, c, hc, o⟩ := hg.2 op col hin
    exact ⟨wf_body hwf hc o hop, ⟨hg.1, fun op col h => by simp at h⟩⟩
  · rename_i hin
    split
    · exact ⟨hwf, hg⟩
    · rename_i op rest htodo
      have hrest : ∀ op' ∈ rest, OpOk op' := fun op' h' => hg.1 op' (by rw [htodo]; simp [h'])
      have hop : OpOk op := hg.1 op (by rw [htodo]; simp)
      have gnone : ∀ (g : List Resp), Client.Good { t with todo := rest, got := g } :=
        fun g => ⟨hrest, fun op col h => by simp only at h; rw [hin] at h; cases h⟩
      split
      · exact ⟨hwf, gnone _⟩
      · rename_i hacc'
        have hacc'' : acceptUser cfg.variant t.user = true := by simpa using hacc'
        split
        · exact ⟨wf_step hwf hacc hop, gnone _⟩
        · rename_i c hc
          split
          · exact ⟨hwf, gnone _⟩
          · split
            · exact ⟨hwf, gnone _⟩
            · rename_i col hget
              refine ⟨hwf, hrest, ?_⟩
              intro op' col' h
              simp only [Option.some.injEq, Prod.mk.injEq] at h
              obtain ⟨rfl, rfl⟩ := h
              exact ⟨hop, c, hc, owns_of_get hwf (hacc hacc'') hget⟩

/-- a step of a client of another tenant leaves `b`'s part of the node alone -/
theorem cstep_other {s : Node} {t : Client} {b : Bytes} (hwf : WF s) (hacc : acceptUser cfg.variant t.user = true → validSeg t.user)
    (hg : t.Good) (hb : validSeg b) (hab : b ≠ t.user) :
    proj cfg b (cstep cfg s t).1 = proj cfg b s := by
  unfold cstep
  split
  · rename_i op col hin
    obtain ⟨hop, c, hc, o⟩ := hg.2 op col hin
    exact body_other hd hc o hop hb hab
  · split
    · rfl
    · rename_i op rest htodo
      have hop : OpOk op := hg.1 op (by rw [htodo]; simp)
      split
      · rfl
      · split
        · exact step_other hd hwf hacc hb hab hop
        · split
          · rfl
          · split <;> rfl

/-- a step of a client of `b` sees, and changes, only `b`'s part of the node -/
theorem cstep_self {s : Node} {t : Client} {b : Bytes} (hwf : WF s) (hacc : acceptUser cfg.variant b = true → validSeg b)
    (hg : t.Good) (hu : t.user = b) :
    cstep cfg (proj cfg b s) t = (proj cfg b (cstep cfg s t).1, (cstep cfg s t).2) := by
  subst hu
  unfold cstep
  split
  · rename_i op col hin
    obtain ⟨hop, c, hc, o⟩ := hg.2 op col hin
    simp only [body_self hd hc o hop]
  · split
    · rfl
    · rename_i op rest htodo
      have hop : OpOk op := hg.1 op (by rw [htodo]; simp)
      split
      · rfl
      · rename_i hacc'
        have hv : validSeg t.user := hacc (by simpa using hacc')
        split
        · simp only [step_self hd hwf hacc hop]
        · rename_i c hc
          split
          · rfl
          · have hk : inDb t.user (key t.user c) = true := by
              rw [inDb_key (validSeg_slash hv) (validSeg_slash hv)]; simp
            have h1 : dbGet (proj cfg t.user s).db (key t.user c) = dbGet s.db (key t.user c) := by
              rw [proj_eq]; exact dbGet_res (inDb t.user) s.db hk
            rw [h1]
            split <;> rfl

/-- two lists of clients that agree slot by slot on the tenant, and entirely on the clients of `b` -/
def agreeAt (b : Bytes) : Option Client → Option Client → Prop
  | some t, some t' => t.user = t'.user ∧ (t.user = b → t = t')
  | none, none => True
  | _, _ => False
def Agree (b : Bytes) (ts tp : List Client) : Prop := ∀ i : Nat, agreeAt b ts[i]? tp[i]?

omit hd in
theorem agree_refl (b : Bytes) (ts : List Client) : Agree b ts ts := by
  intro i; cases h : ts[i]? <;> simp [agreeAt]

omit hd in
theorem agree_set_both {b : Bytes} {ts tp : List Client} (h : Agree b ts tp) (i : Nat) (t : Client) :
    Agree b (ts.set i t) (tp.set i t) := by
  intro j
  have hj := h j
  have hi := h i
  by_cases e : i = j
  · subst e
    simp only [List.getElem?_set_self']
    cases h1 : ts[i]? <;> cases h2 : tp[i]? <;> simp [h1, h2, agreeAt] at hi ⊢
  · simp only [List.getElem?_set_ne e]; exact hj

omit hd in
theorem agree_set_left {b : Bytes} {ts tp : List Client} (h : Agree b ts tp) {i : Nat} {t' : Client} (ht' : tp[i]? = some t')
    (t : Client) (hu : t.user = t'.user) (hnb : t.user ≠ b) : Agree b (ts.set i t) tp := by
  intro j
  have hj := h j
  by_cases e : i = j
  · subst e
    have hi := h i
    simp only [List.getElem?_set_self', ht'] at hi ⊢
    cases h1 : ts[i]? <;> simp [h1, agreeAt] at hi ⊢
    exact ⟨hu, fun hb' => absurd hb' hnb⟩
  · simp only [List.getElem?_set_ne e]; exact hj

theorem crun_proj {b : Bytes} (hb : validSeg b) (hacc : ∀ u, acceptUser cfg.variant u = true → validSeg u) :
    ∀ (sched : List Nat) (s : Node) (ts tp : List Client), WF s → (∀ t ∈ ts, t.Good) → Agree b ts tp →
      proj cfg b (crun cfg s ts sched).1 = (crunOnly cfg b (proj cfg b s) tp sched).1 ∧
      Agree b (crun cfg s ts sched).2 (crunOnly cfg b (proj cfg b s) tp sched).2
  | [], s, ts, tp, _, _, hag => ⟨rfl, hag⟩
  | i :: rest, s, ts, tp, hwf, hgood, hag => by
    have hi := hag i
    unfold crun crunOnly
    cases h1 : ts[i]? with
    | none =>
      cases h2 : tp[i]? with
      | none => simp only; exact crun_proj hb hacc rest s ts tp hwf hgood hag
      | some t' => simp [h1, h2, agreeAt] at hi
    | some t =>
      cases h2 : tp[i]? with
      | none => simp [h1, h2, agreeAt] at hi
      | some t' =>
        simp only [h1, h2, agreeAt] at hi
        obtain ⟨hu, hsame⟩ := hi
        have htmem : t ∈ ts := List.mem_of_getElem? h1
        have hg := hgood t htmem
        have hw := wf_cstep (cfg := cfg) (s := s) hwf (hacc t.user) hg
        have hgood' : ∀ x ∈ ts.set i (cstep cfg s t).2, x.Good := by
          intro x hx
          rcases List.mem_or_eq_of_mem_set hx with hx | hx
          · exact hgood x hx
          · rw [hx]; exact hw.2
        simp only
        by_cases hub : t.user = b
        · have htt := hsame hub
          subst htt
          simp only [hub, if_true]
          rw [cstep_self hd hwf (hacc b) hg hub]
          exact crun_proj hb hacc rest _ _ _ hw.1 hgood' (agree_set_both hag i _)
        · have hub' : ¬ t'.user = b := fun e => hub (hu.trans e)
          simp only [hub', if_false]
          have hother := cstep_other hd (s := s) hwf (hacc t.user) hg hb (fun e => hub e.symm)
          have ih := crun_proj hb hacc rest (cstep cfg s t).1 (ts.set i (cstep cfg s t).2) tp hw.1 hgood'
            (agree_set_left hag h2 _ ((cstep_user s t).trans hu) (by rw [cstep_user]; exact hub))
          rw [hother] at ih
          exact ih

end conc
end Sema.C16
