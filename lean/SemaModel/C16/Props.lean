/-
C16 — tenants are isolated from each other.

Property theorems only (with non-vacuity examples).  Model: SemaModel/C16/Model.lean; the constants
and the way keys / prefixes / paths are concatenated are pinned to the source by the regenerated
table SemaModel/Generated/FactsC16.lean (T2); model and node are run on the same HTTP histories by
go/cmd/c16 (T3).

The statements are about `acceptUser v` (the header middleware), `validCollId` (the collection id
validation of the v1 / v2 create handlers), `key`, `scanPrefix`, `joinPath` (= filepath.Join) and
the operations `step` of one node.  Two variants of the middleware are modelled:
`Variant.fixed` (the repaired tree: "", ".", ".." and ids containing '/' or '\' are refused) for
which the full property is proved, and `Variant.pinned` (only "" is refused) for which the negation
is proved with a concrete witness, plus the partial theorem under the hypothesis the proof forces.
-/
import SemaModel.C16.Lemmas
namespace Sema.C16
open Sema

/-! ### T2 pins (`Generated/FactsC16.lean`): see `Pins.lean`, a module of its own built by C16's check only -/

/-- "userCollections" as bytes -/
def userColsDirBytes : Bytes :=
  [0x75#8, 0x73#8, 0x65#8, 0x72#8, 0x43#8, 0x6f#8, 0x6c#8, 0x6c#8, 0x65#8, 0x63#8, 0x74#8, 0x69#8, 0x6f#8, 0x6e#8, 0x73#8]
theorem userColsDir_valid : validSeg userColsDirBytes := by decide

/-! ### what the HTTP layer lets through -/

/-- the repaired middleware only lets plain directory names through; in particular delimiter-free ones -/
theorem C16_accept_valid {u : Bytes} (h : acceptUser .fixed u = true) : validSeg u ∧ slash ∉ u :=
  ⟨acceptFixed_validSeg h, validSeg_slash (acceptFixed_validSeg h)⟩

/-- conversely every plain name without a backslash is accepted: the repair refuses nothing else -/
theorem C16_accept_complete {u : Bytes} (h : validSeg u) (hb : bslash ∉ u) : acceptUser .fixed u = true := by
  obtain ⟨h1, h2, h3, h4⟩ := h
  simp [acceptUser, h1, h2, h3, h4, hb]

/-- a collection id accepted by the v1 or the v2 create handler is a plain directory name -/
theorem C16_collid_valid {v1 : Bool} {c : Bytes} (h : validCollId v1 c = true) : validSeg c :=
  validCollId_validSeg h

example : acceptUser .fixed [0x61#8, 0x2e#8, 0x62#8] = true ∧ validCollId false [0x61#8, 0x62#8, 0x63#8] = true := by decide

/-! ### keys and scan prefixes -/

/-- `key u c = key u' c' → u = u' ∧ c = c'` for delimiter-free user ids (collection ids arbitrary:
the URI middleware lets any 3..24 bytes through) -/
theorem C16_key_inj {u c u' c' : Bytes} (hu : slash ∉ u) (hu' : slash ∉ u') (h : key u c = key u' c') : u = u' ∧ c = c' :=
  key_inj' hu hu' h

/-- the scan prefix of `u` is a prefix of the key of `(u', c)` iff `u' = u` — also when one id is a
prefix of the other or of a `user ++ collection` concatenation -/
theorem C16_prefix {u u' c : Bytes} (hu : slash ∉ u) (hu' : slash ∉ u') : scanPrefix u <+: key u' c ↔ u' = u := by
  rw [prefix_key_iff hu hu']; exact eq_comm

-- "ab" vs "abc"+"def" / "abcd"+"ef": prefixes of each other and of concatenations
example : ¬ (scanPrefix [0x61#8, 0x62#8] <+: key [0x61#8, 0x62#8, 0x63#8] [0x64#8, 0x65#8, 0x66#8]) := by decide
example : key [0x61#8, 0x62#8] [0x63#8, 0x64#8, 0x65#8] ≠ key [0x61#8, 0x62#8, 0x63#8] [0x64#8, 0x65#8] := by decide

/-! ### shard directories -/

/-- distinct (user, collection, shard) triples of plain names give distinct directories, none inside
another's.  The hypotheses `validSeg u`, `validSeg u'` are what the proof forces beyond "no '/'":
they exclude exactly "", "." and ".." (see `C16_pinned_path_collision`). -/
theorem C16_path_inj {cfg : Cfg} (hd : validSeg cfg.dir) {u c s u' c' s' : Bytes} {l l' : List Bytes}
    (hu : validSeg u) (hc : validSeg c) (hs : validSeg s) (hu' : validSeg u') (hc' : validSeg c') (hs' : validSeg s')
    (h : shardDir cfg ⟨u, c, l⟩ s <+: shardDir cfg ⟨u', c', l'⟩ s') : u = u' ∧ c = c' ∧ s = s' := by
  have o : Owns u c ⟨u, c, []⟩ := ⟨rfl, rfl, hu, hc, by simp⟩
  have o' : Owns u' c' ⟨u', c', []⟩ := ⟨rfl, rfl, hu', hc', by simp⟩
  have e1 : shardDir cfg ⟨u, c, l⟩ s = shardDir cfg ⟨u, c, []⟩ s := rfl
  have e2 : shardDir cfg ⟨u', c', l'⟩ s' = shardDir cfg ⟨u', c', []⟩ s' := rfl
  rw [e1, e2, shardDir_eq hd o hs, shardDir_eq hd o' hs'] at h
  have h2 := h.eq_of_length (by simp)
  simpa using h2

/-- the collection directory and the user directory of one tenant contain no shard directory of another -/
theorem C16_path_not_nested {cfg : Cfg} (hd : validSeg cfg.dir) {u c u' c' s' : Bytes} {l l' : List Bytes}
    (hu : validSeg u) (hc : validSeg c) (hu' : validSeg u') (hc' : validSeg c') (hs' : validSeg s') :
    (collDir cfg ⟨u, c, l⟩ <+: shardDir cfg ⟨u', c', l'⟩ s' → u = u' ∧ c = c') ∧
    (userDir cfg u <+: shardDir cfg ⟨u', c', l'⟩ s' → u = u') := by
  have o : Owns u c ⟨u, c, []⟩ := ⟨rfl, rfl, hu, hc, by simp⟩
  have o' : Owns u' c' ⟨u', c', []⟩ := ⟨rfl, rfl, hu', hc', by simp⟩
  have e1 : collDir cfg ⟨u, c, l⟩ = collDir cfg ⟨u, c, []⟩ := rfl
  have e2 : shardDir cfg ⟨u', c', l'⟩ s' = shardDir cfg ⟨u', c', []⟩ s' := rfl
  rw [e1, e2, collDir_eq hd o, shardDir_eq hd o' hs']
  constructor
  · intro h
    have h1 : cfg.root ++ [cfg.dir, u, c] <+: cfg.root ++ [cfg.dir, u', c'] :=
      List.prefix_of_prefix_length_le h ⟨[s'], by simp⟩ (by simp)
    have h2 := h1.eq_of_length (by simp)
    simpa using h2
  · intro h
    have := inFs_under (cfg := cfg) (b := u) (u := u') (p := cfg.root ++ [cfg.dir, u', c', s']) ⟨[c', s'], by simp⟩
    unfold inFs at this
    simpa [h] using this

/-- without the forced hypothesis the statement is false: the shard directories of user "." in
collection "xyz" lie inside the user directory of user "xyz" -/
theorem C16_pinned_path_collision :
    let cfg : Cfg := ⟨[[0x64#8]], userColsDirBytes, .pinned, 1, 1⟩
    let xyz : Bytes := [0x78#8, 0x79#8, 0x7a#8]
    acceptUser .pinned [dot] = true ∧ slash ∉ [dot] ∧
    userDir cfg xyz <+: shardDir cfg ⟨[dot], xyz, []⟩ [0x73#8] ∧
    collDir cfg ⟨[dot], xyz, []⟩ = userDir cfg xyz ∧
    collDir cfg ⟨[dot, dot], userColsDirBytes, []⟩ = cfg.root ++ [cfg.dir] := by decide

/-! ### the invariant of the node database -/

theorem C16_wf_empty : WF {} := by intro e he; simp at he

/-- every reachable node database is well formed: each record sits under its own key with plain
names (user accepted by the middleware, collection id accepted by the create handler) -/
theorem C16_wf_step {cfg : Cfg} {s : Node} {u : Bytes} {op : Op} (hwf : WF s)
    (hu : acceptUser cfg.variant u = true → validSeg u) (hop : OpOk op) : WF (step cfg s u op).1 :=
  wf_step hwf hu hop

/-! ### non-interference (repaired middleware) -/

/-- **One step.**  For every operation `op` of any user `a ≠ b` — whatever `a` is, accepted or not —
the part of the node that belongs to `b` (records under `b`'s scan prefix = what `b` lists and is
charged for; shard directories below `b`'s directory = what `b` reads, and what is on disk) is
unchanged. -/
theorem C16_noninterference {cfg : Cfg} (hv : cfg.variant = .fixed) (hd : validSeg cfg.dir) {s : Node} {a b : Bytes} {op : Op}
    (hwf : WF s) (hb : acceptUser .fixed b = true) (hab : a ≠ b) (hop : OpOk op) :
    proj cfg b (step cfg s a op).1 = proj cfg b s :=
  step_other hd hwf (fun h => acceptFixed_validSeg (hv ▸ h)) (acceptFixed_validSeg hb) (fun e => hab e.symm) hop

/-- **What `b` sees is a function of `b`'s part.**  The response to a request of `b`, and `b`'s part
afterwards, are the same whether the request runs on the whole node or on `b`'s part alone. -/
theorem C16_self {cfg : Cfg} (hv : cfg.variant = .fixed) (hd : validSeg cfg.dir) {s : Node} {b : Bytes} {op : Op}
    (hwf : WF s) (hop : OpOk op) :
    step cfg (proj cfg b s) b op = (proj cfg b (step cfg s b op).1, (step cfg s b op).2) :=
  step_self hd hwf (fun h => acceptFixed_validSeg (hv ▸ h)) hop

/-- **All interleaved histories.**  For every history `H` of requests by arbitrarily many users
(any ids, any interleaving) from any well-formed node: the responses `b` receives, and `b`'s part
of the final node, are exactly those of running `b`'s own requests alone on `b`'s part. -/
theorem C16_histories {cfg : Cfg} (hv : cfg.variant = .fixed) (hd : validSeg cfg.dir) {s : Node} {b : Bytes}
    (H : List (Bytes × Op)) (hwf : WF s) (hb : acceptUser .fixed b = true) (hop : ∀ x ∈ H, OpOk x.2) :
    respTo b H (run cfg s H).2 = (run cfg (proj cfg b s) (H.filter fun x => x.1 = b)).2 ∧
    proj cfg b (run cfg s H).1 = (run cfg (proj cfg b s) (H.filter fun x => x.1 = b)).1 := by
  have hok : HistOk cfg H := fun x hx => ⟨fun h => acceptFixed_validSeg (hv ▸ h), hop x hx⟩
  have := run_proj hd (acceptFixed_validSeg hb) H s hwf hok
  rw [this]; exact ⟨rfl, rfl⟩

/-- a user the middleware refuses changes nothing and learns nothing -/
theorem C16_rejected {cfg : Cfg} {s : Node} {u : Bytes} {op : Op} (h : acceptUser cfg.variant u = false) :
    step cfg s u op = (s, .rejected) := by
  simp [step, h]

/-! #### non-vacuity: a concrete interleaved history on the repaired variant -/

def exCfg (v : Variant) : Cfg := ⟨[[0x64#8]], userColsDirBytes, v, 2, 10⟩
def exXyz : Bytes := [0x78#8, 0x79#8, 0x7a#8]
def exAbc : Bytes := [0x61#8, 0x62#8, 0x63#8]
/-- "xyz" creates abc and inserts a point; "." creates xyz, inserts, drops it; "xy" (a prefix of "xyz")
creates abc too; then "xyz" searches -/
def exHist : List (Bytes × Op) :=
  [(exXyz, .create false exAbc), (exXyz, .insert exAbc [0x73#8, 0x30#8] [(1, 5)]),
   ([dot], .create false exXyz), ([dot], .insert exXyz [0x73#8, 0x31#8] [(9, 9)]), ([dot], .drop exXyz),
   ([0x78#8, 0x79#8], .create false exAbc), ([0x78#8, 0x79#8], .insert exAbc [0x73#8, 0x32#8] [(1, 7)]),
   (exXyz, .search exAbc), (exXyz, .list)]

example : acceptUser .fixed exXyz = true ∧ validSeg (exCfg .fixed).dir ∧ (∀ x ∈ exHist, OpOk x.2) ∧
    respTo exXyz exHist (run (exCfg .fixed) {} exHist).2 = [.ok, .ok, .points [(1, 5)], .cols [exAbc]] := by decide

/-! ### the pinned middleware: the forced hypothesis is a real hole -/

/-- **Negation on the pinned variant** (concrete witness, checked by evaluation): with
`X-User-Id: .` — a delimiter-free id — creating collection `xyz`, inserting one point and deleting
the collection removes the shard directory of user `xyz`; `xyz`'s next search answers differently
from the run without "." (the point is gone) -/
theorem C16_pinned_violation :
    acceptUser .pinned [dot] = true ∧ slash ∉ ([dot] : Bytes) ∧ WF {} ∧ (∀ x ∈ exHist, OpOk x.2) ∧
    respTo exXyz exHist (run (exCfg .pinned) {} exHist).2 ≠ (run (exCfg .pinned) {} (exHist.filter fun x => x.1 = exXyz)).2 ∧
    proj (exCfg .pinned) exXyz (step (exCfg .pinned) (run (exCfg .pinned) {} (exHist.take 4)).1 [dot] (.drop exXyz)).1
      ≠ proj (exCfg .pinned) exXyz (run (exCfg .pinned) {} (exHist.take 4)).1 := by
  refine ⟨by decide, by decide, C16_wf_empty, by decide, by decide, ?_⟩
  intro h
  have := congrArg (fun n => n.fs.length) h
  revert this
  decide

/-- **Partial theorem for the pinned variant**: the same non-interference statements under the
additional hypothesis that every issuing user id is a plain name (`validSeg`: excludes ".", ".."
and ids with '/'), for all interleaved histories. -/
theorem C16_histories_pinned_partial {cfg : Cfg} (hd : validSeg cfg.dir) {s : Node} {b : Bytes}
    (H : List (Bytes × Op)) (hwf : WF s) (hb : validSeg b)
    (hH : ∀ x ∈ H, validSeg x.1 ∧ OpOk x.2) :
    respTo b H (run cfg s H).2 = (run cfg (proj cfg b s) (H.filter fun x => x.1 = b)).2 ∧
    proj cfg b (run cfg s H).1 = (run cfg (proj cfg b s) (H.filter fun x => x.1 = b)).1 := by
  have hok : HistOk cfg H := fun x hx => ⟨fun _ => (hH x hx).1, (hH x hx).2⟩
  have := run_proj hd hb H s hwf hok
  rw [this]; exact ⟨rfl, rfl⟩

/-! ### concurrent histories (repaired middleware)

Any number of client connections of any tenants, each sending its own requests one after the other;
a collection-scoped request takes two atomic steps (the look-up of the collection record, then the
handler with that record), and a schedule — ANY list of client indices — decides who moves next. -/

/-- a client that has not started yet is in a good state if its shard-name oracles are plain names -/
theorem C16_client_fresh {u : Bytes} {todo : List Op} (h : ∀ op ∈ todo, OpOk op) :
    Client.Good { user := u, todo := todo } :=
  ⟨h, fun _ _ e => by simp at e⟩

/-- the two steps of a request, taken back to back, are the atomic `step` of the sequential model
(so `C16_histories` is the special case of schedules that never interrupt a request) -/
theorem C16_atomic (cfg : Cfg) (s : Node) (u : Bytes) (op : Op) (rest : List Op) (got : List Resp) :
    let r1 := cstep cfg s { user := u, todo := op :: rest, got := got }
    (if r1.2.inflight.isSome then cstep cfg r1.1 r1.2 else r1) =
      ((step cfg s u op).1, { user := u, todo := rest, inflight := none, got := (step cfg s u op).2 :: got }) := by
  simp only [cstep]
  by_cases hacc : acceptUser cfg.variant u = true
  · simp only [hacc, Bool.not_true, Bool.false_eq_true, if_false]
    cases hc : op.coll? with
    | none => simp
    | some c =>
      simp only [step_eq_body hc hacc]
      by_cases hv : validUriId c = true
      · simp only [hv, Bool.not_true, Bool.false_eq_true, if_false]
        cases hget : dbGet s.db (key u c) <;> simp
      · simp [hv]
  · simp [hacc, step]

/-- **Non-interference for concurrent histories.**  For every schedule, every set of clients (of
any tenants, in any state reachable from fresh clients) and every well-formed node: the part of the
node that belongs to `b`, and the complete state of every client of `b` — the responses it has
received, what it has in flight, what it has still to send — are exactly those of the run in which
only `b`'s clients ever move, on `b`'s part of the node alone. -/
theorem C16_concurrent {cfg : Cfg} (hv : cfg.variant = .fixed) (hd : validSeg cfg.dir) {s : Node} {b : Bytes}
    (ts : List Client) (sched : List Nat) (hwf : WF s) (hb : acceptUser .fixed b = true) (hg : ∀ t ∈ ts, t.Good) :
    proj cfg b (crun cfg s ts sched).1 = (crunOnly cfg b (proj cfg b s) ts sched).1 ∧
    ∀ (i : Nat) (t : Client), (crun cfg s ts sched).2[i]? = some t → t.user = b →
      (crunOnly cfg b (proj cfg b s) ts sched).2[i]? = some t := by
  have h := crun_proj hd (acceptFixed_validSeg hb) (fun u hu => acceptFixed_validSeg (hv ▸ hu)) sched s ts ts hwf hg (agree_refl b ts)
  refine ⟨h.1, fun i t ht hu => ?_⟩
  have hi := h.2 i
  rw [ht] at hi
  cases h2 : (crunOnly cfg b (proj cfg b s) ts sched).2[i]? with
  | none => simp [h2, agreeAt] at hi
  | some t' =>
    simp only [h2, agreeAt] at hi
    rw [hi.2 hu]

/-- the run in which only `b`'s clients move depends on the schedule only through the order of
`b`'s own clients' steps -/
theorem C16_only_filter (cfg : Cfg) (b : Bytes) : ∀ (sched : List Nat) (s : Node) (ts : List Client),
    crunOnly cfg b s ts sched = crunOnly cfg b s ts (sched.filter fun i => decide ((ts.map (·.user))[i]? = some b))
  | [], _, _ => rfl
  | i :: rest, s, ts => by
    cases h1 : ts[i]? with
    | none =>
      have : (ts.map (·.user))[i]? = none := by simp [h1]
      simp only [List.filter_cons, this, crunOnly, h1]
      simpa using C16_only_filter cfg b rest s ts
    | some t =>
      have hm : (ts.map (·.user))[i]? = some t.user := by simp [h1]
      by_cases hub : t.user = b
      · have hset : (ts.set i (cstep cfg s t).2).map (·.user) = ts.map (·.user) := by
          apply List.ext_getElem?
          intro j
          by_cases e : i = j
          · subst e
            simp [List.getElem?_set_self', h1, cstep_user]
          · simp [List.getElem?_set_ne e]
        have ih := C16_only_filter cfg b rest (cstep cfg s t).1 (ts.set i (cstep cfg s t).2)
        rw [hset] at ih
        simp only [List.filter_cons, hm, hub, decide_true, if_true, crunOnly, h1]
        exact ih
      · have : ¬ (some t.user = some b) := fun e => hub (by simpa using e)
        simp only [List.filter_cons, hm, this, decide_false, Bool.false_eq_true, if_false, crunOnly, h1, hub]
        exact C16_only_filter cfg b rest s ts

/-- **Any interleaving.**  Two schedules that order the steps of `b`'s own clients in the same way —
and are otherwise arbitrary: other tenants' clients may be added, removed, moved between and into the
middle of `b`'s requests — give every client of `b` the same responses and leave `b`'s part of the
node the same. -/
theorem C16_any_interleaving {cfg : Cfg} (hv : cfg.variant = .fixed) (hd : validSeg cfg.dir) {s : Node} {b : Bytes}
    (ts : List Client) (sched sched' : List Nat) (hwf : WF s) (hb : acceptUser .fixed b = true) (hg : ∀ t ∈ ts, t.Good)
    (hsame : (sched.filter fun i => decide ((ts.map (·.user))[i]? = some b)) = (sched'.filter fun i => decide ((ts.map (·.user))[i]? = some b))) :
    proj cfg b (crun cfg s ts sched).1 = proj cfg b (crun cfg s ts sched').1 ∧
    ∀ (i : Nat) (t : Client), (crun cfg s ts sched).2[i]? = some t → t.user = b → ∃ t' : Client, (crun cfg s ts sched').2[i]? = some t' ∧ t'.got = t.got := by
  have h1 := C16_concurrent hv hd ts sched hwf hb hg
  have h2 := crun_proj hd (acceptFixed_validSeg hb) (fun u hu => acceptFixed_validSeg (hv ▸ hu)) sched' s ts ts hwf hg (agree_refl b ts)
  have e : crunOnly cfg b (proj cfg b s) ts sched = crunOnly cfg b (proj cfg b s) ts sched' := by
    rw [C16_only_filter cfg b sched, C16_only_filter cfg b sched', hsame]
  refine ⟨by rw [h1.1, h2.1, e], fun i t ht hu => ?_⟩
  have h3 := h1.2 i t ht hu
  rw [e] at h3
  have hi := h2.2 i
  rw [h3] at hi
  cases h4 : (crun cfg s ts sched').2[i]? with
  | none => simp [h4, agreeAt] at hi
  | some t' =>
    simp only [h4, agreeAt] at hi
    refine ⟨t', rfl, ?_⟩
    have : t'.user = b := hi.1.trans hu
    rw [hi.2 this]

/-! #### non-vacuity: the tenants of the demonstration, look-ups interleaved -/
def exAcme : Bytes := [0x61#8, 0x63#8, 0x6d#8, 0x65#8]
def exAcme1 : Bytes := [0x61#8, 0x63#8, 0x6d#8, 0x65#8, 0x31#8]
def ex1data : Bytes := [0x31#8, 0x64#8, 0x61#8, 0x74#8, 0x61#8]
def exData : Bytes := [0x64#8, 0x61#8, 0x74#8, 0x61#8]
/-- "acme" owns "1data" (point 1 ↦ 11), "acme1" owns "data" (point 1 ↦ 22): `acme ++ 1data = acme1 ++ data` -/
def exTwinNode : Node := (run (exCfg .fixed) {}
  [(exAcme, .create false ex1data), (exAcme, .insert ex1data [0x73#8, 0x30#8] [(1, 11)]),
   (exAcme1, .create false exData), (exAcme1, .insert exData [0x73#8, 0x31#8] [(1, 22)])]).1
def exClients : List Client := [{ user := exAcme, todo := [.search ex1data, .update ex1data [(1, 12)]] }, { user := exAcme1, todo := [.search exData] }]

example : exAcme ++ ex1data = exAcme1 ++ exData ∧ acceptUser .fixed exAcme = true ∧ acceptUser .fixed exAcme1 = true := by decide
example : ∀ t ∈ exClients, t.Good := by
  intro t ht
  simp only [exClients, List.mem_cons, List.mem_nil_iff, or_false] at ht
  rcases ht with rfl | rfl <;> exact C16_client_fresh (by decide)
/-- both look-ups first, then both handlers, then acme's update in two steps: everybody gets his own points -/
example : ((crun (exCfg .fixed) exTwinNode exClients [0, 1, 1, 0, 0, 0]).2.map (·.got)) =
    [[.failed [], .points [(1, 11)]], [.points [(1, 22)]]] := by decide
end Sema.C16
