/- line protocol for C16: HTTP histories against the model of one node (see go/cmd/c16) -/
import SemaModel.Base.DriverUtil
import SemaModel.C16.Model
namespace Sema.C16
open Sema

def hx? (s : String) : Option Bytes := if s == "-" then some [] else bytesOfHex s
def hx (b : Bytes) : String := if b.isEmpty then "-" else hexOfBytes b

def kv (toks : List String) (k : String) : Option String :=
  toks.findSome? fun t => if t.startsWith (k ++ "=") then some ((t.drop (k.length + 1)).toString) else none

def parsePts (s : String) : Option (List Pt) :=
  if s == "-" then some [] else
  (s.splitOn ",").mapM fun p => match p.splitOn ":" with
    | [a, b] => do let i ← a.toNat?; let v ← b.toInt?; pure (i, v)
    | _ => none

def parseIds (s : String) : Option (List Nat) :=
  if s == "-" then some [] else (s.splitOn ",").mapM (·.toNat?)

def showIds (l : List Nat) : String := if l.isEmpty then "-" else ",".intercalate (l.map toString)

def insertSortedBy {α} (lt : α → α → Bool) (x : α) : List α → List α
  | [] => [x]
  | y :: ys => if lt x y then x :: y :: ys else y :: insertSortedBy lt x ys
def sortBy {α} (lt : α → α → Bool) (l : List α) : List α := l.foldr (insertSortedBy lt) []

def showResp : Resp → String
  | .rejected => "rejected"
  | .bad => "bad"
  | .ok => "ok"
  | .exists_ => "exists"
  | .quota => "quota"
  | .notFound => "notfound"
  | .accepted => "accepted"
  | .cols ids => "cols " ++ (let l := sortBy (fun a b => a < b) (ids.map hx); if l.isEmpty then "-" else ",".intercalate l)
  | .info counts => "info " ++ showIds counts
  | .insertFailed => "insertfailed"
  | .failed ids => "failed " ++ showIds ids
  | .points pts =>
    let l := sortBy (fun (a b : Pt) => a.1 < b.1) pts
    "points " ++ (if l.isEmpty then "-" else ",".intercalate (l.map fun p => s!"{p.1}:{p.2}"))

structure St where
  cfg : Cfg
  node : Node

def root0 : Path := [[0x72#8]]
def dir0 : Bytes := "userCollections".toUTF8.toList.map fun b => BitVec.ofNat 8 b.toNat

def parseOp (toks : List String) : Option Op :=
  match toks with
  | "create" :: rest => do
    let v ← kv rest "v"; let c ← (kv rest "c") >>= hx?
    pure (.create (v == "1") c)
  | "list" :: _ => some .list
  | "get" :: rest => do let c ← (kv rest "c") >>= hx?; pure (.get c)
  | "drop" :: rest => do let c ← (kv rest "c") >>= hx?; pure (.drop c)
  | "insert" :: rest => do
    let c ← (kv rest "c") >>= hx?; let sid ← (kv rest "sid") >>= hx?; let pts ← (kv rest "pts") >>= parsePts
    pure (.insert c sid pts)
  | "update" :: rest => do
    let c ← (kv rest "c") >>= hx?; let pts ← (kv rest "pts") >>= parsePts
    pure (.update c pts)
  | "delete" :: rest => do
    let c ← (kv rest "c") >>= hx?; let ids ← (kv rest "ids") >>= parseIds
    pure (.delete c ids)
  | "search" :: rest => do let c ← (kv rest "c") >>= hx?; pure (.search c)
  | _ => none

def stepLine (st : St) (line : String) : St × String :=
  let toks := (line.trimAscii.toString.splitOn " ").filter (· ≠ "")
  -- `w=<client>`: a request of the concurrent phase; the model runs the clients' requests in the order
  -- of the lines (one linearisation — C16_concurrent: the answers to a tenant do not depend on it)
  let toks := match toks with
    | t :: rest => if t.startsWith "w=" then rest else toks
    | [] => toks
  match toks with
  | ["storm", _] => (st, "ok")
  | ["variant", v] =>
    ({ st with cfg := { st.cfg with variant := if v == "pinned" then .pinned else .fixed } }, "ok")
  | "reset" :: rest =>
    match (kv rest "maxcols") >>= (·.toNat?), (kv rest "maxpts") >>= (·.toNat?) with
    | some mc, some mp => ({ cfg := { st.cfg with maxCols := mc, maxPts := mp }, node := {} }, "ok")
    | _, _ => (st, "bad-op")
  | ["sleep"] => (st, "ok")
  | "disk" :: rest =>
    match (kv rest "u") >>= hx? with
    | some u =>
      let base := userDir st.cfg u
      let ents := st.node.fs.filterMap fun e =>
        if base <+: e.1 then some ("/".intercalate ((e.1.drop base.length).map hx)) else none
      let l := sortBy (fun a b => a < b) ents
      (st, "dirs " ++ (if l.isEmpty then "-" else ",".intercalate l))
    | none => (st, "bad-op")
  | t :: rest =>
    if t.startsWith "u=" then
      match hx? (t.drop 2).toString, parseOp rest with
      | some u, some op =>
        let r := step st.cfg st.node u op
        ({ st with node := r.1 }, showResp r.2)
      | _, _ => (st, "bad-op")
    else (st, "bad-op")
  | _ => (st, "bad-op")

end Sema.C16

def Sema.C16.driverMain (stdin stdout : IO.FS.Stream) (_args : List String) : IO Unit :=
  Sema.loopState stdin stdout Sema.C16.stepLine
    { cfg := ⟨Sema.C16.root0, Sema.C16.dir0, .fixed, 2, 6⟩, node := {} }
