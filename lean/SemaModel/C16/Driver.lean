/- line protocol for C16: HTTP histories against the model of one node (see go/cmd/c16) -/
import SemaModel.Base.DriverUtil
import SemaModel.C16.Model
namespace Sema.C16
open Sema

def hx? (s : String) : Option Bytes := if s == "-" then some [] else bytesOfHex s
def hx (b : Bytes) : String := if b.isEmpty then "-" else hexOfBytes b

def kv (toks : List String) (k : String) : Option String :=
  toks.findSome? fun t => if t.startsWith (k ++ "=") then some ((t.drop (k.length + 1)).toString) else none

def parsePts (s : String) : Option (List Pt) :=
  if s == "-" then some [] else
  (s.splitOn ",").mapM fun p => match p.splitOn ":" with
    | [a, b] => do let i ← a.toNat?; let v ← b.toInt?; pure (i, v)
    | _ => none

def parseIds (s : String) : Option (List Nat) :=
  if s == "-" then some [] else (s.splitOn ",").mapM (·.toNat?)

def showIds (l : List Nat) : String := if l.isEmpty then "-" else ",".intercalate (l.map toString)

def insertSortedBy {α} (lt : α → α → Bool) (x : α) : List α → List α
  | [] => [x]
  | y :: ys => if lt x y then x :: y :: ys else y :: insertSortedBy lt x ys
def sortBy {α} (lt : α → α → Bool) (l : List α) : List α := l.foldr (insertSortedBy lt) []

def showResp : Resp → String
  | .rejected => "rejected"
  | .bad => "bad"
  | .ok => "ok"
  | .exists_ => "exists"
  | .quota => "quota"
  | .notFound => "notfound"
  | .accepted => "accepted"
  | .cols ids => "cols " ++ (let l := sortBy (fun a b => a < b) (ids.map hx); if l.isEmpty then "-" else ",".intercalate l)
  | .info counts => "info " ++ showIds counts
  | .insertFailed => "insertfailed"
  | .failed ids => "failed " ++ showIds ids
  | .points pts =>
    let l := sortBy (fun (a b : Pt) => a.1 < b.1) pts
    "points " ++ (if l.isEmpty then "-" else ",".intercalate (l.map fun p => s!"{p.1}:{p.2}"))

structure St where
  cfg : Cfg
  node : Node

def root0 : Path := [[0x72#8]]
def dir0 : Bytes := "userCollections".toUTF8.toList.map fun b => BitVec.ofNat 8 b.toNat

def parseOp (toks : List String) : Option Op :=
  match toks with
  | "create" :: rest => do
    let v ← kv rest "v"; let c ← (kv rest "c") >>= hx?
    pure (.create (v == "1") c)
  | "list" :: _ => some .list
  | "get" :: rest => do let c ← (kv rest "c") >>= hx?; pure (.get c)
  | "drop" :: rest => do let c ← (kv rest "c") >>= hx?; pure (.drop c)
  | "insert" :: rest => do
    let c ← (kv rest "c") >>= hx?; let sid ← (kv rest "sid") >>= hx?; let pts ← (kv rest "pts") >>= parsePts
    pure (.insert c sid pts)
  | "update" :: rest => do
    let c ← (kv rest "c") >>= hx?; let pts ← (kv rest "pts") >>= parsePts
    pure (.update c pts)
  | "delete" :: rest => do
    let c ← (kv rest "c") >>= hx?; let ids ← (kv rest "ids") >>= parseIds
    pure (.delete c ids)
  | "search" :: rest => do let c ← (kv rest "c") >>= hx?; pure (.search c)
  | _ => none

/-! ### the concurrent phase: the two-atomic-step model `crun` on the schedules the storm produced

Between `storm begin` and `storm end` every line is `w=<client> u=… <op> t=<t0>:<t1> r=<response>`: a request
of the concurrent phase with the values of a global sequence counter the harness's client wrapper read just
before sending it and just after receiving the answer, and the answer the real node gave.  Request A is known
to precede request B when `t1(A) < t0(B)`; requests whose windows overlap were in flight together, in an order
nobody observed.  The driver looks for SOME schedule of `crun` (the transition system of `C16_concurrent` /
`C16_any_interleaving`: a collection-scoped request = look-up step + handler step) that respects this partial
order and the order of each client's own requests and in which every request gets the observed answer:
depth-first, candidates ordered by the time stamp of their next event (so the first path is "look-up at t0,
handler at t1"), pruned at the first answer that differs, with a step budget.  The schedule found is then run
through `crun` itself and the answers printed are read off the clients `crun` returns. -/

instance : Inhabited Client := ⟨{ user := [], todo := [] }⟩

structure SReq where
  client : Nat
  op : Op
  t0 : Nat
  t1 : Nat
  obs : String

instance : Inhabited SReq := ⟨{ client := 0, op := .list, t0 := 0, t1 := 0, obs := "" }⟩

def parseStormLine (line : String) : Option (Nat × Bytes × SReq) :=
  let toks := (line.trimAscii.toString.splitOn " ").filter (· ≠ "")
  match toks with
  | w :: u :: rest =>
    if w.startsWith "w=" && u.startsWith "u=" then do
      let k ← (w.drop 2).toString.toNat?
      let user ← hx? (u.drop 2).toString
      let op ← parseOp rest
      let t ← kv rest "t"
      let (a, b) ← (match t.splitOn ":" with
        | [a, b] => do let x ← a.toNat?; let y ← b.toNat?; pure (x, y)
        | _ => none)
      let r ← kv rest "r"
      pure (k, user, { client := k, op := op, t0 := a, t1 := b, obs := r.replace "_" " " })
    else none
  | _ => none

structure SearchSt where
  node : Node
  clients : Array Client
  /-- requests completed per client -/
  done : Array Nat
  sched : List Nat      -- reversed

/-- may client `i` start its next request: everything known to have ended before it started is complete -/
def mayStart (reqs : Array (Array SReq)) (done : Array Nat) (i : Nat) : Bool :=
  match (reqs[i]!)[done[i]!]? with
  | none => false
  | some r =>
    (List.range reqs.size).all fun j =>
      j == i || ((reqs[j]!).toList.drop (done[j]!)).all fun q => !(q.t1 < r.t0)

/-- the time stamp of the next event of client `i` (handler step: t1 of the request in flight; look-up: t0) -/
def nextStamp (reqs : Array (Array SReq)) (s : SearchSt) (i : Nat) : Nat :=
  match (reqs[i]!)[s.done[i]!]? with
  | none => 0
  | some r => if (s.clients[i]!).inflight.isSome then r.t1 else r.t0

partial def dfs (cfg : Cfg) (reqs : Array (Array SReq)) (budget : IO.Ref Nat) (s : SearchSt) : IO (Option SearchSt) := do
  if (List.range reqs.size).all (fun i => s.done[i]! == (reqs[i]!).size) then return some s
  if (← budget.get) == 0 then return none
  budget.modify (· - 1)
  let cands := (List.range reqs.size).filter fun i =>
    (s.clients[i]!).inflight.isSome || mayStart reqs s.done i
  let cands := sortBy (fun a b => nextStamp reqs s a < nextStamp reqs s b) cands
  for i in cands do
    let t := s.clients[i]!
    let r := cstep cfg s.node t
    let t' := r.2
    let finished := t'.inflight.isNone
    -- a finished request must have produced the observed answer
    let ok := !finished || (match t'.got.head?, (reqs[i]!)[s.done[i]!]? with
      | some resp, some q => showResp resp == q.obs
      | _, _ => false)
    if ok then
      let s' : SearchSt := { node := r.1, clients := s.clients.set! i t',
                              done := if finished then s.done.set! i (s.done[i]! + 1) else s.done, sched := i :: s.sched }
      match ← dfs cfg reqs budget s' with
      | some f => return some f
      | none => pure ()
  return none

/-- the canonical schedule (look-up at t0, handler at t1), used to print the model's answers when no
linearisation reproduces the observed ones -/
def canonicalSched (cfg : Cfg) (reqs : Array (Array SReq)) (node : Node) (clients : Array Client) : List Nat := Id.run do
  let mut s : SearchSt := { node := node, clients := clients, done := Array.replicate reqs.size 0, sched := [] }
  let total := (reqs.toList.map (·.size)).sum
  for _ in [0:2 * total + 1] do
    let cands := (List.range reqs.size).filter fun i => (s.clients[i]!).inflight.isSome || s.done[i]! < (reqs[i]!).size
    match (sortBy (fun a b => nextStamp reqs s a < nextStamp reqs s b) cands).head? with
    | none => break
    | some i =>
      let r := cstep cfg s.node (s.clients[i]!)
      let finished := r.2.inflight.isNone
      s := { node := r.1, clients := s.clients.set! i r.2,
             done := if finished then s.done.set! i (s.done[i]! + 1) else s.done, sched := i :: s.sched }
  return s.sched.reverse

/-- the storm between the two markers: returns the node afterwards, one answer per buffered line (in line
order) and the verdict printed for `storm end` -/
def runStormLines (st : St) (lines : List String) : IO (St × List String × String) := do
  let parsed := lines.map parseStormLine
  if parsed.any Option.isNone then return (st, lines.map (fun _ => "bad-op"), "bad-storm")
  let ps := parsed.filterMap id
  -- clients in order of first appearance
  let keys := (ps.map (·.1)).eraseDups
  let idxOf := fun (k : Nat) => (keys.findIdx? (· == k)).getD 0
  let reqs : Array (Array SReq) := (keys.map fun k => ((ps.filter (·.1 == k)).map (·.2.2)).toArray).toArray
  let users : Array Bytes := (keys.map fun k => ((ps.find? (·.1 == k)).map (·.2.1)).getD []).toArray
  let clients : Array Client := (List.range keys.length).toArray.map fun i =>
    { user := users[i]!, todo := (reqs[i]!).toList.map (·.op) }
  let budget ← IO.mkRef 200000
  let found ← dfs st.cfg reqs budget { node := st.node, clients := clients, done := Array.replicate reqs.size 0, sched := [] }
  let (sched, verdict) := match found with
    | some f => (f.sched.reverse, "ok")
    | none => (canonicalSched st.cfg reqs st.node clients, "no-linearisation")
  -- THE model run: `crun` on the schedule
  let out := crun st.cfg st.node clients.toList sched
  let answers : Array (Array String) := (out.2.map fun t => (t.got.reverse.map showResp).toArray).toArray
  -- print per line: the j-th request of its client
  let mut seen : Array Nat := Array.replicate keys.length 0
  let mut outs : List String := []
  for p in ps do
    let i := idxOf p.1
    let j := seen[i]!
    seen := seen.set! i (j + 1)
    outs := ((answers[i]!)[j]?.getD "no-answer") :: outs
  return ({ st with node := out.1 }, outs.reverse, verdict)

def stepLine (st : St) (line : String) : St × String :=
  let toks := (line.trimAscii.toString.splitOn " ").filter (· ≠ "")
  -- `w=<client>` outside `storm begin … storm end` (old replay files): run in the order of the lines
  let toks := match toks with
    | t :: rest => if t.startsWith "w=" then rest else toks
    | [] => toks
  match toks with
  | ["storm", _] => (st, "ok")
  | ["variant", v] =>
    ({ st with cfg := { st.cfg with variant := if v == "pinned" then .pinned else .fixed } }, "ok")
  | "reset" :: rest =>
    match (kv rest "maxcols") >>= (·.toNat?), (kv rest "maxpts") >>= (·.toNat?) with
    | some mc, some mp => ({ cfg := { st.cfg with maxCols := mc, maxPts := mp }, node := {} }, "ok")
    | _, _ => (st, "bad-op")
  | ["sleep"] => (st, "ok")
  | "disk" :: rest =>
    match (kv rest "u") >>= hx? with
    | some u =>
      let base := userDir st.cfg u
      let ents := st.node.fs.filterMap fun e =>
        if base <+: e.1 then some ("/".intercalate ((e.1.drop base.length).map hx)) else none
      let l := sortBy (fun a b => a < b) ents
      (st, "dirs " ++ (if l.isEmpty then "-" else ",".intercalate l))
    | none => (st, "bad-op")
  | t :: rest =>
    if t.startsWith "u=" then
      match hx? (t.drop 2).toString, parseOp rest with
      | some u, some op =>
        let r := step st.cfg st.node u op
        ({ st with node := r.1 }, showResp r.2)
      | _, _ => (st, "bad-op")
    else (st, "bad-op")
  | _ => (st, "bad-op")

end Sema.C16

open Sema.C16 in
/-- the driver loop: line by line, except that the requests of a storm are buffered and answered at `storm end` -/
partial def Sema.C16.driverLoop (stdin stdout : IO.FS.Stream) (st : Sema.C16.St) (buf : Option (List String)) : IO Unit := do
  let line ← stdin.getLine
  if line.isEmpty then return ()
  let toks := (line.trimAscii.toString.splitOn " ").filter (· ≠ "")
  match buf, toks with
  | none, ["storm", "begin"] =>
    stdout.putStrLn "ok"
    Sema.C16.driverLoop stdin stdout st (some [])
  | some ls, ["storm", "end"] =>
    let (st', outs, verdict) ← runStormLines st ls.reverse
    for o in outs do stdout.putStrLn o
    stdout.putStrLn verdict
    Sema.C16.driverLoop stdin stdout st' none
  | some ls, _ => Sema.C16.driverLoop stdin stdout st (some (line :: ls))
  | none, _ =>
    let (st', o) := stepLine st line
    stdout.putStrLn o
    Sema.C16.driverLoop stdin stdout st' none

def Sema.C16.driverMain (stdin stdout : IO.FS.Stream) (_args : List String) : IO Unit :=
  Sema.C16.driverLoop stdin stdout
    { cfg := ⟨Sema.C16.root0, Sema.C16.dir0, .fixed, 2, 6⟩, node := {} } none
