/-
Lemmas about the sorted association list of Base/KV.lean: the byte-wise order is a strict total
order, prefixes, sortedness is preserved by put/delete, get after put/delete, and the two scan
specifications (`rangeScan_spec`, `prefixScan_spec`): on a sorted bucket the seek-and-walk of
diskstore/bbolt.go returns exactly the entries in the interval / with the prefix.
Core-only.
-/
import SemaModel.Base.KV
namespace Sema

/-! ### lexLt is a strict total order on byte strings -/

theorem lexLt_irrefl (a : Bytes) : lexLt a a = false := by
  induction a with
  | nil => rfl
  | cons x xs ih => simp [lexLt, ih]

theorem lexLt_trans {a b c : Bytes} (h1 : lexLt a b = true) (h2 : lexLt b c = true) : lexLt a c = true := by
  induction a generalizing b c with
  | nil =>
    cases b with
    | nil => simp [lexLt] at h1
    | cons y ys => cases c with
      | nil => simp [lexLt] at h2
      | cons z zs => simp [lexLt]
  | cons x xs ih =>
    cases b with
    | nil => simp [lexLt] at h1
    | cons y ys => cases c with
      | nil => simp [lexLt] at h2
      | cons z zs =>
        simp only [lexLt, Bool.or_eq_true, decide_eq_true_eq, Bool.and_eq_true, beq_iff_eq] at h1 h2 ⊢
        rcases h1 with h1 | ⟨rfl, h1⟩
        · rcases h2 with h2 | ⟨rfl, _⟩
          · left; omega
          · left; exact h1
        · rcases h2 with h2 | ⟨rfl, h2⟩
          · left; exact h2
          · right; exact ⟨rfl, ih h1 h2⟩

theorem lexLt_asymm {a b : Bytes} (h : lexLt a b = true) : lexLt b a = false := by
  cases hba : lexLt b a with
  | false => rfl
  | true => have := lexLt_trans h hba; rw [lexLt_irrefl] at this; exact absurd this (by simp)

theorem lexLt_total (a b : Bytes) : lexLt a b = true ∨ a = b ∨ lexLt b a = true := by
  induction a generalizing b with
  | nil => cases b with
    | nil => right; left; rfl
    | cons _ _ => left; rfl
  | cons x xs ih => cases b with
    | nil => right; right; rfl
    | cons y ys =>
      simp only [lexLt, Bool.or_eq_true, decide_eq_true_eq, Bool.and_eq_true, beq_iff_eq, List.cons.injEq]
      rcases Nat.lt_trichotomy x.toNat y.toNat with h | h | h
      · left; left; exact h
      · have hxy : x = y := BitVec.eq_of_toNat_eq h
        subst hxy
        rcases ih ys with h' | h' | h'
        · left; right; exact ⟨rfl, h'⟩
        · right; left; exact ⟨rfl, h'⟩
        · right; right; right; exact ⟨rfl, h'⟩
      · right; right; left; exact h

theorem lexLt_ne {a b : Bytes} (h : lexLt a b = true) : a ≠ b := by
  rintro rfl; rw [lexLt_irrefl] at h; exact absurd h (by simp)

/-- `¬ a < b` and `a ≠ b` gives `b < a` -/
theorem lexLt_of_not_lt_of_ne {a b : Bytes} (h : lexLt a b = false) (hne : a ≠ b) : lexLt b a = true := by
  rcases lexLt_total a b with h' | h' | h'
  · rw [h] at h'; exact absurd h' (by simp)
  · exact absurd h' hne
  · exact h'

/-- `a ≤ b < c → a < c` -/
theorem lexLt_of_le_of_lt {a b c : Bytes} (h1 : lexLt b a = false) (h2 : lexLt b c = true) : lexLt a c = true := by
  rcases lexLt_total a b with h | h | h
  · exact lexLt_trans h h2
  · subst h; exact h2
  · rw [h1] at h; exact absurd h (by simp)

/-- `a < b ≤ c → a < c` -/
theorem lexLt_of_lt_of_le {a b c : Bytes} (h1 : lexLt a b = true) (h2 : lexLt c b = false) : lexLt a c = true := by
  rcases lexLt_total b c with h | h | h
  · exact lexLt_trans h1 h
  · subst h; exact h1
  · rw [h2] at h; exact absurd h (by simp)

/-! ### prefixes -/

/-- a key is never below one of its prefixes -/
theorem not_lexLt_of_isPrefix {p k : Bytes} (h : p.isPrefixOf k = true) : lexLt k p = false := by
  induction p generalizing k with
  | nil => cases k <;> rfl
  | cons x xs ih => cases k with
    | nil => simp at h
    | cons y ys =>
      simp only [List.isPrefixOf, Bool.and_eq_true, beq_iff_eq] at h
      obtain ⟨rfl, h⟩ := h
      simp [lexLt, ih h]

/-- keys sharing a prefix are contiguous: above the prefix, once a key lacks the prefix every larger
key lacks it too -/
theorem isPrefix_false_mono {p k k' : Bytes} (hge : lexLt k p = false) (hk : p.isPrefixOf k = false)
    (hlt : lexLt k k' = true) : p.isPrefixOf k' = false := by
  induction p generalizing k k' with
  | nil => simp at hk
  | cons x xs ih =>
    cases k with
    | nil => simp [lexLt] at hge
    | cons y ys => cases k' with
      | nil => simp [lexLt] at hlt
      | cons z zs =>
        by_cases hxz : x = z
        · subst hxz
          simp only [lexLt, Bool.or_eq_false_iff, decide_eq_false_iff_not, Bool.and_eq_false_iff] at hge
          simp only [lexLt, Bool.or_eq_true, decide_eq_true_eq, Bool.and_eq_true, beq_iff_eq] at hlt
          rcases hlt with hlt | ⟨rfl, hlt⟩
          · omega
          · simp only [List.isPrefixOf, BEq.rfl, Bool.true_and] at hk ⊢
            have hge' : lexLt ys xs = false := by
              rcases hge.2 with h | h
              · simp at h
              · exact h
            exact ih hge' hk hlt
        · simp [List.isPrefixOf, hxz]

namespace KV

/-! ### sortedness -/

abbrev KLt (a b : Bytes × Bytes) : Prop := lexLt a.1 b.1 = true

theorem sorted_iff_pairwise (l : List (Bytes × Bytes)) : Sorted l ↔ l.Pairwise KLt := by
  induction l with
  | nil => simp [Sorted]
  | cons a t ih =>
    cases t with
    | nil => simp [Sorted]
    | cons b rest =>
      simp only [Sorted, ih, List.pairwise_cons]
      constructor
      · rintro ⟨hab, hb, hr⟩
        refine ⟨?_, hb, hr⟩
        intro c hc
        rcases List.mem_cons.1 hc with rfl | hc
        · exact hab
        · exact lexLt_trans hab (hb c hc)
      · rintro ⟨ha, hb, hr⟩
        exact ⟨ha b (List.mem_cons_self ..), hb, hr⟩

theorem sorted_nil : Sorted [] := trivial

theorem Sorted.filter {l : List (Bytes × Bytes)} (h : Sorted l) (p : Bytes × Bytes → Bool) : Sorted (l.filter p) := by
  rw [sorted_iff_pairwise] at *
  exact h.filter p

theorem Sorted.tail {a : Bytes × Bytes} {l : List (Bytes × Bytes)} (h : Sorted (a :: l)) : Sorted l := by
  rw [sorted_iff_pairwise] at *
  exact (List.pairwise_cons.1 h).2

/-- on a sorted list a downward-closed predicate holds exactly on an initial segment -/
theorem takeWhile_eq_filter {l : List (Bytes × Bytes)} (h : Sorted l) (p : Bytes × Bytes → Bool)
    (hp : ∀ a ∈ l, ∀ b ∈ l, KLt a b → p b = true → p a = true) : l.takeWhile p = l.filter p := by
  rw [sorted_iff_pairwise] at h
  induction l with
  | nil => rfl
  | cons a t ih =>
    have ⟨hat, ht⟩ := List.pairwise_cons.1 h
    by_cases hpa : p a = true
    · rw [List.takeWhile_cons_of_pos hpa, List.filter_cons_of_pos hpa,
        ih ht (fun x hx y hy => hp x (List.mem_cons_of_mem _ hx) y (List.mem_cons_of_mem _ hy))]
    · rw [List.takeWhile_cons_of_neg hpa, List.filter_cons_of_neg hpa]
      symm
      rw [List.filter_eq_nil_iff]
      intro b hb hpb
      exact hpa (hp a (List.mem_cons_self ..) b (List.mem_cons_of_mem _ hb) (hat b hb) hpb)

/-- on a sorted list an upward-closed predicate holds exactly on a final segment -/
theorem dropWhile_not_eq_filter {l : List (Bytes × Bytes)} (h : Sorted l) (q : Bytes × Bytes → Bool)
    (hq : ∀ a ∈ l, ∀ b ∈ l, KLt a b → q a = true → q b = true) :
    l.dropWhile (fun e => !q e) = l.filter q := by
  rw [sorted_iff_pairwise] at h
  induction l with
  | nil => rfl
  | cons a t ih =>
    have ⟨hat, ht⟩ := List.pairwise_cons.1 h
    by_cases hqa : q a = true
    · rw [List.dropWhile_cons_of_neg (by simp [hqa]), List.filter_cons_of_pos hqa]
      congr 1
      symm
      rw [List.filter_eq_self]
      intro b hb
      exact hq a (List.mem_cons_self ..) b (List.mem_cons_of_mem _ hb) (hat b hb) hqa
    · rw [List.dropWhile_cons_of_pos (by simp [hqa]), List.filter_cons_of_neg hqa]
      exact ih ht (fun x hx y hy => hq x (List.mem_cons_of_mem _ hx) y (List.mem_cons_of_mem _ hy))

/-- `Cursor.Seek k` on a sorted bucket: exactly the entries with key ≥ k -/
theorem seek_eq_filter {kv : KV} (h : Sorted kv.entries) (k : Bytes) :
    kv.seek k = kv.entries.filter (fun e => !lexLt e.1 k) := by
  unfold seek
  have := dropWhile_not_eq_filter h (fun e => !lexLt e.1 k) (by
    intro a _ b _ hab ha
    simp only [Bool.not_eq_true', Bool.not_eq_eq_eq_not, Bool.not_true] at ha ⊢
    cases hb : lexLt b.1 k with
    | false => rfl
    | true => have := lexLt_trans hab hb; rw [ha] at this; exact absurd this (by simp))
  simpa using this

/-! ### scans -/

/-- lower bound of `RangeScan`: `nil` = unbounded; inclusive = `≥ s`; exclusive = `> s` -/
def inLo (s : Option Bytes) (incl : Bool) (k : Bytes) : Bool :=
  match s with
  | none => true
  | some s => if incl then !lexLt k s else lexLt s k

/-- upper bound of `RangeScan`: `nil` = unbounded; inclusive = `≤ t`; exclusive = `< t` -/
def inHi (t : Option Bytes) (incl : Bool) (k : Bytes) : Bool :=
  match t with
  | none => true
  | some t => if incl then !lexLt t k else lexLt k t

private theorem match_self (l : List (Bytes × Bytes)) :
    (match l with | _ :: _ => l | [] => []) = l := by cases l <;> rfl

private theorem lo_part {kv : KV} (h : Sorted kv.entries) (s : Option Bytes) (incl : Bool) :
    (match s with
      | none => kv.entries
      | some s =>
        match kv.seek s with
        | e :: rest => if (!incl && e.1 == s) = true then rest else kv.seek s
        | [] => []) = kv.entries.filter (fun e => inLo s incl e.1) := by
  cases s with
  | none => exact (List.filter_eq_self.2 (fun _ _ => rfl)).symm
  | some s =>
    simp only [inLo]
    rw [seek_eq_filter h s]
    cases incl with
    | true =>
      simp only [Bool.not_true, Bool.false_and, Bool.false_eq_true, if_false, if_true]
      exact match_self _
    | false =>
      simp only [Bool.not_false, Bool.true_and, Bool.false_eq_true, if_false]
      have hfs : Sorted (kv.entries.filter (fun e => !lexLt e.1 s)) := h.filter _
      have hff : kv.entries.filter (fun e => lexLt s e.1) =
          (kv.entries.filter (fun e => !lexLt e.1 s)).filter (fun e => lexLt s e.1) := by
        rw [List.filter_filter]
        apply List.filter_congr
        intro e _
        cases hse : lexLt s e.1 with
        | false => simp
        | true => simp [lexLt_asymm hse]
      rw [hff]
      have hall : ∀ e ∈ kv.entries.filter (fun e => !lexLt e.1 s), lexLt e.1 s = false := by
        intro e he; simpa using (List.mem_filter.1 he).2
      generalize kv.entries.filter (fun e => !lexLt e.1 s) = l at hfs hall
      cases l with
      | nil => rfl
      | cons e rest =>
        rw [sorted_iff_pairwise] at hfs
        have ⟨her, _⟩ := List.pairwise_cons.1 hfs
        have hrest : rest.filter (fun e => lexLt s e.1) = rest := by
          rw [List.filter_eq_self]
          intro b hb
          exact lexLt_of_le_of_lt (hall e (List.mem_cons_self ..)) (her b hb)
        by_cases hes : e.1 = s
        · simp only [hes, BEq.rfl, if_true]
          rw [List.filter_cons_of_neg (by simp [hes, lexLt_irrefl]), hrest]
        · have : (e.1 == s) = false := by simpa using hes
          simp only [this, Bool.false_eq_true, if_false]
          have hlt : lexLt s e.1 = true :=
            lexLt_of_not_lt_of_ne (hall e (List.mem_cons_self ..)) hes
          rw [List.filter_cons_of_pos (by simpa using hlt), hrest]

/-- **RangeScan**: on a sorted bucket the seek-and-walk returns exactly the entries in the interval
(both ends inclusive, or both exclusive; `none` = unbounded). -/
theorem rangeScan_spec {kv : KV} (h : Sorted kv.entries) (s t : Option Bytes) (incl : Bool) :
    kv.rangeScan s t incl = kv.entries.filter (fun e => inLo s incl e.1 && inHi t incl e.1) := by
  have e1 : kv.rangeScan s t incl = List.takeWhile (fun e => inHi t incl e.1)
      (match s with
      | none => kv.entries
      | some s =>
        match kv.seek s with
        | e :: rest => if (!incl && e.1 == s) = true then rest else kv.seek s
        | [] => []) := by
    unfold rangeScan
    cases s <;> cases t <;> rfl
  rw [e1, lo_part h s incl]
  have hs : Sorted (kv.entries.filter (fun e => inLo s incl e.1)) := h.filter _
  rw [takeWhile_eq_filter hs, List.filter_filter]
  · apply List.filter_congr; intro e _; rw [Bool.and_comm]
  · intro a _ b _ hab hb
    cases t with
    | none => rfl
    | some t =>
      simp only [inHi] at hb ⊢
      cases incl with
      | true =>
        simp only [if_true, Bool.not_eq_true', Bool.not_eq_eq_eq_not, Bool.not_true] at hb ⊢
        cases hta : lexLt t a.1 with
        | false => rfl
        | true => have := lexLt_trans hta hab; rw [hb] at this; exact absurd this (by simp)
      | false =>
        simp only [Bool.false_eq_true, if_false] at hb ⊢
        exact lexLt_trans hab hb

/-- **PrefixScan**: on a sorted bucket the seek-and-walk returns exactly the entries whose key has
the prefix. -/
theorem prefixScan_spec {kv : KV} (h : Sorted kv.entries) (p : Bytes) :
    kv.prefixScan p = kv.entries.filter (fun e => isPrefix p e.1) := by
  unfold prefixScan
  rw [seek_eq_filter h p]
  have hs : Sorted (kv.entries.filter (fun e => !lexLt e.1 p)) := h.filter _
  rw [takeWhile_eq_filter hs, List.filter_filter]
  · apply List.filter_congr
    intro e _
    cases hpe : isPrefix p e.1 with
    | false => simp
    | true => simp [not_lexLt_of_isPrefix hpe]
  · intro a ha b hb hab hpb
    have hage : lexLt a.1 p = false := by simpa using (List.mem_filter.1 ha).2
    cases hpa : isPrefix p a.1 with
    | true => rfl
    | false =>
      have := isPrefix_false_mono hage hpa hab
      simp only [isPrefix] at hpb; rw [this] at hpb; exact absurd hpb (by simp)

/-! ### get / put / delete -/

theorem get_eq_some_of_mem {kv : KV} (h : Sorted kv.entries) {k v : Bytes} (hm : (k, v) ∈ kv.entries) :
    kv.get k = some v := by
  obtain ⟨l⟩ := kv
  simp only [get] at *
  rw [sorted_iff_pairwise] at h
  induction l with
  | nil => simp at hm
  | cons a t ih =>
    have ⟨hat, ht⟩ := List.pairwise_cons.1 h
    rcases List.mem_cons.1 hm with rfl | hm
    · simp
    · have hne : a.1 ≠ k := lexLt_ne (hat _ hm)
      rw [List.find?_cons_of_neg (by simpa using hne)]
      exact ih ht hm

theorem mem_of_get_eq_some {kv : KV} {k v : Bytes} (hg : kv.get k = some v) : (k, v) ∈ kv.entries := by
  unfold get at hg
  cases hf : kv.entries.find? (fun e => e.1 == k) with
  | none => simp [hf] at hg
  | some e =>
    simp only [hf, Option.map_some, Option.some.injEq] at hg
    have h1 : e.1 = k := by simpa using List.find?_some hf
    have h2 := List.mem_of_find?_eq_some hf
    rw [← h1, ← hg]; exact h2

/-- on a sorted bucket `get` and membership of the entry list agree (keys are unique) -/
theorem mem_iff_get {kv : KV} (h : Sorted kv.entries) (k v : Bytes) : (k, v) ∈ kv.entries ↔ kv.get k = some v :=
  ⟨get_eq_some_of_mem h, mem_of_get_eq_some⟩

private theorem find_insertSorted_same (k v : Bytes) (l : List (Bytes × Bytes)) :
    (insertSorted k v l).find? (fun e => e.1 == k) = some (k, v) := by
  induction l with
  | nil => simp [insertSorted]
  | cons e rest ih =>
    unfold insertSorted
    split
    · simp
    · split
      · simp
      · rename_i _ hne
        have hne' : e.1 ≠ k := fun h => hne (by simp [h])
        rw [List.find?_cons_of_neg (by simpa using hne')]
        exact ih

private theorem find_insertSorted_other (k v k' : Bytes) (hne : k' ≠ k) (l : List (Bytes × Bytes)) :
    (insertSorted k v l).find? (fun e => e.1 == k') = l.find? (fun e => e.1 == k') := by
  induction l with
  | nil =>
    show List.find? _ [(k, v)] = none
    rw [List.find?_cons_of_neg (by simpa using Ne.symm hne)]; rfl
  | cons e rest ih =>
    unfold insertSorted
    split
    · rw [List.find?_cons_of_neg (by simpa using Ne.symm hne)]
    · split
      · rename_i _ heq
        have heq' : k = e.1 := by simpa using heq
        rw [List.find?_cons_of_neg (by simpa using Ne.symm hne),
          List.find?_cons_of_neg (by rw [← heq']; simpa using Ne.symm hne)]
      · by_cases hek : e.1 = k'
        · rw [List.find?_cons_of_pos (by simpa using hek), List.find?_cons_of_pos (by simpa using hek)]
        · rw [List.find?_cons_of_neg (by simpa using hek), List.find?_cons_of_neg (by simpa using hek)]
          exact ih

theorem get_put_same (kv : KV) (k v : Bytes) : (kv.put k v).get k = some v := by
  simp [get, put, find_insertSorted_same]

theorem get_put_other (kv : KV) (k v k' : Bytes) (hne : k' ≠ k) : (kv.put k v).get k' = kv.get k' := by
  simp [get, put, find_insertSorted_other k v k' hne]

theorem get_delete_same (kv : KV) (k : Bytes) : (kv.delete k).get k = none := by
  simp only [get, delete, Option.map_eq_none_iff, List.find?_eq_none]
  intro e he
  have := (List.mem_filter.1 he).2
  simpa using this

theorem get_delete_other (kv : KV) (k k' : Bytes) (hne : k' ≠ k) : (kv.delete k).get k' = kv.get k' := by
  simp only [get, delete]
  congr 1
  induction kv.entries with
  | nil => rfl
  | cons e rest ih =>
    by_cases hek : e.1 = k
    · rw [List.filter_cons_of_neg (by simp [hek]),
        List.find?_cons_of_neg (by rw [hek]; simpa using Ne.symm hne)]
      exact ih
    · rw [List.filter_cons_of_pos (by simpa using hek)]
      by_cases hek' : e.1 = k'
      · rw [List.find?_cons_of_pos (by simpa using hek'), List.find?_cons_of_pos (by simpa using hek')]
      · rw [List.find?_cons_of_neg (by simpa using hek'), List.find?_cons_of_neg (by simpa using hek')]
        exact ih

theorem mem_insertSorted {k v : Bytes} {l : List (Bytes × Bytes)} {x : Bytes × Bytes}
    (hx : x ∈ insertSorted k v l) : x = (k, v) ∨ x ∈ l := by
  induction l with
  | nil => simp [insertSorted] at hx; exact Or.inl hx
  | cons e rest ih =>
    unfold insertSorted at hx
    split at hx
    · rcases List.mem_cons.1 hx with h | h
      · exact Or.inl h
      · exact Or.inr h
    · split at hx
      · rcases List.mem_cons.1 hx with h | h
        · exact Or.inl h
        · exact Or.inr (List.mem_cons_of_mem _ h)
      · rcases List.mem_cons.1 hx with h | h
        · exact Or.inr (h ▸ List.mem_cons_self ..)
        · rcases ih h with h | h
          · exact Or.inl h
          · exact Or.inr (List.mem_cons_of_mem _ h)

theorem sorted_insertSorted (k v : Bytes) {l : List (Bytes × Bytes)} (h : Sorted l) : Sorted (insertSorted k v l) := by
  rw [sorted_iff_pairwise] at *
  induction l with
  | nil => simp [insertSorted]
  | cons e rest ih =>
    have ⟨her, hr⟩ := List.pairwise_cons.1 h
    unfold insertSorted
    split
    · rename_i hlt
      refine List.pairwise_cons.2 ⟨?_, h⟩
      intro b hb
      rcases List.mem_cons.1 hb with rfl | hb
      · exact hlt
      · exact lexLt_trans hlt (her b hb)
    · split
      · rename_i _ heq
        have heq' : k = e.1 := by simpa using heq
        refine List.pairwise_cons.2 ⟨?_, hr⟩
        intro b hb
        show lexLt k b.1 = true
        rw [heq']; exact her b hb
      · rename_i hnlt hne
        have hek : lexLt e.1 k = true :=
          lexLt_of_not_lt_of_ne (by simpa using hnlt) (by simpa using hne)
        refine List.pairwise_cons.2 ⟨?_, ih hr⟩
        intro b hb
        rcases mem_insertSorted hb with rfl | hb
        · exact hek
        · exact her b hb

theorem sorted_put {kv : KV} (h : Sorted kv.entries) (k v : Bytes) : Sorted (kv.put k v).entries :=
  sorted_insertSorted k v h

theorem sorted_delete {kv : KV} (h : Sorted kv.entries) (k : Bytes) : Sorted (kv.delete k).entries :=
  h.filter _

theorem sorted_empty : Sorted KV.empty.entries := trivial

theorem get_empty (k : Bytes) : KV.empty.get k = none := rfl

/-- `putBolt` agrees with `put` on every non-empty key -/
theorem putBolt_ok (kv : KV) {k : Bytes} (v : Bytes) (hk : k ≠ []) : kv.putBolt k v = .ok (kv.put k v) := by
  cases k with
  | nil => exact absurd rfl hk
  | cons _ _ => simp [putBolt]

end KV
end Sema
