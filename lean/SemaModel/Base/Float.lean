/-
IEEE-754 binary64 / binary32 comparison semantics on *bit patterns* (trusted; validated against
Go's `<`, `==`, `>=`, `math.Float64bits` by the C19 correspondence run on every check).
A float is its bit pattern.  Non-NaN floats are ordered as sign-magnitude integers; ±0 are equal.
-/
import SemaModel.Base.Bytes
namespace Sema

namespace F64
def mag (x : BitVec 64) : Nat := x.toNat % 2 ^ 63
def isNeg (x : BitVec 64) : Bool := 2 ^ 63 ≤ x.toNat
def isNaN (x : BitVec 64) : Bool := 0x7ff0000000000000 < mag x
/-- sign-magnitude value; both zeros map to 0 -/
def key (x : BitVec 64) : Int := if isNeg x then -(mag x : Int) else (mag x : Int)
def lt (x y : BitVec 64) : Bool := !isNaN x && !isNaN y && key x < key y
def le (x y : BitVec 64) : Bool := !isNaN x && !isNaN y && key x ≤ key y
def gt (x y : BitVec 64) : Bool := lt y x
def ge (x y : BitVec 64) : Bool := le y x
def eq (x y : BitVec 64) : Bool := !isNaN x && !isNaN y && key x == key y
def ne (x y : BitVec 64) : Bool := !(eq x y)
/-- the constant `0` of type float64 -/
def zero : BitVec 64 := 0#64
end F64

namespace F32
def mag (x : BitVec 32) : Nat := x.toNat % 2 ^ 31
def isNeg (x : BitVec 32) : Bool := 2 ^ 31 ≤ x.toNat
def isNaN (x : BitVec 32) : Bool := 0x7f800000 < mag x
def key (x : BitVec 32) : Int := if isNeg x then -(mag x : Int) else (mag x : Int)
def lt (x y : BitVec 32) : Bool := !isNaN x && !isNaN y && key x < key y
def le (x y : BitVec 32) : Bool := !isNaN x && !isNaN y && key x ≤ key y
def gt (x y : BitVec 32) : Bool := lt y x
def ge (x y : BitVec 32) : Bool := le y x
def eq (x y : BitVec 32) : Bool := !isNaN x && !isNaN y && key x == key y
def ne (x y : BitVec 32) : Bool := !(eq x y)
def zero : BitVec 32 := 0#32
end F32

end Sema
