import SemaModel.Base.Bytes
namespace Sema

theorem natBE_lt (a : Bytes) : natBE a < 256 ^ a.length := by
  induction a with
  | nil => simp [natBE]
  | cons x xs ih =>
    simp only [natBE, List.length_cons, Nat.pow_succ]
    have hx : x.toNat < 256 := x.isLt
    have : x.toNat * 256 ^ xs.length + 256 ^ xs.length ≤ 256 * 256 ^ xs.length := by
      have := Nat.mul_le_mul_right (256 ^ xs.length) (show x.toNat + 1 ≤ 256 by omega)
      rw [Nat.add_mul] at this; omega
    omega

/-- on equal-length byte strings, byte-wise order is numeric order of the big-endian value -/
theorem lexLt_iff_natBE (a b : Bytes) (h : a.length = b.length) :
    lexLt a b = true ↔ natBE a < natBE b := by
  induction a generalizing b with
  | nil => cases b with
    | nil => simp [lexLt, natBE]
    | cons _ _ => simp at h
  | cons x xs ih => cases b with
    | nil => simp at h
    | cons y ys =>
      simp only [List.length_cons, Nat.add_right_cancel_iff] at h
      have ha := natBE_lt xs
      have hb := natBE_lt ys
      rw [h] at ha
      simp only [lexLt, natBE, Bool.or_eq_true, decide_eq_true_eq, Bool.and_eq_true, beq_iff_eq,
        ih ys h, h]
      generalize 256 ^ ys.length = P at *
      constructor
      · rintro (hlt | ⟨heq, hr⟩)
        · have := Nat.mul_le_mul_right P (show x.toNat + 1 ≤ y.toNat by omega)
          rw [Nat.add_mul] at this; omega
        · subst heq; omega
      · intro hlt
        by_cases hxy : x.toNat < y.toNat
        · exact Or.inl hxy
        · right
          have hle : y.toNat ≤ x.toNat := by omega
          have := Nat.mul_le_mul_right P hle
          have hxe : x.toNat = y.toNat := by
            rcases Nat.lt_or_ge y.toNat x.toNat with h1 | h1
            · have := Nat.mul_le_mul_right P (show y.toNat + 1 ≤ x.toNat by omega)
              rw [Nat.add_mul] at this; omega
            · omega
          refine ⟨BitVec.eq_of_toNat_eq hxe, ?_⟩
          rw [hxe] at hlt; omega

theorem natBE_eq_iff (a b : Bytes) (h : a.length = b.length) : natBE a = natBE b ↔ a = b := by
  constructor
  · intro he
    induction a generalizing b with
    | nil => cases b <;> simp_all
    | cons x xs ih => cases b with
      | nil => simp at h
      | cons y ys =>
        simp only [List.length_cons, Nat.add_right_cancel_iff] at h
        have ha := natBE_lt xs
        have hb := natBE_lt ys
        rw [h] at ha
        simp only [natBE, h] at he
        generalize hP : 256 ^ ys.length = P at *
        have hxe : x.toNat = y.toNat := by
          rcases Nat.lt_trichotomy x.toNat y.toNat with h1 | h1 | h1
          · have := Nat.mul_le_mul_right P (show x.toNat + 1 ≤ y.toNat by omega)
            rw [Nat.add_mul] at this; omega
          · exact h1
          · have := Nat.mul_le_mul_right P (show y.toNat + 1 ≤ x.toNat by omega)
            rw [Nat.add_mul] at this; omega
        rw [hxe] at he
        have : natBE xs = natBE ys := by omega
        rw [BitVec.eq_of_toNat_eq hxe, ih ys h this]
  · rintro rfl; rfl

@[simp] theorem be64_length (x : BitVec 64) : (be64 x).length = 8 := rfl
@[simp] theorem le64_length (x : BitVec 64) : (le64 x).length = 8 := rfl
@[simp] theorem le32_length (x : BitVec 32) : (le32 x).length = 4 := rfl

theorem byteAt_toNat (x : BitVec 64) (i : Nat) : (byteAt x i).toNat = x.toNat / 2 ^ (8 * i) % 256 := by
  simp [byteAt, Nat.shiftRight_eq_div_pow]

theorem byteAt32_toNat (x : BitVec 32) (i : Nat) : (byteAt32 x i).toNat = x.toNat / 2 ^ (8 * i) % 256 := by
  simp [byteAt32, Nat.shiftRight_eq_div_pow]

theorem natBE_be64 (x : BitVec 64) : natBE (be64 x) = x.toNat := by
  have := x.isLt
  simp only [be64, natBE, byteAt_toNat, List.length_cons, List.length_nil]
  omega

theorem be64_lexLt (x y : BitVec 64) : lexLt (be64 x) (be64 y) = true ↔ x.toNat < y.toNat := by
  rw [lexLt_iff_natBE _ _ (by simp), natBE_be64, natBE_be64]

theorem be64_inj (x y : BitVec 64) : be64 x = be64 y ↔ x = y := by
  constructor
  · intro h
    have := congrArg natBE h
    rw [natBE_be64, natBE_be64] at this
    exact BitVec.eq_of_toNat_eq this
  · rintro rfl; rfl

end Sema

namespace Sema

theorem natLE_le64 (x : BitVec 64) : natLE (le64 x) = x.toNat := by
  have := x.isLt
  simp only [le64, natLE, byteAt_toNat]
  omega

theorem natLE_le32 (x : BitVec 32) : natLE (le32 x) = x.toNat := by
  have := x.isLt
  simp only [le32, natLE, byteAt32_toNat]
  omega

@[simp] theorem ofBE64_be64 (x : BitVec 64) : ofBE64 (be64 x) 0 = x := by
  have h : List.take 8 (be64 x) = be64 x := List.take_of_length_le (by simp)
  simp [ofBE64, h, natBE_be64]

@[simp] theorem ofLE64_le64 (x : BitVec 64) : ofLE64 (le64 x) 0 = x := by
  have h : List.take 8 (le64 x) = le64 x := List.take_of_length_le (by simp)
  simp [ofLE64, h, natLE_le64]

@[simp] theorem ofLE32_le32 (x : BitVec 32) : ofLE32 (le32 x) 0 = x := by
  have h : List.take 4 (le32 x) = le32 x := List.take_of_length_le (by simp)
  simp [ofLE32, h, natLE_le32]

theorem ofLE64_append (x : BitVec 64) (pre rest : Bytes) :
    ofLE64 (pre ++ le64 x ++ rest) pre.length = x := by
  have h : List.take 8 (le64 x ++ rest) = le64 x := by
    rw [List.take_append_of_le_length (by simp)]; exact List.take_of_length_le (by simp)
  simp [ofLE64, List.append_assoc, h, natLE_le64]

theorem ofLE32_append (x : BitVec 32) (pre rest : Bytes) :
    ofLE32 (pre ++ le32 x ++ rest) pre.length = x := by
  have h : List.take 4 (le32 x ++ rest) = le32 x := by
    rw [List.take_append_of_le_length (by simp)]; exact List.take_of_length_le (by simp)
  simp [ofLE32, List.append_assoc, h, natLE_le32]

theorem le64_inj (x y : BitVec 64) : le64 x = le64 y ↔ x = y := by
  constructor
  · intro h
    have := congrArg natLE h
    rw [natLE_le64, natLE_le64] at this
    exact BitVec.eq_of_toNat_eq this
  · rintro rfl; rfl

end Sema
