import SemaModel.Base.Float
namespace Sema.F64

theorem isNaN_zero : isNaN zero = false := by decide
theorem key_zero : key zero = 0 := by decide

theorem key_eq (x : BitVec 64) :
    key x = if 2^63 ≤ x.toNat then -((x.toNat % 2^63 : Nat) : Int) else ((x.toNat % 2^63 : Nat) : Int) := by
  simp [key, isNeg, mag]

theorem eq_zero (x : BitVec 64) (hx : isNaN x = false) :
    eq x zero = decide (x.toNat % 2^63 = 0) := by
  rw [Bool.eq_iff_iff]
  simp only [eq, hx, isNaN_zero, key_zero, Bool.not_false, Bool.true_and, beq_iff_eq, decide_eq_true_eq]
  rw [key_eq]; split <;> omega

theorem ge_zero (x : BitVec 64) (hx : isNaN x = false) :
    ge x zero = decide (x.toNat < 2^63 ∨ x.toNat % 2^63 = 0) := by
  rw [Bool.eq_iff_iff]
  simp only [ge, le, hx, isNaN_zero, key_zero, Bool.not_false, Bool.true_and, decide_eq_true_eq]
  rw [key_eq]; split <;> omega

theorem ge_zero_zero : ge zero zero = true := by decide

end Sema.F64
