/-
The primitives the Go→Lean translator (tools/go2lean) targets.  Each is the meaning of one Go
library call or built-in on the modelled data types (trusted; exercised by T3 as well).
Go `int` values that are lengths / indices are modelled in `Nat`.
-/
import SemaModel.Base.Float
namespace Sema.Go

def zeros (n : Nat) : Bytes := List.replicate n 0#8
def idx (b : Bytes) (i : Nat) : Byte := bget b i
def sliceFrom (b : List α) (lo : Nat) : List α := b.drop lo
def slice (b : List α) (lo hi : Nat) : List α := (b.take hi).drop lo
/-- `binary.BigEndian.PutUint64(buf[off:], v)` -/
def putBE64 (buf : Bytes) (off : Nat) (v : BitVec 64) : Bytes := blit buf off (be64 v)
def putLE64 (buf : Bytes) (off : Nat) (v : BitVec 64) : Bytes := blit buf off (le64 v)
def putLE32 (buf : Bytes) (off : Nat) (v : BitVec 32) : Bytes := blit buf off (le32 v)
def getBE64 (b : Bytes) (off : Nat) : BitVec 64 := ofBE64 b off
def getLE64 (b : Bytes) (off : Nat) : BitVec 64 := ofLE64 b off
def getLE32 (b : Bytes) (off : Nat) : BitVec 32 := ofLE32 b off
/-- `copy(dst[off:], src)` -/
def copyAt (dst : Bytes) (off : Nat) (src : Bytes) : Bytes := blit dst off src

/-- `for i, v := range xs { st = body i v st }` -/
def forRangeAux (xs : List α) (i : Nat) (st : σ) (body : Nat → α → σ → σ) : σ :=
  match xs with
  | [] => st
  | x :: rest => forRangeAux rest (i + 1) (body i x st) body
def forRange (xs : List α) (st : σ) (body : Nat → α → σ → σ) : σ := forRangeAux xs 0 st body

/-- `for i := range n { st = body i st }` (also `for i := range xs` with `n = len xs`) -/
def forN (n : Nat) (st : σ) (body : Nat → σ → σ) : σ := (List.range n).foldl (fun s i => body i s) st

/-- `bits.OnesCount64` -/
def popcount64 (x : BitVec 64) : Nat := (List.range 64).foldl (fun c i => if x.getLsbD i then c + 1 else c) 0

def idx64 (b : List (BitVec 64)) (i : Nat) : BitVec 64 := b.getD i 0#64
def idx32 (b : List (BitVec 32)) (i : Nat) : BitVec 32 := b.getD i 0#32

end Sema.Go

namespace Sema.Go
/-- a float32 expression whose arithmetic is *not* interpreted by the model (IEEE rounding is outside
the theorems); `eval` is used by the driver only. -/
inductive FExpr where
  | lit (n : Nat) | ofNat (n : Nat)
  | add (a b : FExpr) | sub (a b : FExpr) | mul (a b : FExpr) | div (a b : FExpr)
  deriving Repr, DecidableEq

def FExpr.eval : FExpr → Float32
  | .lit n => n.toFloat32
  | .ofNat n => n.toFloat32
  | .add a b => a.eval + b.eval
  | .sub a b => a.eval - b.eval
  | .mul a b => a.eval * b.eval
  | .div a b => a.eval / b.eval
end Sema.Go
