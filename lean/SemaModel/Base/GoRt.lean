/-
The primitives the Go→Lean translator (tools/go2lean) targets.  Each is the meaning of one Go
library call or built-in on the modelled data types (trusted; exercised by T3 as well).
Go `int` values that are lengths / indices are modelled in `Nat`.
-/
import SemaModel.Base.Float
namespace Sema.Go

def zeros (n : Nat) : Bytes := List.replicate n 0#8
def idx (b : Bytes) (i : Nat) : Byte := bget b i
def sliceFrom (b : List α) (lo : Nat) : List α := b.drop lo
def slice (b : List α) (lo hi : Nat) : List α := (b.take hi).drop lo
/-- `binary.BigEndian.PutUint64(buf[off:], v)` -/
def putBE64 (buf : Bytes) (off : Nat) (v : BitVec 64) : Bytes := blit buf off (be64 v)
def putLE64 (buf : Bytes) (off : Nat) (v : BitVec 64) : Bytes := blit buf off (le64 v)
def putLE32 (buf : Bytes) (off : Nat) (v : BitVec 32) : Bytes := blit buf off (le32 v)
def getBE64 (b : Bytes) (off : Nat) : BitVec 64 := ofBE64 b off
def getLE64 (b : Bytes) (off : Nat) : BitVec 64 := ofLE64 b off
def getLE32 (b : Bytes) (off : Nat) : BitVec 32 := ofLE32 b off
/-- `copy(dst[off:], src)` -/
def copyAt (dst : Bytes) (off : Nat) (src : Bytes) : Bytes := blit dst off src

/-- `for i, v := range xs { st = body i v st }` -/
def forRangeAux (xs : List α) (i : Nat) (st : σ) (body : Nat → α → σ → σ) : σ :=
  match xs with
  | [] => st
  | x :: rest => forRangeAux rest (i + 1) (body i x st) body
def forRange (xs : List α) (st : σ) (body : Nat → α → σ → σ) : σ := forRangeAux xs 0 st body

/-- `for i := range n { st = body i st }` (also `for i := range xs` with `n = len xs`) -/
def forN (n : Nat) (st : σ) (body : Nat → σ → σ) : σ := (List.range n).foldl (fun s i => body i s) st

/-- `bits.OnesCount64` -/
def popcount64 (x : BitVec 64) : Nat := (List.range 64).foldl (fun c i => if x.getLsbD i then c + 1 else c) 0

def idx64 (b : List (BitVec 64)) (i : Nat) : BitVec 64 := b.getD i 0#64
def idx32 (b : List (BitVec 32)) (i : Nat) : BitVec 32 := b.getD i 0#32

end Sema.Go

namespace Sema.Go
/-- a float32 / float64 expression whose arithmetic is *not* interpreted by the model (IEEE rounding is
outside the theorems); `eval` / `eval64` are used by the driver only.

One constructor per Go operation, operands in source order.  The tree carries no precision: the
translator (tools/go2lean, `FloatSym`) keeps float32 and float64 apart and writes every conversion
(`toF64` = `float64(x)` of a float32, `toF32` = `float32(x)` of a float64); `eval` evaluates a tree at
float32, `eval64` at float64, and they change precision exactly at the two conversions.  Leaves: `lit n`
(an integer constant, exact in both precisions for n < 2^24), `ofNat` / `ofInt` (`float32(i)` /
`float64(i)` of an integer value), `var bits` / `var64 bits` (a float32 / float64 value given by its bit
pattern: an input, or an untyped Go constant rounded to the nearest value by the translator). -/
inductive FExpr where
  | lit (n : Nat) | ofNat (n : Nat)
  | add (a b : FExpr) | sub (a b : FExpr) | mul (a b : FExpr) | div (a b : FExpr)
  | var (bits : BitVec 32) | var64 (bits : BitVec 64) | ofInt (i : Int)
  | neg (a : FExpr) | toF64 (a : FExpr) | toF32 (a : FExpr)
  | log10 (a : FExpr) | sqrt (a : FExpr) | sin (a : FExpr) | cos (a : FExpr) | asin (a : FExpr)
  | min (a b : FExpr)
  deriving Repr, DecidableEq

/-- Go's zero value `0.0` -/
instance : Inhabited FExpr := ⟨.lit 0⟩

/-- `math.Min` (NaN if either is NaN; -0 before +0) -/
def fmin64 (a b : Float) : Float :=
  if a.isNaN || b.isNaN then (0.0 / 0.0)
  else if a < b then a else if b < a then b
  else if a.toBits >>> 63 == 1 then a else b
def fmin32 (a b : Float32) : Float32 :=
  if a.isNaN || b.isNaN then (0.0 / 0.0)
  else if a < b then a else if b < a then b
  else if a.toBits >>> 31 == 1 then a else b

mutual
/-- the tree evaluated at float32 with Lean's `Float32` (hardware IEEE single precision; `log10`, `sin`,
`cos`, `asin` are the C library's) -/
def FExpr.eval : FExpr → Float32
  | .lit n => n.toFloat32
  | .ofNat n => n.toFloat32
  | .add a b => a.eval + b.eval
  | .sub a b => a.eval - b.eval
  | .mul a b => a.eval * b.eval
  | .div a b => a.eval / b.eval
  | .var b => Float32.ofBits b.toNat.toUInt32
  | .var64 b => (Float.ofBits b.toNat.toUInt64).toFloat32
  | .ofInt i => Float32.ofInt i
  | .neg a => - a.eval
  | .toF64 a => a.eval
  | .toF32 a => a.eval64.toFloat32
  | .log10 a => a.eval.log10
  | .sqrt a => a.eval.sqrt
  | .sin a => a.eval.sin
  | .cos a => a.eval.cos
  | .asin a => a.eval.asin
  | .min a b => fmin32 a.eval b.eval
/-- the tree evaluated at float64 -/
def FExpr.eval64 : FExpr → Float
  | .lit n => n.toFloat
  | .ofNat n => n.toFloat
  | .add a b => a.eval64 + b.eval64
  | .sub a b => a.eval64 - b.eval64
  | .mul a b => a.eval64 * b.eval64
  | .div a b => a.eval64 / b.eval64
  | .var b => (Float32.ofBits b.toNat.toUInt32).toFloat
  | .var64 b => Float.ofBits b.toNat.toUInt64
  | .ofInt i => Float.ofInt i
  | .neg a => - a.eval64
  | .toF64 a => a.eval.toFloat
  | .toF32 a => a.eval64.toFloat32.toFloat
  | .log10 a => a.eval64.log10
  | .sqrt a => a.eval64.sqrt
  | .sin a => a.eval64.sin
  | .cos a => a.eval64.cos
  | .asin a => a.eval64.asin
  | .min a b => fmin64 a.eval64 b.eval64
end

/-- `var s T; for .. { s += tᵢ }`: the terms added one after the other, from the left, to Go's zero value -/
def FExpr.sumL (l : List FExpr) : FExpr := l.foldl FExpr.add (.lit 0)

/-- `math.Pi / 180` as the Go compiler stores it in a float64: the double nearest to π/180
(0.017453292519943295…; tools/go2lean computes the pattern from the constant expression in the source) -/
def FExpr.degToRad : FExpr := .var64 0x3f91df46a2529d39#64
/-- `earthRadius = 6371000` (metres) -/
def FExpr.earthRadius : FExpr := .lit 6371000
end Sema.Go

/-! ### primitives of the extended translator (tools/go2lean/ext.go)

Go `int` / `int64` are `Int` there (sums are assumed not to overflow), `uint64` is `BitVec 64`,
`string` is `String`, slices are lists (value semantics: the translator rejects visible aliasing),
maps are insertion-ordered association lists without duplicate keys, a run-time panic (index out
of range) is not modelled: reads past the end give the zero value, writes past the end do nothing. -/
namespace Sema.Go

/-- result of a translated function that contains a loop with an exit: its value, or the fuel of a
`for` loop ran out (the Go loop would still be running) -/
inductive Out (ρ : Type) where
  | ret (r : ρ)
  | outOfFuel
  deriving Repr, DecidableEq

/-- result of one translated loop: it ended (condition false, or `break`) with loop state `s`;
a `return r` was executed inside; the fuel ran out -/
inductive Ctl (σ ρ : Type) where
  | next (s : σ)
  | ret (r : ρ)
  | outOfFuel
  deriving Repr, DecidableEq

/-- the statements after a loop that is itself inside a loop -/
def Ctl.andThen {σ τ ρ : Type} (c : Ctl σ ρ) (k : σ → Ctl τ ρ) : Ctl τ ρ :=
  match c with
  | .next s => k s
  | .ret r => .ret r
  | .outOfFuel => .outOfFuel

/-- the statements after a loop at the top level of a function -/
def Ctl.finish {σ ρ : Type} (c : Ctl σ ρ) (k : σ → Out ρ) : Out ρ :=
  match c with
  | .next s => k s
  | .ret r => .ret r
  | .outOfFuel => .outOfFuel

/-- `len(xs)` as a Go `int` -/
def len {α : Type} (xs : List α) : Int := xs.length
/-- `xs[i]` (Go panics outside `0 ≤ i < len`; here: the zero value) -/
def getI {α : Type} [Inhabited α] (xs : List α) (i : Int) : α := if i < 0 then default else xs.getD i.toNat default
/-- `xs[i] = v` -/
def setI {α : Type} (xs : List α) (i : Int) (v : α) : List α := if i < 0 then xs else xs.set i.toNat v
/-- `xs[lo:]` -/
def sliceFromI {α : Type} (xs : List α) (lo : Int) : List α := xs.drop lo.toNat
/-- `xs[lo:hi]` -/
def sliceI {α : Type} (xs : List α) (lo hi : Int) : List α := (xs.take hi.toNat).drop lo.toNat

/-- `m[k] = v` -/
def mapSet {κ ν : Type} [BEq κ] : List (κ × ν) → κ → ν → List (κ × ν)
  | [], k, v => [(k, v)]
  | (k', v') :: rest, k, v => if k' == k then (k, v) :: rest else (k', v') :: mapSet rest k v
/-- `v, ok := m[k]` -/
def mapGet? {κ ν : Type} [BEq κ] : List (κ × ν) → κ → Option ν
  | [], _ => none
  | (k', v) :: rest, k => if k' == k then some v else mapGet? rest k
/-- `m[k]` (zero value `z` when absent) -/
def mapGetD {κ ν : Type} [BEq κ] (m : List (κ × ν)) (k : κ) (z : ν) : ν := (mapGet? m k).getD z

/-- `bytes.Compare` -/
def bytesCompare (a b : Bytes) : Int := if lexLt a b then -1 else if lexLt b a then 1 else 0

/-- fuel of a counting loop `for ; i < n; i++` whose body assigns neither `i` nor anything `n` reads -/
def countFuel (i n : Int) : Nat := (n - i).toNat + 1

end Sema.Go

namespace Sema.Go
/-- the loop of `slices.BinarySearchFunc`:
`for i < j { h := int(uint(i+j) >> 1); if cmp(x[h], target) < 0 { i = h + 1 } else { j = h } }`
(`j - i` at least halves per iteration, so `len(x)` iterations are enough) -/
def bsLoop {α τ : Type} [Inhabited α] (x : List α) (target : τ) (cmp : α → τ → Int) : Nat → Int → Int → Int
  | 0, i, _ => i
  | fuel + 1, i, j =>
    if i < j then
      let h := (i + j) / 2
      if cmp (getI x h) target < 0 then bsLoop x target cmp fuel (h + 1) j else bsLoop x target cmp fuel i h
    else i

/-- `slices.BinarySearchFunc(x, target, cmp)`: `n := len(x); i, j := 0, n; <loop>;
return i, i < n && cmp(x[i], target) == 0` -/
def binarySearchFunc {α τ : Type} [Inhabited α] (x : List α) (target : τ) (cmp : α → τ → Int) : Int × Bool :=
  let n := len x
  let i := bsLoop x target cmp x.length 0 n
  (i, decide (i < n) && cmp (getI x i) target == 0)
end Sema.Go

namespace Sema.Go
/-- a Go interface value (`any`) as far as the translated code can look into it: nil, a
`map[string]any`, or any other dynamic value (of an abstract type `α`) -/
inductive Any (α : Type) where
  | nil
  | map (m : List (String × Any α))
  | val (a : α)

/-- result of a `for … range` loop with an exit (structural recursion, no fuel): it ended
(list exhausted, or `break`) with state `s`, or a `return r` was executed inside -/
inductive Brk (σ ρ : Type) where
  | next (s : σ)
  | ret (r : ρ)

/-- statements after a range loop that is itself inside a range loop -/
def Brk.andThen {σ τ ρ : Type} (c : Brk σ ρ) (k : σ → Brk τ ρ) : Brk τ ρ :=
  match c with
  | .next s => k s
  | .ret r => .ret r
/-- statements after a range loop at the top of a function (or closure) without `for` loops -/
def Brk.finish {σ ρ : Type} (c : Brk σ ρ) (k : σ → ρ) : ρ :=
  match c with
  | .next s => k s
  | .ret r => r
/-- statements after a range loop inside a `for` loop -/
def Brk.andThenCtl {σ τ ρ : Type} (c : Brk σ ρ) (k : σ → Ctl τ ρ) : Ctl τ ρ :=
  match c with
  | .next s => k s
  | .ret r => .ret r
/-- statements after a range loop at the top of a function that also has `for` loops -/
def Brk.finishOut {σ ρ : Type} (c : Brk σ ρ) (k : σ → Out ρ) : Out ρ :=
  match c with
  | .next s => k s
  | .ret r => .ret r

/-- `strings.Split(s, sep)` for a non-empty literal `sep` -/
def strSplit (s sep : String) : List String := s.splitOn sep
end Sema.Go

namespace Sema.Go
/-- Go `int` / `int64` results of `+`, `-`, `*` on a 64-bit platform (two's complement wrap), used by
translations with `WrapInt` (no no-overflow assumption there; operands are assumed in range) -/
def wrap64 (x : Int) : Int := (x + 2 ^ 63) % 2 ^ 64 - 2 ^ 63
end Sema.Go
