/- helpers for the per-property line-protocol drivers -/
namespace Sema

/-- stateless driver: one output line per input line -/
partial def loopPure (h out : IO.FS.Stream) (f : String → String) : IO Unit := do
  let line ← h.getLine
  if line.isEmpty then return ()
  out.putStrLn (f line)
  loopPure h out f

/-- stateful driver: `step state line = (state', output line)` -/
partial def loopState {σ : Type} (h out : IO.FS.Stream) (f : σ → String → σ × String) (s : σ) : IO Unit := do
  let line ← h.getLine
  if line.isEmpty then return ()
  let (s', o) := f s line
  out.putStrLn o
  loopState h out f s'

end Sema
