/-
A bucket of the disk store: a key-sorted association list (DESIGN.md 3.4).
bbolt's cursor `Seek k` = first entry with key ≥ k.  Both backends (bbolt, memory) present the same
ordered view; the only modelled difference is `put` with an empty key (bbolt refuses it).
Core-only.  Lemmas about these definitions live in Base/KVLemmas.lean.
-/
import SemaModel.Base.Bytes
namespace Sema

structure KV where
  entries : List (Bytes × Bytes) := []
  deriving Repr, DecidableEq, Inhabited

namespace KV

def empty : KV := {}

/-- strictly increasing keys -/
def Sorted : List (Bytes × Bytes) → Prop
  | [] => True
  | [_] => True
  | a :: b :: rest => lexLt a.1 b.1 = true ∧ Sorted (b :: rest)

def get (kv : KV) (k : Bytes) : Option Bytes := (kv.entries.find? (fun e => e.1 == k)).map (·.2)

def insertSorted (k v : Bytes) : List (Bytes × Bytes) → List (Bytes × Bytes)
  | [] => [(k, v)]
  | e :: rest =>
    if lexLt k e.1 then (k, v) :: e :: rest
    else if k == e.1 then (k, v) :: rest
    else e :: insertSorted k v rest

/-- `Bucket.Put` (value overwritten if the key exists) -/
def put (kv : KV) (k v : Bytes) : KV := ⟨insertSorted k v kv.entries⟩

/-- `Bucket.Put` of the bbolt backend: the empty key is refused ("key required") -/
def putBolt (kv : KV) (k v : Bytes) : Except String KV :=
  if k.isEmpty then .error "key required" else .ok (kv.put k v)

/-- `Bucket.Delete` (deleting an absent key is a no-op) -/
def delete (kv : KV) (k : Bytes) : KV := ⟨kv.entries.filter (fun e => !(e.1 == k))⟩

/-- cursor `Seek k`: the suffix of the bucket starting at the first key ≥ k -/
def seek (kv : KV) (k : Bytes) : List (Bytes × Bytes) := kv.entries.dropWhile (fun e => lexLt e.1 k)

def isPrefix (p k : Bytes) : Bool := p.isPrefixOf k

/-- `Bucket.PrefixScan`: seek to the prefix, walk while the key has the prefix -/
def prefixScan (kv : KV) (p : Bytes) : List (Bytes × Bytes) := (kv.seek p).takeWhile (fun e => isPrefix p e.1)

/-- `Bucket.RangeScan start end inclusive` exactly as in diskstore/bbolt.go: `none` = nil bound;
with `inclusive = false` *both* ends are exclusive. -/
def rangeScan (kv : KV) (start end_ : Option Bytes) (inclusive : Bool) : List (Bytes × Bytes) :=
  let from_ := match start with
    | none => kv.entries
    | some s =>
      let l := kv.seek s
      match l with
      | e :: rest => if !inclusive && e.1 == s then rest else l
      | [] => []
  from_.takeWhile fun e =>
    match end_ with
    | none => true
    | some t => if inclusive then !(lexLt t e.1) else lexLt e.1 t

/-- `Bucket.ForEach` (bbolt: key order; memory backend: Go map order — callers must not depend on it) -/
def forEach (kv : KV) : List (Bytes × Bytes) := kv.entries

end KV

/-- a disk: named buckets -/
abbrev Disk := List (String × KV)

namespace Disk
def bucket (d : Disk) (name : String) : KV := ((d.find? (·.1 == name)).map (·.2)).getD KV.empty
def setBucket (d : Disk) (name : String) (kv : KV) : Disk :=
  if d.any (·.1 == name) then d.map (fun e => if e.1 == name then (name, kv) else e) else d ++ [(name, kv)]
/-- a write transaction: all or nothing (bbolt's atomic commit is *assumed*, DESIGN.md 3.4) -/
def write (d : Disk) (f : Disk → Except ε Disk) : Disk × Option ε :=
  match f d with
  | .ok d' => (d', none)
  | .error e => (d, some e)
end Disk

end Sema
