/-
Bytes, lexicographic order (Go's bytes.Compare / string <), fixed-width big/little endian
encodings.  Core-only (no Mathlib): this file is linked into the model driver executable.
-/
namespace Sema

abbrev Byte := BitVec 8
abbrev Bytes := List Byte

/-- `bytes.Compare a b < 0`, which is also Go's `<` on strings (byte-wise). -/
def lexLt : Bytes → Bytes → Bool
  | [], [] => false
  | [], _ :: _ => true
  | _ :: _, [] => false
  | a :: as, b :: bs => a.toNat < b.toNat || (a == b && lexLt as bs)

def lexLe (a b : Bytes) : Bool := !(lexLt b a)

/-- big-endian value of a byte string -/
def natBE : Bytes → Nat
  | [] => 0
  | a :: as => a.toNat * 256 ^ as.length + natBE as

def byteAt (x : BitVec 64) (i : Nat) : Byte := (x >>> (8 * i)).setWidth 8
def byteAt32 (x : BitVec 32) (i : Nat) : Byte := (x >>> (8 * i)).setWidth 8

def be64 (x : BitVec 64) : Bytes :=
  [byteAt x 7, byteAt x 6, byteAt x 5, byteAt x 4, byteAt x 3, byteAt x 2, byteAt x 1, byteAt x 0]
def le64 (x : BitVec 64) : Bytes :=
  [byteAt x 0, byteAt x 1, byteAt x 2, byteAt x 3, byteAt x 4, byteAt x 5, byteAt x 6, byteAt x 7]
def le32 (x : BitVec 32) : Bytes :=
  [byteAt32 x 0, byteAt32 x 1, byteAt32 x 2, byteAt32 x 3]

/-- byte `i` of `b` (0 past the end: Go would panic; every use below is in range) -/
def bget (b : Bytes) (i : Nat) : Byte := b.getD i 0

/-- little-endian value of a byte string -/
def natLE : Bytes → Nat
  | [] => 0
  | a :: as => a.toNat + 256 * natLE as

/-- `b[lo:hi]` -/
def bslice (b : Bytes) (lo hi : Nat) : Bytes := (b.take hi).drop lo

/-- `binary.BigEndian.Uint64(b[off:])` (Go panics when fewer than 8 bytes remain; here the missing
bytes are simply absent — every use in the theorems supplies 8 bytes) -/
def ofBE64 (b : Bytes) (off : Nat) : BitVec 64 := BitVec.ofNat 64 (natBE ((b.drop off).take 8))
def ofLE64 (b : Bytes) (off : Nat) : BitVec 64 := BitVec.ofNat 64 (natLE ((b.drop off).take 8))
def ofLE32 (b : Bytes) (off : Nat) : BitVec 32 := BitVec.ofNat 32 (natLE ((b.drop off).take 4))

/-- overwrite `src` into `dst` starting at `off` (Go `copy(dst[off:], src)`: stops at the end of dst) -/
def blit (dst : Bytes) (off : Nat) (src : Bytes) : Bytes :=
  dst.take off ++ (src.take (dst.length - off)) ++ dst.drop (off + src.length)

def hexDigit (n : Nat) : Char := if n < 10 then Char.ofNat (48 + n) else Char.ofNat (87 + n)
def hexOfBytes (b : Bytes) : String :=
  String.ofList (b.flatMap fun x => [hexDigit (x.toNat / 16), hexDigit (x.toNat % 16)])
def hexVal (c : Char) : Option Nat :=
  if '0' ≤ c ∧ c ≤ '9' then some (c.toNat - 48)
  else if 'a' ≤ c ∧ c ≤ 'f' then some (c.toNat - 87)
  else if 'A' ≤ c ∧ c ≤ 'F' then some (c.toNat - 55) else none
def bytesOfHexAux : List Char → Option Bytes
  | [] => some []
  | [_] => none
  | a :: b :: rest => do
      let x ← hexVal a; let y ← hexVal b; let r ← bytesOfHexAux rest
      pure (BitVec.ofNat 8 (x * 16 + y) :: r)
def bytesOfHex (s : String) : Option Bytes := bytesOfHexAux s.toList
def natOfHex (s : String) : Option Nat :=
  s.toList.foldlM (fun acc c => (hexVal c).map (acc * 16 + ·)) 0
def hexOfNat (width : Nat) (n : Nat) : String :=
  String.ofList ((List.range width).reverse.map fun i => hexDigit (n / 16 ^ i % 16))

end Sema
