/-
Primitives of the second round of the extended translator (tools/go2lean, notes/T1ext.md section 7).
A separate file so that the generated modules of the first round stay byte-identical (they import
`Base/GoRt.lean` only); a generated module imports this one only when it uses something from it.
Core-only.
-/
import SemaModel.Base.GoRt
namespace Sema.Go

/-- `x == nil` on an interface value -/
def Any.isNil {α : Type} : Any α → Bool
  | .nil => true
  | _ => false

/-- a possibly nil error under a format verb: its message, or what `fmt` prints for a nil
interface (`<nil>` for `%v`, `%!w(<nil>)` for `%w`, `%!s(<nil>)` for `%s`) -/
def fmtErr (nilText : String) (e : Option String) : String := e.getD nilText

end Sema.Go

namespace Sema.Go
/-- the capacity of `append(s, …)`'s result: unchanged when the new length `n` fits into the old capacity
`c` (the backing array is re-used), otherwise what the run time chooses — the abstract `grow c n` -/
def capAppend (grow : Int → Int → Int) (c n : Int) : Int := if n ≤ c then c else grow c n
end Sema.Go

namespace Sema.Go
/-- `*p` of a pointer to a scalar held as `Option` (`&v` of a variable that is assigned once is `some v`);
a nil dereference panics in Go, here it reads the zero value -/
def deref {α : Type} [Inhabited α] (p : Option α) : α := p.getD default
end Sema.Go

namespace Sema.Go
/-- `%d` of an `int` / `int64` -/
def fmtInt (i : Int) : String := toString i
end Sema.Go

namespace Sema.Go
/-- `cmp.Compare(a, b)` on `uint64`: -1 if a < b, +1 if a > b, 0 otherwise -/
def cmpU64 (a b : BitVec 64) : Int := if a < b then -1 else if b < a then 1 else 0
/-- `cmp.Compare(a, b)` on `int` / `int64` -/
def cmpInt (a b : Int) : Int := if a < b then -1 else if b < a then 1 else 0
end Sema.Go

namespace Sema.Go
/-- `copy(dst[lo:hi], src)`: the first `min (len dst[lo:hi]) (len src)` items of the window are overwritten by the first
items of `src`, everything else of `dst` stays (a window reaching past the end panics in Go; here it is cut at the end) -/
def copyInto {α : Type} (dst : List α) (lo hi : Int) (src : List α) : List α :=
  let l := lo.toNat
  let n := min ((min hi.toNat dst.length) - l) src.length
  dst.take l ++ src.take n ++ dst.drop (l + n)
end Sema.Go
