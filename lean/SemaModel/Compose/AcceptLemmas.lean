/-
Compose / acceptance — lemmas for AcceptProps.lean.

  1. `jsonAt` (the specification's path lookup, written on its own) against the model's `Val.pathOk` /
     `getProp` (`jsonAt_cases`), `hasKind` against `typeOk`;
  2. an index's `typesOk` and the whole `indexVerdict` on a change stream, read as "every previous and every
     new document of the stream conforms" (`verdict_iff`), and: no value folding to the empty key ⇒ the flush
     is not refused (`refused_false`);
  3. the change stream of a batch that the point store accepts, described from the reference map
     (`changes_sat`: insert — the documents of the batch; update — `C01.mergedAt`; delete — stored documents);
  4. one step / a history of the combined model against the reference run `refStep` / `refRun`.
-/
import SemaModel.Compose.AcceptModel
import SemaModel.C01.Accept
import SemaModel.Compose.Lemmas
set_option linter.unusedSimpArgs false
set_option linter.unusedVariables false
namespace Sema.Compose
open Sema
open Sema.C01 (Uuid Data Points Shard Ctr PInv CInv)

/-! ### 1. the path lookup -/

theorem lookup_eq_find (m : List (String × C02.Val)) (k : String) :
    m.lookup k = (m.find? fun e => e.1 == k).map (·.2) := by
  induction m with
  | nil => rfl
  | cons e r ih =>
    obtain ⟨a, v⟩ := e
    by_cases h : a = k
    · subst h; simp [List.lookup, List.find?]
    · have h1 : (k == a) = false := by simp [Ne.symm h]
      have h2 : (a == k) = false := by simp [h]
      simp [List.lookup, List.find?, h1, h2, ih]

/-- the specification's lookup and the model's (`pathOk` = `Decoder.Query` does not fail; `getProp` = its
first result, nil counted as absent) agree -/
theorem jsonAt_cases (path : List String) : ∀ (v : C02.Val),
    match jsonAt v path with
    | .absent => v.pathOk path = true ∧ C02.getProp (some v) path = none
    | .blocked => v.pathOk path = false ∧ C02.getProp (some v) path = none
    | .value x => v.pathOk path = true ∧ C02.getProp (some v) path = some x := by
  induction path with
  | nil =>
    intro v
    cases v <;> simp [jsonAt, C02.Val.pathOk, C02.getProp, C02.Val.query]
  | cons k rest ih =>
    intro v
    cases v with
    | map m =>
      simp only [jsonAt, lookup_eq_find]
      cases hf : m.find? (fun e => e.1 == k) with
      | none => simp [C02.Val.pathOk, C02.getProp, C02.Val.query, hf]
      | some e =>
        have := ih e.2
        simp only [Option.map_some]
        cases hj : jsonAt e.2 rest with
        | absent => rw [hj] at this; simpa [C02.Val.pathOk, C02.getProp, C02.Val.query, hf] using this
        | blocked => rw [hj] at this; simpa [C02.Val.pathOk, C02.getProp, C02.Val.query, hf] using this
        | value x => rw [hj] at this; simpa [C02.Val.pathOk, C02.getProp, C02.Val.query, hf] using this
    | nil => simp [jsonAt, C02.Val.pathOk, C02.getProp, C02.Val.query]
    | bool b => simp [jsonAt, C02.Val.pathOk, C02.getProp, C02.Val.query]
    | str b => simp [jsonAt, C02.Val.pathOk, C02.getProp, C02.Val.query]
    | int x => simp [jsonAt, C02.Val.pathOk, C02.getProp, C02.Val.query]
    | flt x => simp [jsonAt, C02.Val.pathOk, C02.getProp, C02.Val.query]
    | arr l => simp [jsonAt, C02.Val.pathOk, C02.getProp, C02.Val.query]

theorem isStr_eq (x : C02.Val) : isStr x = (C02.castStr x).isSome := by cases x <;> rfl

theorem hasKind_eq_typeOk (k : C02.Kind) (x : C02.Val) : hasKind k x = C02.typeOk k (some x) := by
  have hall : ∀ l : List C02.Val, l.all isStr = l.all fun x => (C02.castStr x).isSome := by
    intro l; congr 1; funext x; exact isStr_eq x
  cases k <;> cases x <;> simp [hasKind, C02.typeOk, hall]

/-- what one index checks on one side of a change, in the specification's words -/
def sideOk (k : C02.Kind) (path : List String) : Option C02.Val → Prop
  | none => True
  | some v => fieldOk k (jsonAt v path)

theorem sideOk_iff (k : C02.Kind) (path : List String) (d : Option C02.Val) :
    (C02.docPathOk d path && C02.typeOk k (C02.getProp d path)) = true ↔ sideOk k path d := by
  cases d with
  | none => simp [sideOk, C02.docPathOk, C02.getProp, C02.typeOk]
  | some v =>
    have := jsonAt_cases path v
    simp only [sideOk, C02.docPathOk]
    cases hj : jsonAt v path with
    | absent => rw [hj] at this; simp [fieldOk, this.1, this.2, C02.typeOk]
    | blocked => rw [hj] at this; simp [fieldOk, this.1]
    | value x => rw [hj] at this; simp [fieldOk, this.1, this.2, hasKind_eq_typeOk]

/-! ### 2. the verdict of the indexes on a change stream -/

/-- every index entry is satisfied by the (optional) JSON document -/
def valConforms (schema : Schema) : Option C02.Val → Prop
  | none => True
  | some v => jsonConforms schema v

theorem valConforms_iff (schema : Schema) (d : Option C02.Val) :
    valConforms schema d ↔ ∀ e ∈ schema, sideOk e.2 e.1 d := by
  cases d <;> simp [valConforms, sideOk, jsonConforms]

theorem typesOk_iff (ix : C02.Index) (pcs : List C02.PChange) :
    ix.typesOk pcs = true ↔ ∀ pc ∈ pcs, sideOk ix.kind ix.path pc.prev ∧ sideOk ix.kind ix.path pc.cur := by
  unfold C02.Index.typesOk
  rw [List.all_eq_true]
  refine forall_congr' fun pc => forall_congr' fun _ => ?_
  rw [← sideOk_iff, ← sideOk_iff]
  cases C02.docPathOk pc.prev ix.path <;> cases C02.docPathOk pc.cur ix.path <;>
    cases C02.typeOk ix.kind (C02.getProp pc.prev ix.path) <;> cases C02.typeOk ix.kind (C02.getProp pc.cur ix.path) <;> simp

/-- all indexes pass their type checks ⇔ every previous and every new document of the stream conforms -/
theorem all_typesOk_iff (st : State) (pcs : List C02.PChange) :
    (∀ ix ∈ st.idxs, ix.typesOk pcs = true) ↔
      ∀ pc ∈ pcs, valConforms st.schema pc.prev ∧ valConforms st.schema pc.cur := by
  simp only [typesOk_iff, valConforms_iff, State.schema, List.mem_map]
  constructor
  · intro h pc hpc
    refine ⟨?_, ?_⟩ <;> rintro e ⟨ix, hix, rfl⟩
    · exact (h ix hix pc hpc).1
    · exact (h ix hix pc hpc).2
  · intro h ix hix pc hpc
    exact ⟨(h pc hpc).1 _ ⟨ix, hix, rfl⟩, (h pc hpc).2 _ ⟨ix, hix, rfl⟩⟩

/-! #### the flush is not refused when no value has the empty key -/

section cache
variable {V : Type} (o : C02.Ops V) (kv : KV)

def cvals (c : C02.Cache V) : List V := c.map (·.v)

theorem cvals_update (v : V) (f : C02.IdSet → C02.IdSet × Bool) (c : C02.Cache V) :
    cvals (C02.Cache.update o v f c) = cvals c := by
  induction c with
  | nil => rfl
  | cons e r ih =>
    unfold C02.Cache.update
    split
    · rfl
    · simp only [cvals, List.map_cons] at ih ⊢; rw [ih]

theorem cvals_ensure (c : C02.Cache V) (v : V) : ∀ x ∈ cvals (C02.Cache.ensure o kv c v), x ∈ cvals c ∨ x = v := by
  intro x hx
  unfold C02.Cache.ensure at hx
  split at hx
  · exact Or.inl hx
  · simp only [cvals, List.map_append, List.map_cons, List.map_nil, List.mem_append, List.mem_singleton] at hx
    exact hx

theorem cvals_execPrim (c : C02.Cache V) (p : C02.Prim V) :
    ∀ x ∈ cvals (C02.execPrim o kv c p), x ∈ cvals c ∨ x = (match p with | .add _ v => v | .rem _ v => v) := by
  intro x hx
  cases p with
  | add id v => simp only [C02.execPrim, cvals_update] at hx; exact cvals_ensure o kv c v x hx
  | rem id v => simp only [C02.execPrim, cvals_update] at hx; exact cvals_ensure o kv c v x hx

/-- the values a change mentions -/
def chVals (ch : C02.Change V) : List V := ch.prev.toList ++ ch.cur.toList

theorem cvals_processChange (c : C02.Cache V) (ch : C02.Change V) :
    ∀ x ∈ cvals (C02.processChange o kv c ch), x ∈ cvals c ∨ x ∈ chVals ch := by
  intro x hx
  obtain ⟨id, prev, cur⟩ := ch
  cases prev with
  | none =>
    cases cur with
    | none => exact Or.inl hx
    | some cu =>
      simp only [C02.processChange] at hx
      rcases cvals_execPrim o kv c (.add id cu) x hx with h | h
      · exact Or.inl h
      · exact Or.inr (by simp [chVals, h])
  | some pr =>
    cases cur with
    | none =>
      simp only [C02.processChange] at hx
      rcases cvals_execPrim o kv c (.rem id pr) x hx with h | h
      · exact Or.inl h
      · exact Or.inr (by simp [chVals, h])
    | some cu =>
      simp only [C02.processChange] at hx
      split at hx
      · rcases cvals_execPrim o kv _ (.add id cu) x hx with h | h
        · rcases cvals_execPrim o kv c (.rem id pr) x h with h' | h'
          · exact Or.inl h'
          · exact Or.inr (by simp [chVals, h'])
        · exact Or.inr (by simp [chVals, h])
      · exact Or.inl hx

theorem cvals_foldl (chs : List (C02.Change V)) : ∀ (c : C02.Cache V),
    ∀ x ∈ cvals (chs.foldl (C02.processChange o kv) c), x ∈ cvals c ∨ ∃ ch ∈ chs, x ∈ chVals ch := by
  induction chs with
  | nil => intro c x hx; exact Or.inl hx
  | cons ch rest ih =>
    intro c x hx
    rcases ih _ x hx with h | ⟨ch', hch', h⟩
    · rcases cvals_processChange o kv c ch x h with h' | h'
      · exact Or.inl h'
      · exact Or.inr ⟨ch, List.mem_cons_self, h'⟩
    · exact Or.inr ⟨ch', List.mem_cons_of_mem _ hch', h⟩

/-- no change mentions a value with the empty key ⇒ bbolt's "key required" cannot strike -/
theorem flushRefused_false (chs : List (C02.Change V))
    (h : ∀ ch ∈ chs, ∀ x ∈ chVals ch, (o.key x).isEmpty = false) :
    C02.flushRefused o (C02.batchCache o kv chs) = false := by
  unfold C02.flushRefused C02.batchCache
  rw [List.any_eq_false]
  intro e he
  have hv : e.v ∈ cvals (chs.foldl (C02.processChange o kv) []) := List.mem_map.2 ⟨e, he, rfl⟩
  rcases cvals_foldl o kv chs [] e.v hv with h0 | ⟨ch, hch, hx⟩
  · simp [cvals] at h0
  · simp [h ch hch e.v hx]

end cache

/-- the strings (as the index would key them, before folding) a JSON document holds under a path, for a
string index (`single`) or a string-array index -/
def strsAt (single : Bool) (path : List String) : Option C02.Val → List Bytes
  | none => []
  | some v =>
    match jsonAt v path with
    | .value (.str b) => if single then [b] else []
    | .value (.arr l) => if single then [] else l.filterMap C02.castStr
    | _ => []

theorem castStr_getProp (path : List String) (d : Option C02.Val) (b : Bytes)
    (h : (C02.getProp d path).bind C02.castStr = some b) : b ∈ strsAt true path d := by
  cases d with
  | none => simp [C02.getProp] at h
  | some v =>
    have := jsonAt_cases path v
    cases hj : jsonAt v path with
    | absent => rw [hj] at this; simp [this.2] at h
    | blocked => rw [hj] at this; simp [this.2] at h
    | value x =>
      rw [hj] at this
      rw [this.2] at h
      cases x <;> simp [C02.castStr] at h
      subst h
      simp [strsAt, hj]

theorem castArr_getProp (path : List String) (d : Option C02.Val) (b : Bytes)
    (h : b ∈ ((C02.getProp d path).map C02.castArr).getD []) : b ∈ strsAt false path d := by
  cases d with
  | none => simp [C02.getProp] at h
  | some v =>
    have := jsonAt_cases path v
    cases hj : jsonAt v path with
    | absent => rw [hj] at this; simp [this.2] at h
    | blocked => rw [hj] at this; simp [this.2] at h
    | value x =>
      rw [hj] at this
      rw [this.2] at h
      cases x <;> simp [C02.castArr] at h
      simp only [strsAt, hj]
      simpa using h

/-- no string under the index's path, on either side of any change, folds to the empty key ⇒ the index's
flush is not refused -/
theorem refused_false (lower : Bytes → Bytes) (ix : C02.Index) (pcs : List C02.PChange)
    (h : ∀ pc ∈ pcs, ∀ cs,
      (ix.kind = .str cs → ∀ b, b ∈ strsAt true ix.path pc.prev ∨ b ∈ strsAt true ix.path pc.cur → C02.fold lower cs b ≠ []) ∧
      (ix.kind = .strArr cs → ∀ b, b ∈ strsAt false ix.path pc.prev ∨ b ∈ strsAt false ix.path pc.cur → C02.fold lower cs b ≠ [])) :
    ix.refused lower pcs = false := by
  have hkey : ∀ x : Bytes, x ≠ [] → (C02.strOps.key x).isEmpty = false := by
    intro x hx
    show (Gen.Sortable.toByteSortable_string x).isEmpty = false
    unfold Gen.Sortable.toByteSortable_string
    cases x with
    | nil => exact absurd rfl hx
    | cons _ _ => rfl
  unfold C02.Index.refused
  cases hk : ix.kind with
  | int => rfl
  | flt => rfl
  | str cs =>
    simp only []
    unfold C02.Index.cacheStr
    apply flushRefused_false
    intro ch hch x hx
    obtain ⟨ch0, hch0, rfl⟩ := List.mem_map.1 hch
    obtain ⟨pc, hpc, htc⟩ := List.mem_filterMap.1 hch0
    have hh := (h pc hpc cs).1 hk
    apply hkey
    unfold C02.toChange at htc
    have hcase : ch0 = ⟨pc.id, (C02.getProp pc.prev ix.path).bind C02.castStr, (C02.getProp pc.cur ix.path).bind C02.castStr⟩ := by
      split at htc
      · cases htc
      · exact (Option.some.inj htc).symm
    subst hcase
    simp only [chVals, C02.foldChange, List.mem_append, Option.mem_toList, Option.map_eq_some_iff] at hx
    rcases hx with ⟨b, hb, rfl⟩ | ⟨b, hb, rfl⟩
    · exact hh b (Or.inl (castStr_getProp _ _ b hb))
    · exact hh b (Or.inr (castStr_getProp _ _ b hb))
  | strArr cs =>
    simp only []
    unfold C02.Index.cacheArr
    apply flushRefused_false
    intro ch hch x hx
    obtain ⟨ac, hac, hdiff⟩ := List.mem_flatMap.1 hch
    obtain ⟨ac0, hac0, rfl⟩ := List.mem_map.1 hac
    obtain ⟨pc, hpc, htc⟩ := List.mem_filterMap.1 hac0
    have hh := (h pc hpc cs).2 hk
    apply hkey
    unfold C02.toArrChange at htc
    have hcase : ac0 = ⟨pc.id, ((C02.getProp pc.prev ix.path).map C02.castArr).getD [],
        ((C02.getProp pc.cur ix.path).map C02.castArr).getD []⟩ := by
      split at htc
      · cases htc
      · exact (Option.some.inj htc).symm
    subst hcase
    simp only [C02.arrDiff, C02.foldArrChange, List.mem_append, List.mem_map, List.mem_filter] at hdiff
    rcases hdiff with ⟨v, ⟨hv, _⟩, rfl⟩ | ⟨v, ⟨hv, _⟩, rfl⟩
    · obtain ⟨b, hb, rfl⟩ := hv
      simp only [chVals, Option.toList, List.nil_append, List.mem_singleton, List.append_nil] at hx
      subst hx
      exact hh b (Or.inr (castArr_getProp _ _ b hb))
    · obtain ⟨b, hb, rfl⟩ := hv
      simp only [chVals, Option.toList, List.nil_append, List.mem_singleton, List.append_nil] at hx
      subst hx
      exact hh b (Or.inl (castArr_getProp _ _ b hb))

/-- the file-backend side condition on one (optional) JSON document -/
def valEmptyFree (lower : Bytes → Bytes) (schema : Schema) (d : Option C02.Val) : Prop :=
  ∀ e ∈ schema, ∀ cs,
    (e.2 = .str cs → ∀ b ∈ strsAt true e.1 d, C02.fold lower cs b ≠ []) ∧
    (e.2 = .strArr cs → ∀ b ∈ strsAt false e.1 d, C02.fold lower cs b ≠ [])

theorem valEmptyFree_of_emptyFree (lower : Bytes → Bytes) (cv : Conv) (schema : Schema) (d : C01.Doc)
    (h : emptyFree lower cv schema d) : valEmptyFree lower schema (some (idxDoc cv d)) := by
  have hne : ∀ (cs : Bool) (b : Bytes), strNonEmpty lower cs (.str b) = true → C02.fold lower cs b ≠ [] := by
    intro cs b hb
    simp only [strNonEmpty, Bool.not_eq_true'] at hb
    unfold C02.fold
    intro he; rw [he] at hb; cases hb
  intro e he cs
  have := h e he
  refine ⟨fun hk b hb => ?_, fun hk b hb => ?_⟩
  · rw [hk] at this
    simp only [strsAt] at hb
    cases hj : jsonAt (idxDoc cv d) e.1 with
    | absent => rw [hj] at hb; simp at hb
    | blocked => rw [hj] at hb; simp at hb
    | value x =>
      rw [hj] at hb this
      cases x <;> simp at hb
      subst hb
      exact hne cs _ this
  · rw [hk] at this
    simp only [strsAt] at hb
    cases hj : jsonAt (idxDoc cv d) e.1 with
    | absent => rw [hj] at hb; simp at hb
    | blocked => rw [hj] at hb; simp at hb
    | value x =>
      rw [hj] at hb this
      cases x <;> simp at hb
      obtain ⟨y, hy, hc⟩ := hb
      cases y <;> simp [C02.castStr] at hc
      rw [← hc]
      simp only [emptyFreeAt, List.all_eq_true] at this
      exact hne cs _ (this _ hy)

/-- **the verdict of the indexes, in the specification's words.**  If (on the file backend) no document of
the stream holds a string folding to the empty key, the computed verdict says exactly: every previous and
every new document of the change stream conforms to the schema. -/
theorem verdict_iff (lower : Bytes → Bytes) (st : State) (pcs : List C02.PChange)
    (hB : st.bolt = true → ∀ pc ∈ pcs, valEmptyFree lower st.schema pc.prev ∧ valEmptyFree lower st.schema pc.cur) :
    indexVerdict lower st pcs = true ↔ ∀ pc ∈ pcs, valConforms st.schema pc.prev ∧ valConforms st.schema pc.cur := by
  rw [← all_typesOk_iff]
  unfold indexVerdict
  rw [List.all_eq_true]
  refine forall_congr' fun ix => forall_congr' fun hix => ?_
  cases hb : st.bolt with
  | false => simp
  | true =>
    have hr : ix.refused lower pcs = false := by
      apply refused_false
      intro pc hpc cs
      obtain ⟨h1, h2⟩ := hB hb pc hpc
      have hmem : (ix.path, ix.kind) ∈ st.schema := List.mem_map.2 ⟨ix, hix, rfl⟩
      refine ⟨fun hk b hb' => ?_, fun hk b hb' => ?_⟩
      · rcases hb' with hb' | hb'
        · exact (h1 _ hmem cs).1 hk b hb'
        · exact (h2 _ hmem cs).1 hk b hb'
      · rcases hb' with hb' | hb'
        · exact (h1 _ hmem cs).2 hk b hb'
        · exact (h2 _ hmem cs).2 hk b hb'
    simp [hr]

/-! ### 3. the change stream of a batch the point store accepts, described from the reference map -/

section changes
variable (cv : Conv) (G : Option C02.Val → Prop)

theorem insertChanges_sat (hG : G none) (b : List (Uuid × Data)) : ∀ (p : Points) (c : Ctr),
    (∀ e ∈ b, C01.AL.get p.pI e.1 = none) → (C01.AL.keys b).Nodup →
    ((∀ pc ∈ insertChanges cv p c b, G pc.prev ∧ G pc.cur) ↔
      ∀ e ∈ b, C01.DataSat (fun d => G (some (idxDoc cv d))) e.2) := by
  induction b with
  | nil => intro p c _ _; simp [insertChanges]
  | cons e rest ih =>
    obtain ⟨u, d⟩ := e
    intro p c hnone hn
    have hu : C01.AL.get p.pI u = none := hnone (u, d) List.mem_cons_self
    have hch : insertChanges cv p c ((u, d) :: rest) =
        ⟨nid c.nextId.1, none, idxData cv d⟩ :: insertChanges cv (C01.setPoint p u c.nextId.1 d) c.nextId.2 rest := by
      simp [insertChanges, hu]
    simp only [C01.AL.keys_cons, List.nodup_cons] at hn
    have hnone' : ∀ e ∈ rest, C01.AL.get (C01.setPoint p u c.nextId.1 d).pI e.1 = none := by
      intro e he
      rw [C01.setPoint_pI, C01.AL.get_put]
      have hne : u ≠ e.1 := by
        intro h; apply hn.1; rw [h]; exact List.mem_map.2 ⟨e, he, rfl⟩
      rw [if_neg hne]; exact hnone e (List.mem_cons_of_mem _ he)
    rw [hch, List.forall_mem_cons, List.forall_mem_cons, ih _ _ hnone' hn.2]
    refine and_congr ?_ Iff.rfl
    cases d with
    | none => simp [idxData, C01.DataSat, hG]
    | some dd => simp [idxData, C01.DataSat, hG]

theorem updateChanges_sat (cfg : C01.Cfg) (b : List (Uuid × Data)) : ∀ (p : Points), PInv p →
    (∀ n, n < b.length → C01.WriteFits cfg (C01.mergedAt (C01.absP p) b n)) →
    (∀ u d, C01.AL.get (C01.absP p) u = some (some d) → G (some (idxDoc cv d))) →
    ((∀ pc ∈ updateChanges cfg cv p b, G pc.prev ∧ G pc.cur) ↔
      ∀ n, n < b.length → C01.WriteSat (fun d => G (some (idxDoc cv d))) (C01.mergedAt (C01.absP p) b n)) := by
  induction b with
  | nil => intro p _ _ _; simp [updateChanges]
  | cons e rest ih =>
    obtain ⟨u, inc⟩ := e
    intro p hp hF hP
    have h0 : C01.WriteFits cfg (C01.mergedAt (C01.absP p) ((u, inc) :: rest) 0) := hF 0 (Nat.succ_pos _)
    have hne := C01.writeFits_ne h0
    have hF' := ((C01.forall_mergedAt_cons (C01.WriteFits cfg) (C01.absP p) _ rest hne).1 hF).2
    rw [C01.forall_mergedAt_cons _ (C01.absP p) _ rest hne]
    rw [C01.mergedAt_zero] at h0 ⊢
    cases hu : C01.AL.get p.pI u with
    | none =>
      have hg : C01.AL.get (C01.absP p) u = none := by rw [C01.get_absP, hu]; rfl
      have hs : C01.stepC (C01.absP p) (u, inc) = C01.absP p := by simp [C01.stepC, hg]
      have hch : updateChanges cfg cv p ((u, inc) :: rest) = updateChanges cfg cv p rest := by simp [updateChanges, hu]
      rw [hs] at hF' ⊢
      rw [hch, ih p hp hF' hP]
      simp [hg, C01.WriteSat]
    | some id =>
      cases hd : C01.AL.get p.nD id with
      | none =>
        have hg : C01.AL.get (C01.absP p) u = some none := by rw [C01.get_absP, hu]; simp [hd]
        simp [hg, C01.mergeAll, C01.WriteFits] at h0
      | some old =>
        have hg : C01.AL.get (C01.absP p) u = some (some old) := by rw [C01.get_absP, hu]; simp [hd]
        cases inc with
        | none => simp [hg, C01.mergeAll, C01.WriteFits] at h0
        | some i =>
          simp only [hg, Option.map_some, C01.mergeAll, C01.WriteFits] at h0
          have hsz : ¬ cfg.size (C01.merge old i) > cfg.maxSize := by omega
          have hch : updateChanges cfg cv p ((u, some i) :: rest) =
              ⟨nid id, some (idxDoc cv old), some (idxDoc cv (C01.merge old i))⟩ ::
                updateChanges cfg cv (C01.setPoint p u id (some (C01.merge old i))) rest := by
            simp [updateChanges, hu, hd, hsz]
          have hs : C01.stepC (C01.absP p) (u, some i) = C01.AL.put (C01.absP p) u (some (C01.merge old i)) := by
            simp [C01.stepC, hg]
          obtain ⟨hp1, habs1, _, _⟩ := C01.setPoint_live hp hu (C01.merge old i)
          rw [hs, ← habs1] at hF' ⊢
          rw [hch, List.forall_mem_cons]
          simp only [hg, Option.map_some, C01.mergeAll, C01.WriteSat]
          have hold : G (some (idxDoc cv old)) := hP u old hg
          constructor
          · rintro ⟨⟨_, hm⟩, htail⟩
            refine ⟨hm, (ih _ hp1 hF' ?_).1 htail⟩
            intro u' d' hg'
            rw [habs1, C01.AL.get_put] at hg'
            by_cases huu : u = u'
            · rw [if_pos huu] at hg'; rw [← Option.some.inj (Option.some.inj hg')]; exact hm
            · rw [if_neg huu] at hg'; exact hP u' d' hg'
          · rintro ⟨hm, htail⟩
            refine ⟨⟨hold, hm⟩, (ih _ hp1 hF' ?_).2 htail⟩
            intro u' d' hg'
            rw [habs1, C01.AL.get_put] at hg'
            by_cases huu : u = u'
            · rw [if_pos huu] at hg'; rw [← Option.some.inj (Option.some.inj hg')]; exact hm
            · rw [if_neg huu] at hg'; exact hP u' d' hg'

theorem deleteChanges_sat (hG : G none) (iter : List Uuid) : ∀ (p : Points), PInv p →
    (∀ u d, C01.AL.get (C01.absP p) u = some (some d) → G (some (idxDoc cv d))) →
    ∀ pc ∈ deleteChanges cv p iter, G pc.prev ∧ G pc.cur := by
  induction iter with
  | nil => intro p _ _ pc h; simp [deleteChanges] at h
  | cons u rest ih =>
    intro p hp hP pc hpc
    cases hu : C01.AL.get p.pI u with
    | none =>
      have h2 : deleteChanges cv p (u :: rest) = deleteChanges cv p rest := by simp [deleteChanges, hu]
      rw [h2] at hpc; exact ih p hp hP pc hpc
    | some id =>
      have h2 : deleteChanges cv p (u :: rest) =
          ⟨nid id, idxData cv (C01.AL.get p.nD id), none⟩ :: deleteChanges cv (C01.deletePoint p u id) rest := by
        simp [deleteChanges, hu]
      rw [h2] at hpc
      obtain ⟨hp1, habs1, _, _, _⟩ := C01.deletePoint_live hp hu
      rcases List.mem_cons.1 hpc with rfl | hpc
      · refine ⟨?_, hG⟩
        cases hd : C01.AL.get p.nD id with
        | none => simpa [idxData] using hG
        | some d =>
          simp only [idxData, Option.map_some]
          exact hP u d (by rw [C01.get_absP, hu]; simp [hd])
      · refine ih _ hp1 ?_ pc hpc
        intro u' d' hg'
        rw [habs1] at hg'
        have : C01.AL.get (C01.AL.del (C01.absP p) u) u' = some (some d') := hg'
        rw [C01.AL.get_del] at this
        by_cases huu : u = u'
        · rw [if_pos huu] at this; cases this
        · rw [if_neg huu] at this; exact hP u' d' this

/-- **the change stream, read from the reference map.**  For a batch the point store accepts, from a state
all of whose stored documents satisfy `G`: every previous and every new document of the change stream
satisfies `G` exactly when every document the batch WRITES (`C01.EachWritten`: the inserted documents; the
merged documents `C01.mergedAt`; nothing for a delete) does. -/
theorem changes_sat (hG : G none) (cfg : C01.Cfg) (s : Shard) (hI : C01.Inv s) (op : C01.Op) (o : C01.Oracle)
    (hS : C01.StoreAcceptable cfg (C01.abs s) op)
    (hP : ∀ u d, C01.AL.get (C01.abs s) u = some (some d) → G (some (idxDoc cv d))) :
    (∀ pc ∈ changes cfg cv s op o, G pc.prev ∧ G pc.cur) ↔
      C01.EachWritten (fun d => G (some (idxDoc cv d))) (C01.abs s) op := by
  cases op with
  | insert b =>
    obtain ⟨hn, hnone⟩ := hS
    refine insertChanges_sat cv G hG b s.pts (C01.newIdCounter s o) ?_ hn
    intro e he
    have := hnone e he
    rw [C01.abs, C01.get_absP] at this
    cases hg : C01.AL.get s.pts.pI e.1 with
    | none => rfl
    | some id => rw [hg] at this; cases this
  | update b => exact updateChanges_sat cv G cfg b s.pts hI.pts hS hP
  | delete ids =>
    simp only [C01.EachWritten, iff_true]
    exact deleteChanges_sat cv G hG _ s.pts hI.pts hP

end changes

/-! ### 4. one step and a history against the reference run -/

theorem accepted_eq (x : C01.Out) : x.accepted = !(isRejected x) := by cases x <;> rfl

theorem valEmptyFree_none (lower : Bytes → Bytes) (schema : Schema) : valEmptyFree lower schema none := by
  intro e _ cs; simp [strsAt]

/-- the state of the documents that `Accept_iff` needs: C01's invariant of the point store, every stored
document conforms to the schema, and — on the file backend — no stored document holds an indexed string
folding to the empty key -/
structure AInv (lower : Bytes → Bytes) (cv : Conv) (st : State) : Prop where
  store : C01.Inv st.shard
  conf : ∀ u d, C01.AL.get (C01.abs st.shard) u = some (some d) → conforms cv st.schema d
  nonempty : st.bolt = true → ∀ u d, C01.AL.get (C01.abs st.shard) u = some (some d) → emptyFree lower cv st.schema d

/-- the file-backend side condition of one batch -/
def BoltStep (lower : Bytes → Bytes) (cv : Conv) (st : State) (op : C01.Op) : Prop :=
  st.bolt = true → C01.EachWritten (emptyFree lower cv st.schema) (C01.abs st.shard) op

/-- **the computed verdict is the independent predicate** (schema part): for a batch the point store accepts,
`indexVerdict` on the model's own change stream says exactly that every written document conforms -/
theorem verdict_written (lower : Bytes → Bytes) (cv : Conv) (cfg : C01.Cfg) {st : State} (hA : AInv lower cv st)
    (op : C01.Op) (o : C01.Oracle) (hB : BoltStep lower cv st op)
    (hS : C01.StoreAcceptable cfg (C01.abs st.shard) op) :
    indexVerdict lower st (changes cfg cv st.shard op o) = true ↔
      C01.EachWritten (conforms cv st.schema) (C01.abs st.shard) op := by
  rw [verdict_iff lower st _ ?_]
  · exact changes_sat cv (valConforms st.schema) trivial cfg st.shard hA.store op o hS hA.conf
  · intro hb
    refine (changes_sat cv (valEmptyFree lower st.schema) (valEmptyFree_none lower st.schema) cfg st.shard hA.store op o hS ?_).2 ?_
    · intro u d hg; exact valEmptyFree_of_emptyFree lower cv st.schema d (hA.nonempty hb u d hg)
    · exact C01.eachWritten_mono (valEmptyFree_of_emptyFree lower cv st.schema) _ _ (hB hb)

theorem step_accept_iff (lower : Bytes → Bytes) (cv : Conv) (cfg : C01.Cfg) {st : State} (hA : AInv lower cv st)
    (op : C01.Op) (o : C01.Oracle) (hB : BoltStep lower cv st op) :
    (st.step lower cv cfg op o).2.accepted = true ↔ Acceptable cv cfg st.schema (C01.abs st.shard) op := by
  rw [(step_shard lower cv cfg st op o).2, C01.C01_accept_iff cfg st.shard op _ hA.store, acceptable_iff]
  constructor
  · rintro ⟨hS, hv⟩; exact ⟨hS, (verdict_written lower cv cfg hA op o hB hS).1 hv⟩
  · rintro ⟨hS, hw⟩; exact ⟨hS, (verdict_written lower cv cfg hA op o hB hS).2 hw⟩

/-- the reference step: what it does when the batch is acceptable, and when it is not -/
theorem refStep_accepted (cv : Conv) (cfg : C01.Cfg) (schema : Schema) (c : C01.Coll) (op : C01.Op) :
    (refStep cv cfg schema c op).2.accepted = true ↔ Acceptable cv cfg schema c op := by
  unfold refStep
  rw [C01.C01_coll_accept_iff, acceptable_iff, decide_eq_true_iff]

theorem refStep_of_acceptable (cv : Conv) (cfg : C01.Cfg) (schema : Schema) (c : C01.Coll) (op : C01.Op)
    (h : Acceptable cv cfg schema c op) : refStep cv cfg schema c op = C01.Coll.step cfg c op true := by
  unfold refStep
  rw [decide_eq_true ((acceptable_iff cv cfg schema c op).1 h).2]

theorem coll_step_rejected (cfg : C01.Cfg) (c : C01.Coll) (op : C01.Op) (v : Bool)
    (h : (C01.Coll.step cfg c op v).2.accepted = false) : (C01.Coll.step cfg c op v).1 = c := by
  cases op with
  | insert b =>
    simp only [C01.Coll.step, C01.Coll.insert] at h ⊢
    split
    · rfl
    · split
      · rfl
      · split
        · rfl
        · rename_i h1 h2 h3; simp [h1, h2, h3, C01.Out.accepted] at h
  | update b =>
    simp only [C01.Coll.step, C01.Coll.update] at h ⊢
    cases hl : C01.Coll.updateLoop cfg c b [] with
    | error e => rfl
    | ok r =>
      cases v with
      | false => rfl
      | true => simp [hl, C01.Out.accepted] at h
  | delete ids =>
    cases v with
    | false => rfl
    | true => simp [C01.Coll.step, C01.Coll.delete, C01.Out.accepted] at h

theorem refStep_of_not_acceptable (cv : Conv) (cfg : C01.Cfg) (schema : Schema) (c : C01.Coll) (op : C01.Op)
    (h : ¬ Acceptable cv cfg schema c op) : (refStep cv cfg schema c op).1 = c := by
  apply coll_step_rejected
  cases ha : (C01.Coll.step cfg c op (decide (C01.EachWritten (conforms cv schema) c op))).2.accepted with
  | false => rfl
  | true => exact absurd ((refStep_accepted cv cfg schema c op).1 ha) h

/-- one step of the combined model is the reference step (state and reported result) -/
theorem step_refStep (lower : Bytes → Bytes) (cv : Conv) (cfg : C01.Cfg) {st : State} (hA : AInv lower cv st)
    (op : C01.Op) (o : C01.Oracle) (hB : BoltStep lower cv st op) :
    C01.abs (st.step lower cv cfg op o).1.shard = (refStep cv cfg st.schema (C01.abs st.shard) op).1 ∧
    C01.Out.equiv (st.step lower cv cfg op o).2 (refStep cv cfg st.schema (C01.abs st.shard) op).2 := by
  obtain ⟨hs1, hs2⟩ := step_shard lower cv cfg st op o
  obtain ⟨_, k2, k3⟩ := C01.C01_step cfg st.shard op (withVerdict lower cv cfg st op o) hA.store
  have hcong : C01.Coll.step cfg (C01.abs st.shard) op (withVerdict lower cv cfg st op o).indexOk =
      refStep cv cfg st.schema (C01.abs st.shard) op := by
    unfold refStep
    apply C01.coll_step_congr
    intro hS
    have := verdict_written lower cv cfg hA op o hB hS
    show indexVerdict lower st (changes cfg cv st.shard op o) = decide _
    cases hv : indexVerdict lower st (changes cfg cv st.shard op o) with
    | true => exact (decide_eq_true (this.1 hv)).symm
    | false =>
      symm; apply decide_eq_false
      intro hw; rw [this.2 hw] at hv; cases hv
  rw [hs1, hs2, ← hcong]
  exact ⟨k2, k3⟩

theorem step_bolt (lower : Bytes → Bytes) (cv : Conv) (cfg : C01.Cfg) (st : State) (op : C01.Op) (o : C01.Oracle) :
    (st.step lower cv cfg op o).1.bolt = st.bolt := by
  cases hr : isRejected (st.step lower cv cfg op o).2 with
  | true => rw [step_rejected_same lower cv cfg st op o hr]
  | false => exact (step_idxs lower cv cfg st op o hr).2

/-- the document invariant is kept by every step -/
theorem step_ainv (lower : Bytes → Bytes) (cv : Conv) (cfg : C01.Cfg) {st : State} (hA : AInv lower cv st)
    (op : C01.Op) (o : C01.Oracle) (hB : BoltStep lower cv st op) :
    AInv lower cv (st.step lower cv cfg op o).1 := by
  cases hr : isRejected (st.step lower cv cfg op o).2 with
  | true => rw [step_rejected_same lower cv cfg st op o hr]; exact hA
  | false =>
    have hacc : (st.step lower cv cfg op o).2.accepted = true := by rw [accepted_eq, hr]; rfl
    have hAcc := (step_accept_iff lower cv cfg hA op o hB).1 hacc
    obtain ⟨hS, hW⟩ := (acceptable_iff cv cfg st.schema _ op).1 hAcc
    have habs := (step_refStep lower cv cfg hA op o hB).1
    rw [refStep_of_acceptable cv cfg st.schema _ op hAcc] at habs
    have hstore : C01.Inv (st.step lower cv cfg op o).1.shard := by
      rw [(step_shard lower cv cfg st op o).1]
      exact (C01.C01_step cfg st.shard op (withVerdict lower cv cfg st op o) hA.store).1
    refine ⟨hstore, ?_, ?_⟩
    · rw [step_schema, habs]
      exact C01.C01_step_written cfg _ _ op hS hW hA.conf
    · rw [step_bolt, step_schema, habs]
      intro hb
      exact C01.C01_step_written cfg _ _ op hS (hB hb) (hA.nonempty hb)

theorem init_ainv (lower : Bytes → Bytes) (cv : Conv) (schema : Schema) (bolt : Bool) :
    AInv lower cv (State.init schema bolt) := by
  have he : C01.abs (State.init schema bolt).shard = [] := rfl
  refine ⟨C01.Inv_empty, ?_, ?_⟩
  · intro u d h; rw [he] at h; cases h
  · intro _ u d h; rw [he] at h; cases h

/-- a history of the combined model is the reference run -/
theorem run_refRun (lower : Bytes → Bytes) (cv : Conv) (cfg : C01.Cfg) (h : List (C01.Op × C01.Oracle)) : ∀ (st : State),
    AInv lower cv st → BoltOK lower cv cfg st.schema st.bolt (C01.abs st.shard) (h.map (·.1)) →
    AInv lower cv (State.run lower cv cfg st h).1 ∧
    C01.abs (State.run lower cv cfg st h).1.shard = (refRun cv cfg st.schema (C01.abs st.shard) (h.map (·.1))).1 ∧
    C01.Out.equivList (State.run lower cv cfg st h).2 (refRun cv cfg st.schema (C01.abs st.shard) (h.map (·.1))).2 := by
  induction h with
  | nil => intro st hA _; exact ⟨hA, rfl, trivial⟩
  | cons e rest ih =>
    obtain ⟨op, o⟩ := e
    intro st hA hB
    simp only [List.map_cons, BoltOK] at hB
    obtain ⟨h1, h2⟩ := step_refStep lower cv cfg hA op o hB.1
    have hA' := step_ainv lower cv cfg hA op o hB.1
    have hB' : BoltOK lower cv cfg (st.step lower cv cfg op o).1.schema (st.step lower cv cfg op o).1.bolt
        (C01.abs (st.step lower cv cfg op o).1.shard) (rest.map (·.1)) := by
      rw [step_schema, step_bolt, h1]; exact hB.2
    obtain ⟨j0, j1, j2⟩ := ih _ hA' hB'
    rw [step_schema, h1] at j1 j2
    simp only [State.run, List.map_cons, refRun]
    exact ⟨j0, j1, h2, j2⟩

end Sema.Compose
