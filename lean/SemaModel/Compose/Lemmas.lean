/-
Compose — lemmas connecting C01's point store, C02's indexes and C06's answer pipeline.
-/
import SemaModel.Compose.Model
import SemaModel.C01.Props
import SemaModel.C02.Props
import SemaModel.C06.Props
set_option linter.unusedSimpArgs false
namespace Sema.Compose
open Sema
open Sema.C01 (Points Ctr Shard PInv CInv Uuid Data)

/-! ### node ids: `uint64` in the indexes, `Nat` in the point store model -/

/-- fewer than `2^63` node ids: the ids fit `uint64` and every result length fits Go's `int` -/
def idBound : Nat := 2 ^ 63

theorem nid_toNat {n : Nat} (h : n < idBound) : (nid n).toNat = n := by
  unfold idBound at h
  simp only [nid, BitVec.toNat_ofNat]
  omega

theorem nid_of_toNat (i : C02.Id) : nid i.toNat = i := by
  simp [nid]

theorem eq_nid_iff {n : Nat} (h : n < idBound) (i : C02.Id) : i = nid n ↔ i.toNat = n := by
  constructor
  · intro e; rw [e]; exact nid_toNat h
  · intro e; rw [← e]; exact (nid_of_toNat i).symm

theorem nid_inj {a b : Nat} (ha : a < idBound) (hb : b < idBound) (h : nid a = nid b) : a = b := by
  have := congrArg BitVec.toNat h
  rwa [nid_toNat ha, nid_toNat hb] at this

/-- every live node id is below the bound -/
def LiveBound (p : Points) : Prop := ∀ id u, C01.AL.get p.nI id = some u → id < idBound

/-- the document (index view) stored under a node id; nothing for an unused id or zero-length data -/
def docAt (cv : Conv) (p : Points) (i : C02.Id) : Option C02.Val := (C01.AL.get p.nD i.toNat).map (idxDoc cv)

theorem docAt_nid (cv : Conv) (p : Points) {n : Nat} (h : n < idBound) :
    docAt cv p (nid n) = idxData cv (C01.AL.get p.nD n) := by
  simp [docAt, idxData, nid_toNat h]

theorem nD_none_of_dead {p : Points} (hp : PInv p) {id : Nat} (h : C01.AL.get p.nI id = none) : C01.AL.get p.nD id = none := by
  cases hd : C01.AL.get p.nD id with
  | none => rfl
  | some d =>
    have := hp.nD_live id (by rw [hd]; rfl)
    rw [h] at this; cases this

/-- writing the data of node id `n` is `updD` at `nid n` -/
theorem docAt_setPoint (cv : Conv) (p : Points) (u : Uuid) {n : Nat} (h : n < idBound) (d : Data) :
    docAt cv (C01.setPoint p u n d) = C02.updD (docAt cv p) (nid n) (idxData cv d) := by
  funext i
  unfold C02.updD docAt
  by_cases hi : i.toNat = n
  · have e : i = nid n := (eq_nid_iff h i).2 hi
    rw [if_pos e, hi]
    cases d with
    | none => show (C01.AL.get (C01.AL.del p.nD n) n).map (idxDoc cv) = _; simp [C01.AL.get_del, idxData]
    | some d => show (C01.AL.get (C01.AL.put p.nD n d) n).map (idxDoc cv) = _; simp [C01.AL.get_put, idxData]
  · have e : ¬ i = nid n := fun e => hi ((eq_nid_iff h i).1 e)
    have hn : ¬ n = i.toNat := fun e => hi e.symm
    rw [if_neg e]
    cases d with
    | none => show (C01.AL.get (C01.AL.del p.nD n) i.toNat).map (idxDoc cv) = _; simp [C01.AL.get_del, hn]
    | some d => show (C01.AL.get (C01.AL.put p.nD n d) i.toNat).map (idxDoc cv) = _; simp [C01.AL.get_put, hn]

theorem docAt_deletePoint (cv : Conv) (p : Points) (u : Uuid) {n : Nat} (h : n < idBound) :
    docAt cv (C01.deletePoint p u n) = C02.updD (docAt cv p) (nid n) none := by
  funext i
  unfold C02.updD docAt
  show (C01.AL.get (C01.AL.del p.nD n) i.toNat).map (idxDoc cv) = _
  by_cases hi : i.toNat = n
  · have e : i = nid n := (eq_nid_iff h i).2 hi
    rw [if_pos e, hi]; simp [C01.AL.get_del]
  · have e : ¬ i = nid n := fun e => hi ((eq_nid_iff h i).1 e)
    have hn : ¬ n = i.toNat := fun e => hi e.symm
    rw [if_neg e]; simp [C01.AL.get_del, hn]

/-! ### the change stream of a batch is a chain over the point store (C02's `PChain`) -/

theorem nextId_next_le (c : Ctr) : c.next ≤ c.nextId.2.next := by
  obtain ⟨free, next⟩ := c
  cases free <;> simp [Ctr.nextId]

/-- InsertPoints -/
theorem insert_chain (cv : Conv) (b : List (Uuid × Data)) : ∀ (p : Points) (c : Ctr) (p' : Points) (c' : Ctr),
    PInv p → CInv p.nI c.free c.next → C01.insertLoop p c b = .ok (p', c') → c'.next ≤ idBound →
    C02.PChain (docAt cv p) (insertChanges cv p c b) (docAt cv p') ∧ c.next ≤ c'.next := by
  induction b with
  | nil =>
    intro p c p' c' _ _ h _
    simp only [C01.insertLoop, Except.ok.injEq, Prod.mk.injEq] at h
    obtain ⟨rfl, rfl⟩ := h
    exact ⟨C02.PChain.nil _, Nat.le_refl _⟩
  | cons e rest ih =>
    obtain ⟨u, d⟩ := e
    intro p c p' c' hp hc h hb
    by_cases hex : (C01.AL.get p.pI u).isSome = true
    · simp [C01.insertLoop, hex] at h
    · have hu : C01.AL.get p.pI u = none := by
        cases hg : C01.AL.get p.pI u with
        | none => rfl
        | some _ => rw [hg] at hex; exact absurd rfl hex
      have hl : C01.insertLoop p c ((u, d) :: rest) = C01.insertLoop (C01.setPoint p u c.nextId.1 d) c.nextId.2 rest := by
        simp [C01.insertLoop, hu]
      have hch : insertChanges cv p c ((u, d) :: rest) =
          ⟨nid c.nextId.1, none, idxData cv d⟩ :: insertChanges cv (C01.setPoint p u c.nextId.1 d) c.nextId.2 rest := by
        simp [insertChanges, hu]
      rw [hl] at h
      obtain ⟨hid, hc1⟩ := C01.nextId_spec c hc u
      obtain ⟨hp1, _, _, hnI1⟩ := C01.setPoint_new hp hu hid d
      rw [← hnI1] at hc1
      obtain ⟨ihc, ihn⟩ := ih _ _ p' c' hp1 hc1 h hb
      have hlive : C01.AL.get (C01.setPoint p u c.nextId.1 d).nI c.nextId.1 = some u := by
        rw [hnI1, C01.AL.get_put]; simp
      have hlt : c.nextId.1 < idBound := by
        have := (hc1.live_range _ _ hlive).2
        omega
      rw [hch]
      refine ⟨C02.PChain.cons ?_ ?_, Nat.le_trans (nextId_next_le c) ihn⟩
      · show docAt cv p (nid c.nextId.1) = none
        rw [docAt_nid cv p hlt, nD_none_of_dead hp hid]; rfl
      · show C02.PChain (C02.updD (docAt cv p) (nid c.nextId.1) (idxData cv d)) _ _
        rw [← docAt_setPoint cv p u hlt d]
        exact ihc

/-- UpdatePoints -/
theorem update_chain (cfg : C01.Cfg) (cv : Conv) (b : List (Uuid × Data)) : ∀ (p : Points) (acc : List Uuid) (p' : Points) (a : List Uuid),
    PInv p → LiveBound p → C01.updateLoop cfg p b acc = .ok (p', a) →
    C02.PChain (docAt cv p) (updateChanges cfg cv p b) (docAt cv p') := by
  induction b with
  | nil =>
    intro p acc p' a _ _ h
    simp only [C01.updateLoop, Except.ok.injEq, Prod.mk.injEq] at h
    obtain ⟨rfl, rfl⟩ := h
    exact C02.PChain.nil _
  | cons e rest ih =>
    obtain ⟨u, inc⟩ := e
    intro p acc p' a hp hb h
    cases hu : C01.AL.get p.pI u with
    | none =>
      have h1 : C01.updateLoop cfg p ((u, inc) :: rest) acc = C01.updateLoop cfg p rest acc := by simp [C01.updateLoop, hu]
      have h2 : updateChanges cfg cv p ((u, inc) :: rest) = updateChanges cfg cv p rest := by simp [updateChanges, hu]
      rw [h1] at h; rw [h2]
      exact ih p acc p' a hp hb h
    | some id =>
      cases hd : C01.AL.get p.nD id with
      | none => simp [C01.updateLoop, hu, hd] at h
      | some old =>
        cases inc with
        | none => simp [C01.updateLoop, hu, hd] at h
        | some i =>
          by_cases hs : cfg.size (C01.merge old i) > cfg.maxSize
          · simp [C01.updateLoop, hu, hd, hs] at h
          · have h1 : C01.updateLoop cfg p ((u, some i) :: rest) acc =
                C01.updateLoop cfg (C01.setPoint p u id (some (C01.merge old i))) rest (acc ++ [u]) := by
              simp [C01.updateLoop, hu, hd, hs]
            have h2 : updateChanges cfg cv p ((u, some i) :: rest) =
                ⟨nid id, some (idxDoc cv old), some (idxDoc cv (C01.merge old i))⟩ ::
                  updateChanges cfg cv (C01.setPoint p u id (some (C01.merge old i))) rest := by
              simp [updateChanges, hu, hd, hs]
            rw [h1] at h; rw [h2]
            obtain ⟨hp1, _, _, hnI1⟩ := C01.setPoint_live hp hu (C01.merge old i)
            have hlt : id < idBound := hb id u ((hp.bij u id).mp hu)
            have hb1 : LiveBound (C01.setPoint p u id (some (C01.merge old i))) := by
              intro j w hj; rw [hnI1] at hj; exact hb j w hj
            refine C02.PChain.cons ?_ ?_
            · show docAt cv p (nid id) = some (idxDoc cv old)
              rw [docAt_nid cv p hlt, hd]; rfl
            · show C02.PChain (C02.updD (docAt cv p) (nid id) (some (idxDoc cv (C01.merge old i)))) _ _
              have := docAt_setPoint cv p u hlt (some (C01.merge old i))
              simp only [idxData, Option.map_some] at this
              rw [← this]
              exact ih _ _ p' a hp1 hb1 h

/-- DeletePoints -/
theorem delete_chain (cv : Conv) (iter : List Uuid) : ∀ (p : Points) (c : Ctr) (acc : List Uuid),
    PInv p → LiveBound p →
    C02.PChain (docAt cv p) (deleteChanges cv p iter) (docAt cv (C01.deleteLoop p c iter acc).1) := by
  induction iter with
  | nil => intro p c acc _ _; exact C02.PChain.nil _
  | cons u rest ih =>
    intro p c acc hp hb
    cases hu : C01.AL.get p.pI u with
    | none =>
      have h1 : C01.deleteLoop p c (u :: rest) acc = C01.deleteLoop p c rest acc := by simp [C01.deleteLoop, hu]
      have h2 : deleteChanges cv p (u :: rest) = deleteChanges cv p rest := by simp [deleteChanges, hu]
      rw [h1, h2]; exact ih p c acc hp hb
    | some id =>
      have h1 : C01.deleteLoop p c (u :: rest) acc = C01.deleteLoop (C01.deletePoint p u id) (c.freeId id) rest (acc ++ [u]) := by
        simp [C01.deleteLoop, hu]
      have h2 : deleteChanges cv p (u :: rest) =
          ⟨nid id, idxData cv (C01.AL.get p.nD id), none⟩ :: deleteChanges cv (C01.deletePoint p u id) rest := by
        simp [deleteChanges, hu]
      rw [h1, h2]
      obtain ⟨hp1, _, _, _, hnI1⟩ := C01.deletePoint_live hp hu
      have hlt : id < idBound := hb id u ((hp.bij u id).mp hu)
      have hb1 : LiveBound (C01.deletePoint p u id) := by
        intro j w hj
        rw [hnI1, C01.AL.get_del] at hj
        by_cases hji : id = j
        · simp [hji] at hj
        · rw [if_neg hji] at hj; exact hb j w hj
      refine C02.PChain.cons (docAt_nid cv p hlt) ?_
      show C02.PChain (C02.updD (docAt cv p) (nid id) none) _ _
      rw [← docAt_deletePoint cv p u hlt]
      exact ih _ _ _ hp1 hb1

/-! ### what a batch that is not rejected did (read off C01's entry points) -/

theorem insertPoints_cases (s : Shard) (b : List (Uuid × Data)) (o : C01.Oracle) :
    ((C01.insertPoints s b o).1 = s ∧ ∃ r, (C01.insertPoints s b o).2 = .rejected r) ∨
    (∃ p c, C01.insertLoop s.pts (C01.newIdCounter s o) b = .ok (p, c) ∧ o.indexOk = true ∧
      C01.insertPoints s b o =
        ({ pts := p, count := some (s.countV + b.length), free := some c.free, next := some c.next }, .ok)) := by
  unfold C01.insertPoints
  split
  · exact Or.inl ⟨rfl, _, rfl⟩
  · cases hl : C01.insertLoop s.pts (C01.newIdCounter s o) b with
    | error e => exact Or.inl ⟨rfl, _, rfl⟩
    | ok r =>
      obtain ⟨p, c⟩ := r
      cases hx : o.indexOk with
      | false => exact Or.inl ⟨by simp, _, by simp; rfl⟩
      | true => exact Or.inr ⟨p, c, rfl, rfl, by simp⟩

theorem updatePoints_cases (cfg : C01.Cfg) (s : Shard) (b : List (Uuid × Data)) (o : C01.Oracle) :
    ((C01.updatePoints cfg s b o).1 = s ∧ ∃ r, (C01.updatePoints cfg s b o).2 = .rejected r) ∨
    (∃ p ids, C01.updateLoop cfg s.pts b [] = .ok (p, ids) ∧ o.indexOk = true ∧
      C01.updatePoints cfg s b o = ({ s with pts := p }, .updated ids)) := by
  unfold C01.updatePoints
  cases hl : C01.updateLoop cfg s.pts b [] with
  | error e => exact Or.inl ⟨rfl, _, rfl⟩
  | ok r =>
    obtain ⟨p, ids⟩ := r
    cases hx : o.indexOk with
    | false => exact Or.inl ⟨by simp, _, by simp; rfl⟩
    | true => exact Or.inr ⟨p, ids, rfl, rfl, by simp⟩

theorem deletePoints_cases (s : Shard) (ids : List Uuid) (o : C01.Oracle) :
    ((C01.deletePoints s ids o).1 = s ∧ ∃ r, (C01.deletePoints s ids o).2 = .rejected r) ∨
    (o.indexOk = true ∧
      C01.deletePoints s ids o =
        (let r := C01.deleteLoop s.pts (C01.newIdCounter s o) (C01.reorder (C01.dedup ids) o.iterOrder) []
         ({ pts := r.1, count := some (s.countV - r.2.2.length), free := some r.2.1.free, next := some r.2.1.next },
          .deleted r.2.2))) := by
  unfold C01.deletePoints
  cases hx : o.indexOk with
  | false => exact Or.inl ⟨by simp, _, by simp; rfl⟩
  | true =>
    simp only [Bool.not_true, Bool.false_eq_true, if_false]
    split
    · exact Or.inl ⟨rfl, _, rfl⟩
    · exact Or.inr ⟨trivial, rfl⟩

/-- a rejected batch leaves the point store as it was -/
theorem shard_step_rejected (cfg : C01.Cfg) (s : Shard) (op : C01.Op) (o : C01.Oracle)
    (h : isRejected (s.step cfg op o).2 = true) : (s.step cfg op o).1 = s := by
  cases op with
  | insert b =>
    rcases insertPoints_cases s b o with ⟨h1, _⟩ | ⟨p, c, _, _, heq⟩
    · exact h1
    · simp only [C01.Shard.step] at h; rw [heq] at h; cases h
  | update b =>
    rcases updatePoints_cases cfg s b o with ⟨h1, _⟩ | ⟨p, ids, _, _, heq⟩
    · exact h1
    · simp only [C01.Shard.step] at h; rw [heq] at h; cases h
  | delete ids =>
    rcases deletePoints_cases s ids o with ⟨h1, _⟩ | ⟨_, heq⟩
    · exact h1
    · simp only [C01.Shard.step] at h; rw [heq] at h; cases h

/-- the change stream does not read the oracle's index bit -/
theorem changes_indexOk (cfg : C01.Cfg) (cv : Conv) (s : Shard) (op : C01.Op) (o : C01.Oracle) (b : Bool) :
    changes cfg cv s op { o with indexOk := b } = changes cfg cv s op o := by
  cases op <;> rfl

/-- the change stream of a batch that is not rejected leads from the old documents to the new ones -/
theorem step_chain (cfg : C01.Cfg) (cv : Conv) (s : Shard) (hI : C01.Inv s) (hb : s.nextV ≤ idBound)
    (op : C01.Op) (o : C01.Oracle) (hr : isRejected (s.step cfg op o).2 = false)
    (hb' : (s.step cfg op o).1.nextV ≤ idBound) :
    C02.PChain (docAt cv s.pts) (changes cfg cv s op o) (docAt cv (s.step cfg op o).1.pts) := by
  have hlb : LiveBound s.pts := fun id u hl => Nat.lt_of_lt_of_le (hI.ctr.live_range id u hl).2 hb
  cases op with
  | insert b =>
    simp only [C01.Shard.step] at hr hb' ⊢
    rcases insertPoints_cases s b o with ⟨_, r, h2⟩ | ⟨p, c, hl, _, heq⟩
    · rw [h2] at hr; cases hr
    · rw [heq] at hb' ⊢
      exact (insert_chain cv b s.pts (C01.newIdCounter s o) p c hI.pts (C01.newIdCounter_CInv hI o) hl hb').1
  | update b =>
    simp only [C01.Shard.step] at hr hb' ⊢
    rcases updatePoints_cases cfg s b o with ⟨_, r, h2⟩ | ⟨p, ids, hl, _, heq⟩
    · rw [h2] at hr; cases hr
    · rw [heq]
      exact update_chain cfg cv b s.pts [] p ids hI.pts hlb hl
  | delete ids =>
    simp only [C01.Shard.step] at hr hb' ⊢
    rcases deletePoints_cases s ids o with ⟨_, r, h2⟩ | ⟨_, heq⟩
    · rw [h2] at hr; cases hr
    · rw [heq]
      exact delete_chain cv _ s.pts (C01.newIdCounter s o) [] hI.pts hlb

/-! ### the combined invariant -/

/-- C01's invariant of the point store, the id bound, and — for every index of the schema — C02's
index invariant relative to the documents the point store holds -/
structure Inv (lower : Bytes → Bytes) (cv : Conv) (st : State) : Prop where
  store : C01.Inv st.shard
  bound : st.shard.nextV ≤ idBound
  idx : ∀ ix ∈ st.idxs, ix.Inv lower (docAt cv st.shard.pts)

theorem Inv.liveBound {lower : Bytes → Bytes} {cv : Conv} {st : State} (h : Inv lower cv st) : LiveBound st.shard.pts :=
  fun id u hl => Nat.lt_of_lt_of_le (h.store.ctr.live_range id u hl).2 h.bound

/-- what a batch must satisfy beyond being accepted: fewer than `2^63` node ids are in use afterwards,
and no NaN is written into a float-indexed property (exactly C02's exclusion) -/
def StepOK (lower : Bytes → Bytes) (cv : Conv) (cfg : C01.Cfg) (st : State) (op : C01.Op) (o : C01.Oracle) : Prop :=
  (st.step lower cv cfg op o).1.shard.nextV ≤ idBound ∧
  ∀ pc ∈ changes cfg cv st.shard op o, ∀ ix ∈ st.idxs, ix.kind = .flt → C02.FltOK ix.path pc.cur

def HistOK (lower : Bytes → Bytes) (cv : Conv) (cfg : C01.Cfg) : State → List (C01.Op × C01.Oracle) → Prop
  | _, [] => True
  | st, e :: rest => StepOK lower cv cfg st e.1 e.2 ∧ HistOK lower cv cfg (st.step lower cv cfg e.1 e.2).1 rest

/-- the oracle the point store runs under: the index verdict is the indexes' -/
def withVerdict (lower : Bytes → Bytes) (cv : Conv) (cfg : C01.Cfg) (st : State) (op : C01.Op) (o : C01.Oracle) : C01.Oracle :=
  { o with indexOk := indexVerdict lower st (changes cfg cv st.shard op o) }

theorem step_shard (lower : Bytes → Bytes) (cv : Conv) (cfg : C01.Cfg) (st : State) (op : C01.Op) (o : C01.Oracle) :
    (st.step lower cv cfg op o).1.shard = (st.shard.step cfg op (withVerdict lower cv cfg st op o)).1 ∧
    (st.step lower cv cfg op o).2 = (st.shard.step cfg op (withVerdict lower cv cfg st op o)).2 := by
  unfold State.step
  simp only []
  by_cases hr : isRejected (st.shard.step cfg op (withVerdict lower cv cfg st op o)).2 = true
  · have := shard_step_rejected cfg st.shard op _ hr
    unfold withVerdict at hr this ⊢
    rw [if_pos hr]
    exact ⟨this.symm, rfl⟩
  · unfold withVerdict at hr ⊢
    rw [if_neg hr]
    exact ⟨rfl, rfl⟩

theorem step_rejected_same (lower : Bytes → Bytes) (cv : Conv) (cfg : C01.Cfg) (st : State) (op : C01.Op) (o : C01.Oracle)
    (h : isRejected (st.step lower cv cfg op o).2 = true) : (st.step lower cv cfg op o).1 = st := by
  rw [(step_shard lower cv cfg st op o).2] at h
  unfold State.step
  simp only []
  unfold withVerdict at h
  rw [if_pos h]

theorem step_idxs (lower : Bytes → Bytes) (cv : Conv) (cfg : C01.Cfg) (st : State) (op : C01.Op) (o : C01.Oracle)
    (h : isRejected (st.step lower cv cfg op o).2 = false) :
    (st.step lower cv cfg op o).1.idxs = st.idxs.map (fun ix => ix.step lower (changes cfg cv st.shard op o)) ∧
    (st.step lower cv cfg op o).1.bolt = st.bolt := by
  rw [(step_shard lower cv cfg st op o).2] at h
  unfold State.step
  simp only []
  unfold withVerdict at h
  have : ¬ isRejected (st.shard.step cfg op { o with indexOk := indexVerdict lower st (changes cfg cv st.shard op o) }).2 = true := by
    rw [h]; exact Bool.false_ne_true
  rw [if_neg this]
  exact ⟨rfl, rfl⟩

/-- **one batch keeps the combined invariant** (C02's hypothesis "inserted node ids are unused and
distinct" is not assumed: the change stream is a chain because of C01's invariant) -/
theorem step_inv (lower : Bytes → Bytes) (cv : Conv) (cfg : C01.Cfg) {st : State} (hI : Inv lower cv st)
    (op : C01.Op) (o : C01.Oracle) (ok : StepOK lower cv cfg st op o) :
    Inv lower cv (st.step lower cv cfg op o).1 := by
  obtain ⟨hs1, hs2⟩ := step_shard lower cv cfg st op o
  by_cases hr : isRejected (st.step lower cv cfg op o).2 = true
  · rw [step_rejected_same lower cv cfg st op o hr]; exact hI
  · have hr' : isRejected (st.step lower cv cfg op o).2 = false := by
      cases h : isRejected (st.step lower cv cfg op o).2 with
      | true => exact absurd h hr
      | false => rfl
    obtain ⟨hix, _⟩ := step_idxs lower cv cfg st op o hr'
    have hstore := (C01.C01_step cfg st.shard op (withVerdict lower cv cfg st op o) hI.store).1
    refine ⟨by rw [hs1]; exact hstore, ok.1, ?_⟩
    intro ix' hix'
    rw [hix] at hix'
    obtain ⟨ix, hmem, rfl⟩ := List.mem_map.1 hix'
    have hchain := step_chain cfg cv st.shard hI.store hI.bound op (withVerdict lower cv cfg st op o)
      (by rw [← hs2]; exact hr') (by rw [← hs1]; exact ok.1)
    rw [← hs1] at hchain
    unfold withVerdict at hchain
    rw [changes_indexOk] at hchain
    exact C02.Index.step_inv lower ix (hI.idx ix hmem) hchain (fun hk pc hpc => ok.2 pc hpc ix hmem hk)

theorem init_inv (lower : Bytes → Bytes) (cv : Conv) (schema : List (List String × C02.Kind)) (bolt : Bool) :
    Inv lower cv (State.init schema bolt) := by
  refine ⟨C01.Inv_empty, (by decide : (2 : Nat) ≤ 2 ^ 63), ?_⟩
  intro ix hix
  simp only [State.init, List.mem_map] at hix
  obtain ⟨s, _, rfl⟩ := hix
  obtain ⟨p, k⟩ := s
  cases k with
  | str cs => exact C02.idxInv_empty C02.strOps
  | strArr cs => exact C02.idxInv_empty C02.strOps
  | int => exact C02.idxInv_empty C02.intOps
  | flt =>
    refine ⟨C02.idxInv_empty C02.fltOps, fun i x hx => ?_⟩
    have hd : docAt cv (State.init schema bolt).shard.pts i = none := rfl
    simp [C02.fltVals, hd, C02.getProp] at hx

theorem run_inv (lower : Bytes → Bytes) (cv : Conv) (cfg : C01.Cfg) (h : List (C01.Op × C01.Oracle)) : ∀ (st : State),
    Inv lower cv st → HistOK lower cv cfg st h → Inv lower cv (State.run lower cv cfg st h).1 := by
  induction h with
  | nil => intro st hI _; exact hI
  | cons e rest ih =>
    obtain ⟨op, o⟩ := e
    intro st hI hok
    exact ih _ (step_inv lower cv cfg hI op o hok.1) hok.2

/-! ### the point store as the query side sees it -/

theorem idOf_view (cv : Conv) (p : Points) (u : Uuid) : C02.idOf (viewPts cv p) u = (C01.AL.get p.pI u).map nid := by
  unfold C02.idOf viewPts
  generalize p.pI = l
  induction l with
  | nil => rfl
  | cons e r ih =>
    obtain ⟨a, n⟩ := e
    by_cases h : a = u
    · subst h
      rw [List.map_cons, List.find?_cons_of_pos (by simp)]
      simp [C01.AL.get_cons]
    · rw [List.map_cons, List.find?_cons_of_neg (by simpa using h), ih]
      simp [C01.AL.get_cons, h]

theorem nodupUuids_view (cv : Conv) {p : Points} (hp : PInv p) : C02.NodupUuids (viewPts cv p) := by
  unfold C02.NodupUuids viewPts
  rw [List.pairwise_map]
  have h := hp.pI_nodup
  unfold C01.AL.keys at h
  rw [List.Nodup, List.pairwise_map] at h
  exact h

theorem nodupIds_view (cv : Conv) {p : Points} (hp : PInv p) (hb : LiveBound p) : C02.NodupIds (viewPts cv p) := by
  unfold C02.NodupIds viewPts
  rw [List.pairwise_map]
  have h := hp.pI_nodup
  unfold C01.AL.keys at h
  rw [List.Nodup, List.pairwise_map] at h
  refine h.imp_of_mem ?_
  intro a b ha hb' hab heq
  apply hab
  have ga := hp.mem_pI ha
  have gb := hp.mem_pI hb'
  have la := hb a.2 a.1 ((hp.bij a.1 a.2).mp ga)
  have lb := hb b.2 b.1 ((hp.bij b.1 b.2).mp gb)
  have : a.2 = b.2 := nid_inj la lb heq
  rw [← this] at gb
  exact hp.inj ga gb

/-- the document the query side reads for node id `i`: present iff `i` is live -/
theorem docOf_view (cv : Conv) {p : Points} (hp : PInv p) (hb : LiveBound p) (i : C02.Id) :
    C02.docOf (viewPts cv p) i =
      (C01.AL.get p.nI i.toNat).map (fun _ => ((C01.AL.get p.nD i.toNat).map (idxDoc cv)).getD .nil) := by
  cases hl : C01.AL.get p.nI i.toNat with
  | some u =>
    have hpu : C01.AL.get p.pI u = some i.toNat := (hp.bij u i.toNat).mpr hl
    have hmem : (⟨nid i.toNat, u, ((C01.AL.get p.nD i.toNat).map (idxDoc cv)).getD .nil⟩ : C02.Point) ∈ viewPts cv p :=
      List.mem_map.2 ⟨(u, i.toNat), C01.AL.mem_of_get hpu, rfl⟩
    have := C02.docOf_of_mem (nodupIds_view cv hp hb) hmem
    simp only [nid_of_toNat] at this
    rw [this]; rfl
  | none =>
    simp only [Option.map_none]
    rw [C02.docOf_eq_none_iff]
    intro q hq hqi
    obtain ⟨e, he, rfl⟩ := List.mem_map.1 hq
    have ge := hp.mem_pI he
    have le := (hp.bij e.1 e.2).mp ge
    have : i.toNat = e.2 := by
      have h2 : nid e.2 = i := hqi
      rw [← h2]; exact nid_toNat (hb e.2 e.1 le)
    rw [this, le] at hl; cases hl

theorem getProp_some_nil (path : List String) : C02.getProp (some .nil) path = none := by
  cases path <;> simp [C02.getProp, C02.Val.query]

/-- … and it has the properties of the stored document (zero-length data: none at all) -/
theorem getProp_view (cv : Conv) {p : Points} (hp : PInv p) (hb : LiveBound p) (i : C02.Id) (path : List String) :
    C02.getProp (C02.docOf (viewPts cv p) i) path = C02.getProp (docAt cv p i) path := by
  rw [docOf_view cv hp hb]
  unfold docAt
  cases hl : C01.AL.get p.nI i.toNat with
  | none => rw [nD_none_of_dead hp hl]; rfl
  | some u =>
    cases hd : C01.AL.get p.nD i.toNat with
    | none => simp [getProp_some_nil]; rfl
    | some d => rfl

/-- C02's index invariant reads the documents through `getProp` only -/
theorem indexInv_congr (lower : Bytes → Bytes) (ix : C02.Index) {D D' : C02.Id → Option C02.Val}
    (h : ∀ i path, C02.getProp (D i) path = C02.getProp (D' i) path) (inv : ix.Inv lower D) : ix.Inv lower D' := by
  obtain ⟨path, kind, kv⟩ := ix
  have e1 : ∀ cs, (fun i => C02.strVals lower cs path (D i)) = fun i => C02.strVals lower cs path (D' i) := by
    intro cs; funext i; simp only [C02.strVals, h]
  have e2 : ∀ cs, (fun i => C02.arrVals lower cs path (D i)) = fun i => C02.arrVals lower cs path (D' i) := by
    intro cs; funext i; simp only [C02.arrVals, h]
  have e3 : (fun i => C02.intVals path (D i)) = fun i => C02.intVals path (D' i) := by
    funext i; simp only [C02.intVals, h]
  have e4 : (fun i => C02.fltVals path (D i)) = fun i => C02.fltVals path (D' i) := by
    funext i; simp only [C02.fltVals, h]
  cases kind with
  | str cs => show C02.IdxInv _ _ _; rw [← e1 cs]; exact inv
  | strArr cs => show C02.IdxInv _ _ _; rw [← e2 cs]; exact inv
  | int => show C02.IdxInv _ _ _; rw [← e3]; exact inv
  | flt =>
    refine ⟨by rw [← e4]; exact inv.1, ?_⟩
    intro i x hx
    have : C02.fltVals path (D' i) = C02.fltVals path (D i) := (congrFun e4 i).symm
    exact inv.2 i x (this ▸ hx)

/-- **C02's shard invariant holds for the combined state** (its hypotheses on the point store — node ids
and uuids name points uniquely — are C01's invariant) -/
theorem view_inv {lower : Bytes → Bytes} {cv : Conv} {st : State} (hI : Inv lower cv st) : C02.Inv lower (st.view cv) := by
  have hp := hI.store.pts
  have hb := hI.liveBound
  refine ⟨?_, nodupIds_view cv hp hb, nodupUuids_view cv hp⟩
  intro ix hix
  exact indexInv_congr lower ix (fun i path => (getProp_view cv hp hb i path).symm) (hI.idx ix hix)

/-! ### a query means the same on node ids (C02's `sat`) and on documents (`docSat`) -/

theorem kindAt_schema (cv : Conv) (st : State) (path : List String) :
    kindAt st.schema path = ((st.view cv).index path).map (·.kind) := by
  unfold kindAt State.schema C02.St.index State.view
  simp only [List.find?_map, Option.map_map]
  rfl

theorem index_kind_iff (cv : Conv) (st : State) (path : List String) (k : C02.Kind) :
    (∃ kv, (st.view cv).index path = some ⟨path, k, kv⟩) ↔ kindAt st.schema path = some k := by
  rw [kindAt_schema cv]
  constructor
  · rintro ⟨kv, h⟩; rw [h]; rfl
  · intro h
    cases hix : (st.view cv).index path with
    | none => rw [hix] at h; cases h
    | some ix =>
      rw [hix] at h
      obtain ⟨p, kind, kv⟩ := ix
      have hp := (C02.index_some hix).2
      simp only [Option.map_some, Option.some.injEq] at h hp
      subst h; subst hp
      exact ⟨kv, rfl⟩

section sat
variable {lower : Bytes → Bytes} {cv : Conv} {st : State}

theorem idOf_iff (hI : Inv lower cv st) {i : C02.Id} {u : Uuid} (hl : C01.AL.get st.shard.pts.nI i.toNat = some u) (u' : Uuid) :
    C02.idOf (st.view cv).pts u' = some i ↔ u' = u := by
  have hp := hI.store.pts
  show C02.idOf (viewPts cv st.shard.pts) u' = some i ↔ _
  rw [idOf_view]
  constructor
  · intro h
    cases hg : C01.AL.get st.shard.pts.pI u' with
    | none => rw [hg] at h; cases h
    | some n =>
      rw [hg] at h
      simp only [Option.map_some, Option.some.injEq] at h
      have hn := (hp.bij u' n).mp hg
      have : i.toNat = n := by rw [← h]; exact nid_toNat (hI.liveBound n u' hn)
      rw [this, hn] at hl
      exact Option.some.inj hl
  · rintro rfl
    rw [(hp.bij u' i.toNat).mpr hl]
    simp [nid_of_toNat]

theorem leaf_sat_iff (hI : Inv lower cv st) (l : C02.Leaf) {i : C02.Id} {u : Uuid}
    (hl : C01.AL.get st.shard.pts.nI i.toNat = some u) :
    l.sat lower (st.view cv) i ↔ leafSat lower st.schema l u (docAt cv st.shard.pts i) := by
  have hp := hI.store.pts
  have hb := hI.liveBound
  have gp : ∀ path, C02.getProp (C02.docOf (st.view cv).pts i) path = C02.getProp (docAt cv st.shard.pts i) path :=
    fun path => getProp_view cv hp hb i path
  cases l with
  | str path op v e =>
    simp only [C02.Leaf.sat, leafSat, C02.strVals, gp]
    constructor
    · rintro ⟨cs, kv, hix, h⟩; exact ⟨cs, (index_kind_iff cv st path _).1 ⟨kv, hix⟩, h⟩
    · rintro ⟨cs, hk, h⟩
      obtain ⟨kv, hix⟩ := (index_kind_iff cv st path _).2 hk
      exact ⟨cs, kv, hix, h⟩
  | strArr path all vs =>
    simp only [C02.Leaf.sat, leafSat, C02.arrVals, gp]
    constructor
    · rintro ⟨cs, kv, hix, h⟩; exact ⟨cs, (index_kind_iff cv st path _).1 ⟨kv, hix⟩, h⟩
    · rintro ⟨cs, hk, h⟩
      obtain ⟨kv, hix⟩ := (index_kind_iff cv st path _).2 hk
      exact ⟨cs, kv, hix, h⟩
  | int path op v e =>
    simp only [C02.Leaf.sat, leafSat, C02.intVals, gp]
    constructor
    · rintro ⟨kv, hix, h⟩; exact ⟨(index_kind_iff cv st path _).1 ⟨kv, hix⟩, h⟩
    · rintro ⟨hk, h⟩
      obtain ⟨kv, hix⟩ := (index_kind_iff cv st path _).2 hk
      exact ⟨kv, hix, h⟩
  | flt path op v e =>
    simp only [C02.Leaf.sat, leafSat, C02.fltVals, gp]
    constructor
    · rintro ⟨kv, hix, h⟩; exact ⟨(index_kind_iff cv st path _).1 ⟨kv, hix⟩, h⟩
    · rintro ⟨hk, h⟩
      obtain ⟨kv, hix⟩ := (index_kind_iff cv st path _).2 hk
      exact ⟨kv, hix, h⟩
  | idEq u' =>
    simp only [C02.Leaf.sat, leafSat]
    exact idOf_iff hI hl u'
  | idAny us =>
    simp only [C02.Leaf.sat, leafSat]
    constructor
    · rintro ⟨u', hu', h⟩; rw [(idOf_iff hI hl u').1 h] at hu'; exact hu'
    · intro h; exact ⟨u, h, (idOf_iff hI hl u).2 rfl⟩

mutual
theorem sat_iff (hI : Inv lower cv st) {i : C02.Id} {u : Uuid} (hl : C01.AL.get st.shard.pts.nI i.toNat = some u) :
    ∀ (q : C02.Query), q.sat lower (st.view cv) i ↔ docSat lower st.schema q u (docAt cv st.shard.pts i)
  | .leaf l => by simp only [C02.Query.sat, docSat]; exact leaf_sat_iff hI l hl
  | .and qs => by simp only [C02.Query.sat, docSat]; exact (satL_iff hI hl qs).1
  | .or qs => by simp only [C02.Query.sat, docSat]; exact (satL_iff hI hl qs).2
theorem satL_iff (hI : Inv lower cv st) {i : C02.Id} {u : Uuid} (hl : C01.AL.get st.shard.pts.nI i.toNat = some u) :
    ∀ (qs : C02.QList),
      (qs.satAll lower (st.view cv) i ↔ docSatAll lower st.schema qs u (docAt cv st.shard.pts i)) ∧
      (qs.satAny lower (st.view cv) i ↔ docSatAny lower st.schema qs u (docAt cv st.shard.pts i))
  | .nil => by simp [C02.QList.satAll, C02.QList.satAny, docSatAll, docSatAny]
  | .cons q qs => by
    have h1 := sat_iff hI hl q
    have h2 := satL_iff hI hl qs
    simp only [C02.QList.satAll, C02.QList.satAny, docSatAll, docSatAny, h1, h2.1, h2.2, and_self]
end

/-- whatever satisfies a well-formed query is a live node id -/
theorem live_of_sat (hI : Inv lower cv st) (q : C02.Query) (hwf : q.wf (st.view cv) = true) (i : C02.Id)
    (h : q.sat lower (st.view cv) i) : ∃ u, C01.AL.get st.shard.pts.nI i.toNat = some u := by
  obtain ⟨pt, hpt, hid⟩ := C02.Query.sat_live lower q hwf i h
  obtain ⟨e, he, rfl⟩ := List.mem_map.1 hpt
  have hp := hI.store.pts
  have ge := hp.mem_pI he
  have le := (hp.bij e.1 e.2).mp ge
  have h2 : nid e.2 = i := hid
  have : i.toNat = e.2 := by rw [← h2]; exact nid_toNat (hI.liveBound e.2 e.1 le)
  exact ⟨e.1, by rw [this]; exact le⟩

/-- the points of the reference map that satisfy the query are exactly the uuids of the node ids that do -/
theorem specMatches_iff (hI : Inv lower cv st) (q : C02.Query) (u : Uuid) :
    specMatches lower cv st.schema (C01.abs st.shard) q u ↔
      ∃ i : C02.Id, C01.AL.get st.shard.pts.nI i.toNat = some u ∧ q.sat lower (st.view cv) i := by
  have hp := hI.store.pts
  unfold specMatches
  simp only [C01.abs, C01.get_absP]
  constructor
  · rintro ⟨d, hd, hs⟩
    cases hg : C01.AL.get st.shard.pts.pI u with
    | none => rw [hg] at hd; cases hd
    | some n =>
      rw [hg] at hd
      simp only [Option.map_some, Option.some.injEq] at hd
      have hn := (hp.bij u n).mp hg
      have hlt := hI.liveBound n u hn
      have hl : C01.AL.get st.shard.pts.nI (nid n).toNat = some u := by rw [nid_toNat hlt]; exact hn
      refine ⟨nid n, hl, (sat_iff hI hl q).2 ?_⟩
      rw [docAt_nid cv _ hlt, hd]; exact hs
  · rintro ⟨i, hl, hs⟩
    have hg := (hp.bij u i.toNat).mpr hl
    refine ⟨C01.AL.get st.shard.pts.nD i.toNat, by rw [hg]; rfl, ?_⟩
    have := (sat_iff hI hl q).1 hs
    exact this

end sat

/-! ### a filter query tree through `searchParallel` (C06) is C02's `eval` -/

section tree
variable (lower : Bytes → Bytes) (v : C02.St)

mutual
theorem inSet_qtree : ∀ (q : C02.Query) (i : C02.Id),
    (C06.inSetB (qtree lower v q) i.toNat = true ↔ i ∈ C02.eval lower v q)
  | .leaf l, i => by
    simp only [qtree, C06.inSetB, C02.eval, decide_eq_true_eq, List.mem_map]
    constructor
    · rintro ⟨j, hj, e⟩; rw [← BitVec.eq_of_toNat_eq e]; exact hj
    · intro h; exact ⟨i, h, rfl⟩
  | .and qs, i => by
    have h := (inSet_qforest qs i).2
    cases qs with
    | nil => simp [qtree, qforest, C06.inSetB, C06.QForest.isNil, C02.eval, C02.evalL, C02.interAll]
    | cons q qs =>
      simp only [qtree, C06.inSetB, C02.eval, Bool.false_eq_true, if_false, Bool.and_eq_true, Bool.not_eq_true']
      rw [C02.mem_interAll _ (by simp [C02.evalL]), ← h]
      simp [qforest, C06.QForest.isNil]
  | .or qs, i => by
    have h := (inSet_qforest qs i).1
    simp only [qtree, C06.inSetB, C02.eval, if_true]
    rw [C02.mem_unionAll, ← h]
theorem inSet_qforest : ∀ (qs : C02.QList) (i : C02.Id),
    (C06.anySetB (qforest lower v qs) i.toNat = true ↔ ∃ s ∈ C02.evalL lower v qs, i ∈ s) ∧
    (C06.allSetB (qforest lower v qs) i.toNat = true ↔ ∀ s ∈ C02.evalL lower v qs, i ∈ s)
  | .nil, i => by simp [qforest, C06.anySetB, C06.allSetB, C02.evalL]
  | .cons q qs, i => by
    have h1 := inSet_qtree q i
    have h2 := inSet_qforest qs i
    simp only [qforest, C06.anySetB, C06.allSetB, C02.evalL, Bool.or_eq_true, Bool.and_eq_true, h1, h2.1, h2.2,
      List.mem_cons, exists_eq_or_imp, forall_eq_or_imp, and_self]
end

mutual
/-- every node id a filter tree returns is a `uint64` -/
theorem bound_qtree : ∀ (q : C02.Query) (n : Nat), C06.inSetB (qtree lower v q) n = true → n < 2 ^ 64
  | .leaf l, n => by
    simp only [qtree, C06.inSetB, decide_eq_true_eq, List.mem_map]
    rintro ⟨j, _, rfl⟩; exact j.isLt
  | .and qs, n => by
    have h := (bound_qforest qs n).2
    simp only [qtree, C06.inSetB, Bool.false_eq_true, if_false, Bool.and_eq_true, Bool.not_eq_true']
    rintro ⟨h1, h2⟩; exact h h1 h2
  | .or qs, n => by
    have h := (bound_qforest qs n).1
    simp only [qtree, C06.inSetB, if_true]
    exact h
theorem bound_qforest : ∀ (qs : C02.QList) (n : Nat),
    (C06.anySetB (qforest lower v qs) n = true → n < 2 ^ 64) ∧
    ((qforest lower v qs).isNil = false → C06.allSetB (qforest lower v qs) n = true → n < 2 ^ 64)
  | .nil, n => by simp [qforest, C06.anySetB, C06.QForest.isNil]
  | .cons q qs, n => by
    have h1 := bound_qtree q n
    have h2 := bound_qforest qs n
    simp only [qforest, C06.anySetB, C06.allSetB, Bool.or_eq_true, Bool.and_eq_true]
    exact ⟨fun h => h.elim h1 h2.1, fun _ h => h1 h.1⟩
end

theorem inSet_iff (q : C02.Query) (n : Nat) :
    C06.inSetB (qtree lower v q) n = true ↔ ∃ i : C02.Id, i.toNat = n ∧ i ∈ C02.eval lower v q := by
  constructor
  · intro h
    have hb := bound_qtree lower v q n h
    refine ⟨BitVec.ofNat 64 n, by simp [BitVec.toNat_ofNat]; omega, ?_⟩
    rw [← inSet_qtree]
    have : (BitVec.ofNat 64 n).toNat = n := by simp [BitVec.toNat_ofNat]; omega
    rw [this]; exact h
  · rintro ⟨i, rfl, hi⟩; exact (inSet_qtree lower v q i).2 hi

mutual
theorem leavesWF_qtree : ∀ (q : C02.Query), C06.leavesWF (qtree lower v q)
  | .leaf l => by simp [qtree, C06.leavesWF]
  | .and qs => by simp only [qtree, C06.leavesWF]; exact forestWF_qforest qs
  | .or qs => by simp only [qtree, C06.leavesWF]; exact forestWF_qforest qs
theorem forestWF_qforest : ∀ (qs : C02.QList), C06.forestWF (qforest lower v qs)
  | .nil => by simp [qforest, C06.forestWF]
  | .cons q qs => by simp only [qforest, C06.forestWF]; exact ⟨leavesWF_qtree q, forestWF_qforest qs⟩
end

theorem searchParallel_res_nil (add : Unit → Unit → Unit) (isOr : Bool) (subs : List (C06.SubResult Unit))
    (h : ∀ s ∈ subs, s.res = []) : (C06.searchParallel add id id isOr subs).res = [] := by
  have hall : (subs.map (·.res)).flatten = [] := by
    rw [List.flatten_eq_nil_iff]
    intro l hl
    obtain ⟨s, hs, rfl⟩ := List.mem_map.1 hl
    exact h s hs
  unfold C06.searchParallel
  split
  · rename_i one; exact h one (by simp)
  · simp [hall]

mutual
/-- filter leaves rank nothing, so neither does a tree of them -/
theorem evalTree_res_nil (add : Unit → Unit → Unit) : ∀ (q : C02.Query), (C06.evalTree add id id (qtree lower v q)).res = []
  | .leaf l => by simp [qtree, C06.evalTree]
  | .and qs => by
    simp only [qtree, C06.evalTree]
    exact searchParallel_res_nil add false _ (evalForest_res_nil add qs)
  | .or qs => by
    simp only [qtree, C06.evalTree]
    exact searchParallel_res_nil add true _ (evalForest_res_nil add qs)
theorem evalForest_res_nil (add : Unit → Unit → Unit) : ∀ (qs : C02.QList),
    ∀ s ∈ C06.evalForest add id id (qforest lower v qs), s.res = []
  | .nil => by simp [qforest, C06.evalForest]
  | .cons q qs => by
    simp only [qforest, C06.evalForest, List.mem_cons, forall_eq_or_imp]
    exact ⟨evalTree_res_nil add q, evalForest_res_nil add qs⟩
end

end tree

/-! ### counting -/

theorem length_le_of_nodup_subset {α : Type} [DecidableEq α] : ∀ (l m : List α), l.Nodup → (∀ a ∈ l, a ∈ m) →
    l.length ≤ m.length := by
  intro l
  induction l with
  | nil => intro m _ _; exact Nat.zero_le _
  | cons a l ih =>
    intro m hn hs
    rw [List.nodup_cons] at hn
    have ha : a ∈ m := hs a (List.mem_cons_self ..)
    have := ih (m.erase a) hn.2 (fun b hb => by
      have hne : b ≠ a := fun e => hn.1 (e ▸ hb)
      exact (List.mem_erase_of_ne hne).2 (hs b (List.mem_cons_of_mem _ hb)))
    rw [List.length_erase_of_mem ha] at this
    have hpos : 0 < m.length := List.length_pos_of_mem ha
    simp only [List.length_cons]
    omega

theorem length_lt_of_nodup_range {l : List Nat} {N : Nat} (hN : 0 < N) (hn : l.Nodup) (h : ∀ a ∈ l, 0 < a ∧ a < N) :
    l.length < N := by
  have h0 : (0 :: l).Nodup := List.nodup_cons.2 ⟨fun h0 => Nat.lt_irrefl 0 (h 0 h0).1, hn⟩
  have := length_le_of_nodup_subset (0 :: l) (List.range N) h0 (by
    intro a ha
    rw [List.mem_range]
    rcases List.mem_cons.1 ha with rfl | ha
    · exact hN
    · exact (h a ha).2)
  simp only [List.length_cons, List.length_range] at this
  omega

/-! ### the whole of `SearchPoints` for a filter query -/

theorem pairwise_true {α : Type} (l : List α) : l.Pairwise (fun _ _ => True) := by
  induction l with
  | nil => exact List.Pairwise.nil
  | cons a l ih => exact List.pairwise_cons.2 ⟨fun _ _ => trivial, ih⟩

theorem filterMap_eq_map {α β : Type} (f : α → Option β) (g : α → β) (l : List α) (h : ∀ a ∈ l, f a = some (g a)) :
    l.filterMap f = l.map g := by
  induction l with
  | nil => rfl
  | cons a l ih =>
    rw [List.filterMap_cons, h a (List.mem_cons_self ..), List.map_cons,
      ih (fun b hb => h b (List.mem_cons_of_mem _ hb))]

/-- the uuid stored under a live node id (proofs only) -/
def uuidAt (p : Points) (n : Nat) : Uuid := (C01.AL.get p.nI n).getD ""

theorem search_answer {lower : Bytes → Bytes} {cv : Conv} {st : State} (hI : Inv lower cv st)
    (q : C02.Query) (hwf : q.wf (st.view cv) = true) (hv : q.Valid)
    (rq : C06.Request) (hne : ∀ p ∈ rq.select, p ≠ [])
    (rowSorter : List (C06.Row Unit) → List (C06.Row Unit)) (hsperm : ∀ l, (rowSorter l).Perm l)
    (hssorted : ∀ l, (rowSorter l).Pairwise (fun a b => C06.sortCmp rq.sort a.data b.data ≤ 0))
    (off lim : Nat) (ho : rq.off = off) (hl : rq.lim = lim) (hoff : off < 2 ^ 63) (hlim : lim < 2 ^ 63) :
    ∃ rows : List (Nat × Uuid × C06.Doc),
      searchPoints lower cv st q rq rowSorter =
        .rows (((rows.drop off).take (if lim = 0 then rows.length else lim)).map fun r => (r.2.1, r.2.2)) ∧
      (rows.map (·.2.1)).Nodup ∧
      (∀ u, u ∈ rows.map (·.2.1) ↔ specMatches lower cv st.schema (C01.abs st.shard) q u) ∧
      (∀ r ∈ rows, C01.AL.get st.shard.pts.nI r.1 = some r.2.1 ∧
         C06.shape rq (selDoc cv (C01.AL.get st.shard.pts.nD r.1)) = .ok r.2.2) ∧
      (rq.sort = [] → (rows.map (·.1)).Pairwise (· < ·)) ∧
      (rq.sort ≠ [] → rows.Pairwise (fun a b => C06.sortCmp rq.sort a.2.2 b.2.2 ≤ 0)) := by
  have hp := hI.store.pts
  have hv2 := view_inv hI
  -- C06 on the tree of C02 leaf answers
  have hwfT := leavesWF_qtree lower (st.view cv) q
  obtain ⟨rows0, hfull, hnd, hmem, hrow, hnosort, _, hsorted⟩ :=
    C06.C06_answer (S := Unit) (fun _ _ => ()) (fun _ _ => True) id id (fun l => List.Perm.refl l)
      (fun l => pairwise_true l) (fun l => List.Perm.refl l) (fun l => pairwise_true l) rq rowSorter hsperm hssorted
      (selAt cv st) hne (qtree lower (st.view cv) q) hwfT
  obtain ⟨_, _, hset, _, _, _⟩ :=
    C06.C06_tree (S := Unit) (fun _ _ => ()) (fun _ _ => True) id id (fun l => List.Perm.refl l)
      (fun l => pairwise_true l) (fun l => List.Perm.refl l) (fun l => pairwise_true l) (qtree lower (st.view cv) q) hwfT
  have hres := evalTree_res_nil lower (st.view cv) (fun _ _ => ()) q
  generalize hr : C06.evalTree (fun _ _ => ()) id id (qtree lower (st.view cv) q) = r at hfull hnosort hset hres
  -- which node ids come back
  have hin : ∀ n, C06.inSetB (qtree lower (st.view cv) q) n = true ↔
      ∃ i : C02.Id, i.toNat = n ∧ q.sat lower (st.view cv) i := by
    intro n
    rw [inSet_iff]
    constructor
    · rintro ⟨i, hi, h⟩; exact ⟨i, hi, (C02.C02_tree lower hv2 q hwf hv i).1 h⟩
    · rintro ⟨i, hi, h⟩; exact ⟨i, hi, (C02.C02_tree lower hv2 q hwf hv i).2 h⟩
  have hlive : ∀ n, C06.inSetB (qtree lower (st.view cv) q) n = true → ∃ u, C01.AL.get st.shard.pts.nI n = some u := by
    intro n h
    obtain ⟨i, rfl, hs⟩ := (hin n).1 h
    exact live_of_sat hI q hwf i hs
  have hrowlive : ∀ row ∈ rows0, C01.AL.get st.shard.pts.nI row.id = some (uuidAt st.shard.pts row.id) := by
    intro row hrw
    obtain ⟨u, hu⟩ := hlive row.id ((hmem row.id).1 (List.mem_map.2 ⟨row, hrw, rfl⟩))
    rw [hu]; simp [uuidAt, hu]
  -- back-fill: every node id of the bitmap has a point
  obtain ⟨unranked, hB, hasc, _, hBmem, _⟩ := C06.C06_backfill r (by rw [hres]; exact List.nodup_nil) (by rw [hres]; simp)
  have hget : ∃ l, C01.getAll st.shard.pts ((C06.backfill r).map (·.id)) = .ok l := by
    refine ⟨_, C01.getAll_eq st.shard.pts _ ?_⟩
    intro n hn
    obtain ⟨u, hu⟩ := hlive n ((hset n).1 ((hBmem n).1 hn))
    rw [hu]; rfl
  obtain ⟨gl, hgl⟩ := hget
  -- the page
  have hlen : rows0.length < 2 ^ 63 := by
    have h1 : (rows0.map (·.id)).length < idBound := by
      refine length_lt_of_nodup_range (by decide) hnd ?_
      intro n hn
      obtain ⟨u, hu⟩ := hlive n ((hmem n).1 hn)
      have := hI.store.ctr.live_range n u hu
      exact ⟨by omega, hI.liveBound n u hu⟩
    simpa [idBound] using h1
  have hpage := C06.C06_search_page (selAt cv st) rowSorter r rq rows0 hfull off lim ho hl hoff hlim hlen
  let g : C06.Row Unit → Nat × Uuid × C06.Doc := fun row => (row.id, uuidAt st.shard.pts row.id, row.data)
  refine ⟨rows0.map g, ?_, ?_, ?_, ?_, ?_, ?_⟩
  · -- the answer
    unfold searchPoints
    simp only [hwf, Bool.not_true, Bool.false_eq_true, if_false, searchIndex, hr, hgl]
    cases hsp : C06.searchPoints (selAt cv st) rowSorter true r rq with
    | selectError => rw [hsp] at hpage; cases hpage
    | slicePanic => rw [hsp] at hpage; cases hpage
    | rows pg =>
      rw [hsp] at hpage
      simp only [C06.outcomePage, Option.some.injEq] at hpage
      subst hpage
      simp only [List.length_map]
      rw [← List.map_drop, ← List.map_take, List.map_map]
      congr 1
      apply filterMap_eq_map
      intro row hrw
      have hrw0 : row ∈ rows0 := List.mem_of_mem_drop (List.mem_of_mem_take hrw)
      rw [hrowlive row hrw0]; rfl
  · -- one row per uuid
    have : (rows0.map g).map (·.2.1) = (rows0.map (·.id)).map (uuidAt st.shard.pts) := by
      simp [g, List.map_map, Function.comp_def]
    rw [this]
    apply C01.nodup_map_of_inj_on _ _ hnd
    intro a ha b hb hab
    obtain ⟨ra, hra, rfl⟩ := List.mem_map.1 ha
    obtain ⟨rb, hrb, rfl⟩ := List.mem_map.1 hb
    have h1 := hrowlive ra hra
    have h2 := hrowlive rb hrb
    rw [hab] at h1
    have k1 := (hp.bij _ _).mpr h1
    have k2 := (hp.bij _ _).mpr h2
    rw [k1] at k2; exact Option.some.inj k2
  · -- exactly the points of the reference map that satisfy the query
    intro u
    rw [specMatches_iff hI]
    simp only [List.map_map, List.mem_map, Function.comp_def, g]
    constructor
    · rintro ⟨row, hrw, rfl⟩
      obtain ⟨i, hi, hs⟩ := (hin row.id).1 ((hmem row.id).1 (List.mem_map.2 ⟨row, hrw, rfl⟩))
      exact ⟨i, by rw [hi]; exact hrowlive row hrw, hs⟩
    · rintro ⟨i, hlv, hs⟩
      obtain ⟨row, hrw, hid⟩ := List.mem_map.1 ((hmem i.toNat).2 ((hin i.toNat).2 ⟨i, rfl, hs⟩))
      refine ⟨row, hrw, ?_⟩
      have := hrowlive row hrw
      have hid' : row.id = i.toNat := hid
      rw [← hid'] at hlv
      rw [hlv] at this
      exact (Option.some.inj this).symm
  · -- each row: its uuid, and the selected data of its stored document
    intro x hx
    obtain ⟨row, hrw, rfl⟩ := List.mem_map.1 hx
    exact ⟨hrowlive row hrw, (hrow row hrw).2⟩
  · -- no sort keys: ascending node id
    intro hs
    have h1 := hnosort hs
    rw [hB, hres] at h1
    simp only [List.map_nil, List.nil_append, List.map_map, Function.comp_def] at h1
    have h2 : rows0.map (·.id) = unranked := by
      have := congrArg (List.map Prod.fst) h1
      simpa [List.map_map, Function.comp_def] using this
    simp only [List.map_map, Function.comp_def, g]
    have h3 : (rows0.map fun x => x.id) = unranked := h2
    rw [h3]; exact hasc
  · -- sort keys: ordered by the comparator
    intro hs
    rw [List.pairwise_map]
    exact hsorted hs

/-! ### histories against the reference map -/

/-- the history as the reference map sees it: each batch with the verdict the indexes gave -/
def specHist (lower : Bytes → Bytes) (cv : Conv) (cfg : C01.Cfg) : State → List (C01.Op × C01.Oracle) → List (C01.Op × Bool)
  | _, [] => []
  | st, (op, o) :: rest =>
    (op, indexVerdict lower st (changes cfg cv st.shard op o)) :: specHist lower cv cfg (st.step lower cv cfg op o).1 rest

theorem run_abs (lower : Bytes → Bytes) (cv : Conv) (cfg : C01.Cfg) (h : List (C01.Op × C01.Oracle)) : ∀ (st : State),
    C01.Inv st.shard →
    C01.abs (State.run lower cv cfg st h).1.shard = (C01.Coll.run cfg (C01.abs st.shard) (specHist lower cv cfg st h)).1 ∧
    C01.Out.equivList (State.run lower cv cfg st h).2 (C01.Coll.run cfg (C01.abs st.shard) (specHist lower cv cfg st h)).2 := by
  induction h with
  | nil => intro st _; exact ⟨rfl, trivial⟩
  | cons e rest ih =>
    obtain ⟨op, o⟩ := e
    intro st hI
    obtain ⟨hs1, hs2⟩ := step_shard lower cv cfg st op o
    obtain ⟨k1, k2, k3⟩ := C01.C01_step cfg st.shard op (withVerdict lower cv cfg st op o) hI
    rw [← hs1] at k1 k2
    rw [← hs2] at k3
    obtain ⟨j1, j2⟩ := ih _ k1
    simp only [State.run, specHist, C01.Coll.run]
    rw [k2] at j1 j2
    exact ⟨j1, k3, j2⟩

theorem step_schema (lower : Bytes → Bytes) (cv : Conv) (cfg : C01.Cfg) (st : State) (op : C01.Op) (o : C01.Oracle) :
    (st.step lower cv cfg op o).1.schema = st.schema := by
  by_cases hr : isRejected (st.step lower cv cfg op o).2 = true
  · rw [step_rejected_same lower cv cfg st op o hr]
  · have hr' : isRejected (st.step lower cv cfg op o).2 = false := by
      cases h : isRejected (st.step lower cv cfg op o).2 with
      | true => exact absurd h hr
      | false => rfl
    unfold State.schema
    rw [(step_idxs lower cv cfg st op o hr').1, List.map_map]
    rfl

theorem run_schema (lower : Bytes → Bytes) (cv : Conv) (cfg : C01.Cfg) (h : List (C01.Op × C01.Oracle)) : ∀ (st : State),
    (State.run lower cv cfg st h).1.schema = st.schema := by
  induction h with
  | nil => intro st; rfl
  | cons e rest ih =>
    obtain ⟨op, o⟩ := e
    intro st
    simp only [State.run]
    rw [ih, step_schema]

theorem init_schema (schema : List (List String × C02.Kind)) (bolt : Bool) : (State.init schema bolt).schema = schema := by
  simp [State.init, State.schema, List.map_map, Function.comp_def]

theorem equiv_rejected {x : C01.Out} {r : C01.Reason} (h : C01.Out.equiv x (.rejected r)) : x = .rejected r := by
  cases x <;> simp [C01.Out.equiv] at h
  subst h; rfl

/-- with a negative index verdict the reference map rejects every batch -/
theorem coll_step_index_false (cfg : C01.Cfg) (c : C01.Coll) (op : C01.Op) :
    ∃ r, (C01.Coll.step cfg c op false).2 = .rejected r ∧ (C01.Coll.step cfg c op false).1 = c := by
  cases op with
  | insert b =>
    simp only [C01.Coll.step, C01.Coll.insert]
    split
    · exact ⟨_, rfl, rfl⟩
    · split
      · exact ⟨_, rfl, rfl⟩
      · exact ⟨_, rfl, rfl⟩
  | update b =>
    simp only [C01.Coll.step, C01.Coll.update]
    cases C01.Coll.updateLoop cfg c b [] with
    | error e => exact ⟨_, rfl, rfl⟩
    | ok r => exact ⟨_, rfl, rfl⟩
  | delete ids => exact ⟨_, rfl, rfl⟩

/-! ### the node ids of an insert are unused and distinct (C02's `OpOK`, from C01's invariant) -/

theorem insert_fresh (cv : Conv) (b : List (Uuid × Data)) : ∀ (p : Points) (c : Ctr) (p' : Points) (c' : Ctr),
    PInv p → CInv p.nI c.free c.next → C01.insertLoop p c b = .ok (p', c') → c'.next ≤ idBound →
    ∃ ns : List Nat, (insertChanges cv p c b).map (·.id) = ns.map nid ∧ ns.Nodup ∧
      ∀ n ∈ ns, n < idBound ∧ C01.AL.get p.nI n = none := by
  induction b with
  | nil => intro p c p' c' _ _ _ _; exact ⟨[], rfl, List.nodup_nil, by simp⟩
  | cons e rest ih =>
    obtain ⟨u, d⟩ := e
    intro p c p' c' hp hc h hb
    by_cases hex : (C01.AL.get p.pI u).isSome = true
    · simp [C01.insertLoop, hex] at h
    · have hu : C01.AL.get p.pI u = none := by
        cases hg : C01.AL.get p.pI u with
        | none => rfl
        | some _ => rw [hg] at hex; exact absurd rfl hex
      have hl : C01.insertLoop p c ((u, d) :: rest) = C01.insertLoop (C01.setPoint p u c.nextId.1 d) c.nextId.2 rest := by
        simp [C01.insertLoop, hu]
      have hch : insertChanges cv p c ((u, d) :: rest) =
          ⟨nid c.nextId.1, none, idxData cv d⟩ :: insertChanges cv (C01.setPoint p u c.nextId.1 d) c.nextId.2 rest := by
        simp [insertChanges, hu]
      rw [hl] at h
      obtain ⟨hid, hc1⟩ := C01.nextId_spec c hc u
      obtain ⟨hp1, _, _, hnI1⟩ := C01.setPoint_new hp hu hid d
      rw [← hnI1] at hc1
      obtain ⟨_, ihn⟩ := insert_chain cv rest _ _ p' c' hp1 hc1 h hb
      obtain ⟨ns, h1, h2, h3⟩ := ih _ _ p' c' hp1 hc1 h hb
      have hlive : C01.AL.get (C01.setPoint p u c.nextId.1 d).nI c.nextId.1 = some u := by
        rw [hnI1, C01.AL.get_put]; simp
      have hlt : c.nextId.1 < idBound := by
        have := (hc1.live_range _ _ hlive).2
        omega
      refine ⟨c.nextId.1 :: ns, by rw [hch]; simp [h1], List.nodup_cons.2 ⟨?_, h2⟩, ?_⟩
      · intro hmem
        have := (h3 _ hmem).2
        rw [hlive] at this; cases this
      · intro n hn
        rcases List.mem_cons.1 hn with rfl | hn
        · exact ⟨hlt, hid⟩
        · obtain ⟨k1, k2⟩ := h3 n hn
          refine ⟨k1, ?_⟩
          rw [hnI1, C01.AL.get_put] at k2
          by_cases he : c.nextId.1 = n
          · rw [if_pos he] at k2; cases k2
          · rw [if_neg he] at k2; exact k2

/-! ### the id bound need only be checked at the end: the id counter never goes back -/

theorem insertLoop_next_le (b : List (Uuid × Data)) : ∀ (p : Points) (c : Ctr) (p' : Points) (c' : Ctr),
    C01.insertLoop p c b = .ok (p', c') → c.next ≤ c'.next := by
  induction b with
  | nil =>
    intro p c p' c' h
    simp only [C01.insertLoop, Except.ok.injEq, Prod.mk.injEq] at h
    obtain ⟨_, rfl⟩ := h
    exact Nat.le_refl _
  | cons e rest ih =>
    obtain ⟨u, d⟩ := e
    intro p c p' c' h
    by_cases hex : (C01.AL.get p.pI u).isSome = true
    · simp [C01.insertLoop, hex] at h
    · simp only [C01.insertLoop, hex, Bool.false_eq_true, if_false] at h
      exact Nat.le_trans (nextId_next_le c) (ih _ _ p' c' h)

theorem deleteLoop_next (iter : List Uuid) : ∀ (p : Points) (c : Ctr) (acc : List Uuid),
    (C01.deleteLoop p c iter acc).2.1.next = c.next := by
  induction iter with
  | nil => intro p c acc; rfl
  | cons u rest ih =>
    intro p c acc
    cases hu : C01.AL.get p.pI u with
    | none => simp only [C01.deleteLoop, hu]; exact ih p c acc
    | some id => simp only [C01.deleteLoop, hu]; rw [ih]; rfl

theorem shard_step_next_le (cfg : C01.Cfg) (s : Shard) (op : C01.Op) (o : C01.Oracle) :
    s.nextV ≤ (s.step cfg op o).1.nextV := by
  cases op with
  | insert b =>
    simp only [C01.Shard.step]
    rcases insertPoints_cases s b o with ⟨h1, _⟩ | ⟨p, c, hl, _, heq⟩
    · rw [h1]; exact Nat.le_refl _
    · rw [heq]; exact insertLoop_next_le b _ _ p c hl
  | update b =>
    simp only [C01.Shard.step]
    rcases updatePoints_cases cfg s b o with ⟨h1, _⟩ | ⟨p, ids, _, _, heq⟩
    · rw [h1]; exact Nat.le_refl _
    · rw [heq]; exact Nat.le_refl _
  | delete ids =>
    simp only [C01.Shard.step]
    rcases deletePoints_cases s ids o with ⟨h1, _⟩ | ⟨_, heq⟩
    · rw [h1]; exact Nat.le_refl _
    · rw [heq]
      show s.nextV ≤ (C01.deleteLoop s.pts (C01.newIdCounter s o) _ []).2.1.next
      rw [deleteLoop_next]; exact Nat.le_refl _

theorem run_next_le (lower : Bytes → Bytes) (cv : Conv) (cfg : C01.Cfg) (h : List (C01.Op × C01.Oracle)) : ∀ (st : State),
    st.shard.nextV ≤ (State.run lower cv cfg st h).1.shard.nextV := by
  induction h with
  | nil => intro st; exact Nat.le_refl _
  | cons e rest ih =>
    obtain ⟨op, o⟩ := e
    intro st
    simp only [State.run]
    refine Nat.le_trans ?_ (ih _)
    rw [(step_shard lower cv cfg st op o).1]
    exact shard_step_next_le cfg st.shard op _

/-- the NaN half of `HistOK` alone -/
def HistFlt (lower : Bytes → Bytes) (cv : Conv) (cfg : C01.Cfg) : State → List (C01.Op × C01.Oracle) → Prop
  | _, [] => True
  | st, e :: rest =>
    (∀ pc ∈ changes cfg cv st.shard e.1 e.2, ∀ ix ∈ st.idxs, ix.kind = .flt → C02.FltOK ix.path pc.cur) ∧
    HistFlt lower cv cfg (st.step lower cv cfg e.1 e.2).1 rest

theorem histOK_of_final (lower : Bytes → Bytes) (cv : Conv) (cfg : C01.Cfg) (h : List (C01.Op × C01.Oracle)) : ∀ (st : State),
    HistFlt lower cv cfg st h → (State.run lower cv cfg st h).1.shard.nextV ≤ idBound → HistOK lower cv cfg st h := by
  induction h with
  | nil => intro st _ _; trivial
  | cons e rest ih =>
    obtain ⟨op, o⟩ := e
    intro st hf hb
    exact ⟨⟨Nat.le_trans (run_next_le lower cv cfg rest _) hb, hf.1⟩, ih _ hf.2 hb⟩

end Sema.Compose
