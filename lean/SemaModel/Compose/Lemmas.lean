/-
Compose — lemmas connecting C01's point store, C02's indexes and C06's answer pipeline.
-/
import SemaModel.Compose.Model
import SemaModel.C01.Props
import SemaModel.C02.Props
import SemaModel.C06.Props
set_option linter.unusedSimpArgs false
namespace Sema.Compose
open Sema
open Sema.C01 (Points Ctr Shard PInv CInv Uuid Data)

/-! ### node ids: `uint64` in the indexes, `Nat` in the point store model -/

/-- fewer than `2^63` node ids: the ids fit `uint64` and every result length fits Go's `int` -/
def idBound : Nat := 2 ^ 63

theorem nid_toNat {n : Nat} (h : n < idBound) : (nid n).toNat = n := by
  unfold idBound at h
  simp only [nid, BitVec.toNat_ofNat]
  omega

theorem nid_of_toNat (i : C02.Id) : nid i.toNat = i := by
  simp [nid]

theorem eq_nid_iff {n : Nat} (h : n < idBound) (i : C02.Id) : i = nid n ↔ i.toNat = n := by
  constructor
  · intro e; rw [e]; exact nid_toNat h
  · intro e; rw [← e]; exact (nid_of_toNat i).symm

theorem nid_inj {a b : Nat} (ha : a < idBound) (hb : b < idBound) (h : nid a = nid b) : a = b := by
  have := congrArg BitVec.toNat h
  rwa [nid_toNat ha, nid_toNat hb] at this

/-- every live node id is below the bound -/
def LiveBound (p : Points) : Prop := ∀ id u, C01.AL.get p.nI id = some u → id < idBound

/-- the document (index view) stored under a node id; nothing for an unused id or zero-length data -/
def docAt (cv : Conv) (p : Points) (i : C02.Id) : Option C02.Val := (C01.AL.get p.nD i.toNat).map (idxDoc cv)

theorem docAt_nid (cv : Conv) (p : Points) {n : Nat} (h : n < idBound) :
    docAt cv p (nid n) = idxData cv (C01.AL.get p.nD n) := by
  simp [docAt, idxData, nid_toNat h]

theorem nD_none_of_dead {p : Points} (hp : PInv p) {id : Nat} (h : C01.AL.get p.nI id = none) : C01.AL.get p.nD id = none := by
  cases hd : C01.AL.get p.nD id with
  | none => rfl
  | some d =>
    have := hp.nD_live id (by rw [hd]; rfl)
    rw [h] at this; cases this

/-- writing the data of node id `n` is `updD` at `nid n` -/
theorem docAt_setPoint (cv : Conv) (p : Points) (u : Uuid) {n : Nat} (h : n < idBound) (d : Data) :
    docAt cv (C01.setPoint p u n d) = C02.updD (docAt cv p) (nid n) (idxData cv d) := by
  funext i
  unfold C02.updD docAt
  by_cases hi : i.toNat = n
  · have e : i = nid n := (eq_nid_iff h i).2 hi
    rw [if_pos e, hi]
    cases d with
    | none => show (C01.AL.get (C01.AL.del p.nD n) n).map (idxDoc cv) = _; simp [C01.AL.get_del, idxData]
    | some d => show (C01.AL.get (C01.AL.put p.nD n d) n).map (idxDoc cv) = _; simp [C01.AL.get_put, idxData]
  · have e : ¬ i = nid n := fun e => hi ((eq_nid_iff h i).1 e)
    have hn : ¬ n = i.toNat := fun e => hi e.symm
    rw [if_neg e]
    cases d with
    | none => show (C01.AL.get (C01.AL.del p.nD n) i.toNat).map (idxDoc cv) = _; simp [C01.AL.get_del, hn]
    | some d => show (C01.AL.get (C01.AL.put p.nD n d) i.toNat).map (idxDoc cv) = _; simp [C01.AL.get_put, hn]

theorem docAt_deletePoint (cv : Conv) (p : Points) (u : Uuid) {n : Nat} (h : n < idBound) :
    docAt cv (C01.deletePoint p u n) = C02.updD (docAt cv p) (nid n) none := by
  funext i
  unfold C02.updD docAt
  show (C01.AL.get (C01.AL.del p.nD n) i.toNat).map (idxDoc cv) = _
  by_cases hi : i.toNat = n
  · have e : i = nid n := (eq_nid_iff h i).2 hi
    rw [if_pos e, hi]; simp [C01.AL.get_del]
  · have e : ¬ i = nid n := fun e => hi ((eq_nid_iff h i).1 e)
    have hn : ¬ n = i.toNat := fun e => hi e.symm
    rw [if_neg e]; simp [C01.AL.get_del, hn]

/-! ### the change stream of a batch is a chain over the point store (C02's `PChain`) -/

theorem nextId_next_le (c : Ctr) : c.next ≤ c.nextId.2.next := by
  obtain ⟨free, next⟩ := c
  cases free <;> simp [Ctr.nextId]

/-- InsertPoints -/
theorem insert_chain (cv : Conv) (b : List (Uuid × Data)) : ∀ (p : Points) (c : Ctr) (p' : Points) (c' : Ctr),
    PInv p → CInv p.nI c.free c.next → C01.insertLoop p c b = .ok (p', c') → c'.next ≤ idBound →
    C02.PChain (docAt cv p) (insertChanges cv p c b) (docAt cv p') ∧ c.next ≤ c'.next := by
  induction b with
  | nil =>
    intro p c p' c' _ _ h _
    simp only [C01.insertLoop, Except.ok.injEq, Prod.mk.injEq] at h
    obtain ⟨rfl, rfl⟩ := h
    exact ⟨C02.PChain.nil _, Nat.le_refl _⟩
  | cons e rest ih =>
    obtain ⟨u, d⟩ := e
    intro p c p' c' hp hc h hb
    by_cases hex : (C01.AL.get p.pI u).isSome = true
    · simp [C01.insertLoop, hex] at h
    · have hu : C01.AL.get p.pI u = none := by
        cases hg : C01.AL.get p.pI u with
        | none => rfl
        | some _ => rw [hg] at hex; exact absurd rfl hex
      have hl : C01.insertLoop p c ((u, d) :: rest) = C01.insertLoop (C01.setPoint p u c.nextId.1 d) c.nextId.2 rest := by
        simp [C01.insertLoop, hu]
      have hch : insertChanges cv p c ((u, d) :: rest) =
          ⟨nid c.nextId.1, none, idxData cv d⟩ :: insertChanges cv (C01.setPoint p u c.nextId.1 d) c.nextId.2 rest := by
        simp [insertChanges, hu]
      rw [hl] at h
      obtain ⟨hid, hc1⟩ := C01.nextId_spec c hc u
      obtain ⟨hp1, _, _, hnI1⟩ := C01.setPoint_new hp hu hid d
      rw [← hnI1] at hc1
      obtain ⟨ihc, ihn⟩ := ih _ _ p' c' hp1 hc1 h hb
      have hlive : C01.AL.get (C01.setPoint p u c.nextId.1 d).nI c.nextId.1 = some u := by
        rw [hnI1, C01.AL.get_put]; simp
      have hlt : c.nextId.1 < idBound := by
        have := (hc1.live_range _ _ hlive).2
        omega
      rw [hch]
      refine ⟨C02.PChain.cons ?_ ?_, Nat.le_trans (nextId_next_le c) ihn⟩
      · show docAt cv p (nid c.nextId.1) = none
        rw [docAt_nid cv p hlt, nD_none_of_dead hp hid]; rfl
      · show C02.PChain (C02.updD (docAt cv p) (nid c.nextId.1) (idxData cv d)) _ _
        rw [← docAt_setPoint cv p u hlt d]
        exact ihc

/-- UpdatePoints -/
theorem update_chain (cfg : C01.Cfg) (cv : Conv) (b : List (Uuid × Data)) : ∀ (p : Points) (acc : List Uuid) (p' : Points) (a : List Uuid),
    PInv p → LiveBound p → C01.updateLoop cfg p b acc = .ok (p', a) →
    C02.PChain (docAt cv p) (updateChanges cfg cv p b) (docAt cv p') := by
  induction b with
  | nil =>
    intro p acc p' a _ _ h
    simp only [C01.updateLoop, Except.ok.injEq, Prod.mk.injEq] at h
    obtain ⟨rfl, rfl⟩ := h
    exact C02.PChain.nil _
  | cons e rest ih =>
    obtain ⟨u, inc⟩ := e
    intro p acc p' a hp hb h
    cases hu : C01.AL.get p.pI u with
    | none =>
      have h1 : C01.updateLoop cfg p ((u, inc) :: rest) acc = C01.updateLoop cfg p rest acc := by simp [C01.updateLoop, hu]
      have h2 : updateChanges cfg cv p ((u, inc) :: rest) = updateChanges cfg cv p rest := by simp [updateChanges, hu]
      rw [h1] at h; rw [h2]
      exact ih p acc p' a hp hb h
    | some id =>
      cases hd : C01.AL.get p.nD id with
      | none => simp [C01.updateLoop, hu, hd] at h
      | some old =>
        cases inc with
        | none => simp [C01.updateLoop, hu, hd] at h
        | some i =>
          by_cases hs : cfg.size (C01.merge old i) > cfg.maxSize
          · simp [C01.updateLoop, hu, hd, hs] at h
          · have h1 : C01.updateLoop cfg p ((u, some i) :: rest) acc =
                C01.updateLoop cfg (C01.setPoint p u id (some (C01.merge old i))) rest (acc ++ [u]) := by
              simp [C01.updateLoop, hu, hd, hs]
            have h2 : updateChanges cfg cv p ((u, some i) :: rest) =
                ⟨nid id, some (idxDoc cv old), some (idxDoc cv (C01.merge old i))⟩ ::
                  updateChanges cfg cv (C01.setPoint p u id (some (C01.merge old i))) rest := by
              simp [updateChanges, hu, hd, hs]
            rw [h1] at h; rw [h2]
            obtain ⟨hp1, _, _, hnI1⟩ := C01.setPoint_live hp hu (C01.merge old i)
            have hlt : id < idBound := hb id u ((hp.bij u id).mp hu)
            have hb1 : LiveBound (C01.setPoint p u id (some (C01.merge old i))) := by
              intro j w hj; rw [hnI1] at hj; exact hb j w hj
            refine C02.PChain.cons ?_ ?_
            · show docAt cv p (nid id) = some (idxDoc cv old)
              rw [docAt_nid cv p hlt, hd]; rfl
            · show C02.PChain (C02.updD (docAt cv p) (nid id) (some (idxDoc cv (C01.merge old i)))) _ _
              have := docAt_setPoint cv p u hlt (some (C01.merge old i))
              simp only [idxData, Option.map_some] at this
              rw [← this]
              exact ih _ _ p' a hp1 hb1 h

/-- DeletePoints -/
theorem delete_chain (cv : Conv) (iter : List Uuid) : ∀ (p : Points) (c : Ctr) (acc : List Uuid),
    PInv p → LiveBound p →
    C02.PChain (docAt cv p) (deleteChanges cv p iter) (docAt cv (C01.deleteLoop p c iter acc).1) := by
  induction iter with
  | nil => intro p c acc _ _; exact C02.PChain.nil _
  | cons u rest ih =>
    intro p c acc hp hb
    cases hu : C01.AL.get p.pI u with
    | none =>
      have h1 : C01.deleteLoop p c (u :: rest) acc = C01.deleteLoop p c rest acc := by simp [C01.deleteLoop, hu]
      have h2 : deleteChanges cv p (u :: rest) = deleteChanges cv p rest := by simp [deleteChanges, hu]
      rw [h1, h2]; exact ih p c acc hp hb
    | some id =>
      have h1 : C01.deleteLoop p c (u :: rest) acc = C01.deleteLoop (C01.deletePoint p u id) (c.freeId id) rest (acc ++ [u]) := by
        simp [C01.deleteLoop, hu]
      have h2 : deleteChanges cv p (u :: rest) =
          ⟨nid id, idxData cv (C01.AL.get p.nD id), none⟩ :: deleteChanges cv (C01.deletePoint p u id) rest := by
        simp [deleteChanges, hu]
      rw [h1, h2]
      obtain ⟨hp1, _, _, _, hnI1⟩ := C01.deletePoint_live hp hu
      have hlt : id < idBound := hb id u ((hp.bij u id).mp hu)
      have hb1 : LiveBound (C01.deletePoint p u id) := by
        intro j w hj
        rw [hnI1, C01.AL.get_del] at hj
        by_cases hji : id = j
        · simp [hji] at hj
        · rw [if_neg hji] at hj; exact hb j w hj
      refine C02.PChain.cons (docAt_nid cv p hlt) ?_
      show C02.PChain (C02.updD (docAt cv p) (nid id) none) _ _
      rw [← docAt_deletePoint cv p u hlt]
      exact ih _ _ _ hp1 hb1

end Sema.Compose
