/-
Compose / ranking — end-to-end statements about `Shard.SearchPoints` for HYBRID search, obtained by composing
the per-property models and theorems: C01 (point store), C02 (filter indexes, pre-filters), C04 (flat vector
search: exact kNN for any enumeration order), C05 (text index: statistics follow the corpus, match / cut /
score order / tf-idf formula), C06 (query trees over leaf answers, back-fill, select, sort, paging).

MODEL  `RState` (RankModel.lean) = Model.lean's `State` + per vectorFlat entry the set of (node id, vector)
       pairs + per text entry the C05 index; ONE write step per batch feeds all of them from the same change
       stream; `rsearchPoints` = `Shard.SearchPoints` on a tree mixing filter, vectorFlat and text leaves.
SPEC   C01's `Coll` (uuid ↦ document) with `FlatCand` / `IsFlatAnswer` (the `limit` nearest among the documents
       that carry the field and satisfy the pre-filter, up to ties) and `TextMatch` / `refScore` / `IsTextAnswer`
       (match set, `limit` best by tf-idf over the CURRENT reference map).

Cross-property hypotheses DISCHARGED here (they were assumptions of the single properties):
  * C04: "the store's items are the live points that have the field, each with the vector of its document" —
    `Compose_rank_inv_history` (flat clause), by induction over histories from the empty shard;
  * C05: `TextInv` for the corpus of the live documents — `Compose_rank_inv_history` (text clause); the corpus is
    read off the reference map;
  * C04 / C05 "the pre-filter bitmap is the id set of the filter query" — it is C02's `eval`, and on live node
    ids it is the filter tree evaluated on the DOCUMENT (`pass_iff`);
  * C06 "the leaf answers are inputs", `leavesWF`, "ranked ids are live" — the leaves are the answers of the
    C04 / C05 / C02 models on the combined state, proved to be reference answers (`LeafRef`).
What REMAINS assumed is stated beside each theorem: distances form a linear order (no NaN distance), the text
score addition is commutative and associative (no rounding / NaN: the traversal order of the query term set is
Go map order), every sort returns a sorted permutation, `RHistOK` (Model.lean's `HistOK` + C05's forced
hypothesis that a point's own changes reach the text writer in batch order), queries well formed and without NaN
filter values; quantizer = none and vector dimension = index dimension (C18) are modelling assumptions (the
distance is an abstract total function of the two vectors).
Only property theorems and their non-vacuity examples live in this file.
-/
import SemaModel.Compose.RankLemmas
set_option linter.unusedSimpArgs false
set_option linter.unusedVariables false
set_option linter.unusedSectionVars false
namespace Sema.Compose
open Sema
open Sema.C01 (Uuid Data)

variable {V T D S W : Type} [DecidableEq T]

/-! ### write batches -/

/-- **Compose_rank_step.** One batch (insert / update / delete, accepted or rejected, any oracle values, any
arrival order at the text writer that keeps each point's own changes in order) on a combined state with
ranking indexes: the invariant is kept — Model.lean's, every flat store holds the vectors of the documents
now stored, every text index carries the statistics of the corpus now stored —, and the point store stands
for the reference map after the same batch under the verdict of ALL indexes. -/
theorem Compose_rank_step (lower : Bytes → Bytes) (cv : Conv) (cfg : C01.Cfg) (env : Env V T D S W) {rs : RState V T}
    (hR : RInv lower cv env rs) (op : C01.Op) (ro : ROracle T) (ok : RStepOK lower cv cfg env rs op ro) :
    RInv lower cv env (rs.step lower cv cfg env op ro).1 ∧
    C01.abs (rs.step lower cv cfg env op ro).1.base.shard =
      (C01.Coll.step cfg (C01.abs rs.base.shard) op (fullVerdict lower cv cfg env rs op ro.o)).1 ∧
    C01.Out.equiv (rs.step lower cv cfg env op ro).2
      (C01.Coll.step cfg (C01.abs rs.base.shard) op (fullVerdict lower cv cfg env rs op ro.o)).2 := by
  obtain ⟨hs1, hs2⟩ := rstep_shard lower cv cfg env rs op ro
  obtain ⟨_, k2, k3⟩ := C01.C01_step cfg rs.base.shard op { ro.o with indexOk := fullVerdict lower cv cfg env rs op ro.o }
    hR.base.store
  exact ⟨rstep_inv lower cv cfg env hR op ro ok, by rw [hs1]; exact k2, by rw [hs2]; exact k3⟩

/-- **Compose_rank_rejected_noop.** A batch that a ranking index refuses — a vectorFlat property whose new
value is not an array of float32, a text property whose new value is not a string, a property path through a
non-map — is rejected, and a rejected batch (whatever the reason) leaves points, counters and EVERY index
(filter, flat, text) unchanged. -/
theorem Compose_rank_rejected_noop (lower : Bytes → Bytes) (cv : Conv) (cfg : C01.Cfg) (env : Env V T D S W) (rs : RState V T)
    (op : C01.Op) (ro : ROracle T) :
    (rankVerdict env rs (changes cfg cv rs.base.shard op ro.o) = false →
      ∃ r, (rs.step lower cv cfg env op ro).2 = .rejected r) ∧
    (∀ r, (rs.step lower cv cfg env op ro).2 = .rejected r → (rs.step lower cv cfg env op ro).1 = rs) := by
  rcases rstep_cases lower cv cfg env rs op ro with ⟨hv, h⟩ | ⟨hv, hr, h⟩ | ⟨hv, hr, h⟩
  · refine ⟨fun _ => ?_, fun r _ => by rw [h]⟩
    rw [h]
    have := shard_step_indexFalse cfg rs.base.shard op { ro.o with indexOk := false } rfl
    cases hout : (rs.base.shard.step cfg op { ro.o with indexOk := false }).2 with
    | rejected r => exact ⟨r, rfl⟩
    | _ => rw [hout] at this; cases this
  · exact ⟨fun hf => (by rw [hv] at hf; cases hf), fun r _ => by rw [h]⟩
  · refine ⟨fun hf => (by rw [hv] at hf; cases hf), fun r hrr => ?_⟩
    rw [h] at hrr
    have : isRejected (rs.base.step lower cv cfg op ro.o).2 = true := by
      show isRejected (rs.base.step lower cv cfg op ro.o).2 = true
      have e : (rs.base.step lower cv cfg op ro.o).2 = .rejected r := hrr
      rw [e]; rfl
    rw [hr] at this; cases this

/-- **Compose_rank_inv_history.** From the empty shard of any schema (filter entries, vectorFlat entries,
text entries), after any history of batches under any oracle values:

* the invariant of the combined state holds (C01's, C02's, and the two below);
* the point store stands for exactly the reference map `coll` the history produces, results agree, the
  schema is unchanged;
* **(what C04 takes as given)** every flat store holds each node id at most once, and holds `(i, v)` exactly
  when `i` is the node id of a live point `u` whose document in the reference map carries the vector `v`
  under the index's property — a point lacking the field is absent;
* **(what C05 takes as given)** every text index satisfies `TextInv` for the corpus read off the reference
  map: per live point whose text has tokens, its node id and those tokens.

Hypothesis `RHistOK`: per batch, no NaN written into a float-indexed property, fewer than 2^63 node ids, and
each point's own changes reach the text writer in batch order. -/
theorem Compose_rank_inv_history (lower : Bytes → Bytes) (cv : Conv) (cfg : C01.Cfg) (env : Env V T D S W)
    (schema : List (List String × C02.Kind)) (bolt : Bool) (fpaths tpaths : List (List String))
    (h : List (C01.Op × ROracle T))
    (hok : RHistOK lower cv cfg env (RState.init schema bolt fpaths tpaths : RState V T) h) :
    let fin := (RState.run lower cv cfg env (RState.init schema bolt fpaths tpaths : RState V T) h).1
    let coll := (C01.Coll.run cfg [] (rspecHist lower cv cfg env (RState.init schema bolt fpaths tpaths : RState V T) h)).1
    RInv lower cv env fin ∧
    C01.abs fin.base.shard = coll ∧
    C01.Out.equivList (RState.run lower cv cfg env (RState.init schema bolt fpaths tpaths : RState V T) h).2
      (C01.Coll.run cfg [] (rspecHist lower cv cfg env (RState.init schema bolt fpaths tpaths : RState V T) h)).2 ∧
    fin.base.schema = schema ∧ fin.flatPaths = fpaths ∧ fin.textPaths = tpaths ∧
    (∀ fx ∈ fin.flats, (C01.AL.keys fx.store).Nodup ∧
      ∀ i v, (i, v) ∈ fx.store ↔ ∃ u doc, C01.AL.get fin.base.shard.pts.nI i.toNat = some u ∧
        C01.AL.get coll u = some doc ∧ vecAt env fx.path (idxData cv doc) = some v) ∧
    (∀ tx ∈ fin.texts, C05.TextInv tx.ix (refCorpus cv env tx.path fin.base.shard.pts.pI coll)) := by
  intro fin coll
  have hR : RInv lower cv env fin := rrun_inv lower cv cfg env h _ (rinit_inv lower cv env schema bolt fpaths tpaths) hok
  obtain ⟨habs, hout⟩ := rrun_abs lower cv cfg env h (RState.init schema bolt fpaths tpaths : RState V T) C01.Inv_empty
  have habs' : C01.abs fin.base.shard = coll := habs
  obtain ⟨s1, s2, s3⟩ := rrun_schema lower cv cfg env h (RState.init schema bolt fpaths tpaths : RState V T)
  obtain ⟨i1, i2, i3⟩ := rinit_schema (V := V) (T := T) schema bolt fpaths tpaths
  refine ⟨hR, habs', hout, s1.trans i1, s2.trans i2, s3.trans i3, ?_, ?_⟩
  · intro fx hfx
    refine ⟨(hR.flat fx hfx).1, fun i v => ?_⟩
    rw [← habs']
    exact flat_store_ref hR.base env (hR.flat fx hfx) i v
  · intro tx htx
    rw [← habs']
    exact hR.text tx htx

/-! ### a plain vectorFlat query, end to end -/

/-- **Compose_flat_state.** In any combined state satisfying the invariant, `Shard.SearchPoints` on a plain
`vectorFlat` query (any pre-filter tree, any weight, any select / sort / offset / limit), **for any
enumeration order of the store** and any legitimate sorting routines, answers with the page
`[offset, offset + limit)` of a list `rows` (uuid, hybrid score, returned data) such that there is an answer
`A` (uuid, distance) of the index with

* `IsFlatAnswer`: `A` is an exact `limit`-nearest-neighbour answer ON THE REFERENCE MAP — its rows are
  genuine candidates (a live point whose DOCUMENT carries a vector under the property and satisfies the
  pre-filter tree, reported with the distance of that vector), each once, sorted by distance, at most `limit`,
  and a candidate is left out only when `limit` rows are returned and none of them is farther (so none closer
  is left out: `Compose_flat_no_closer`, and there are `min limit #candidates` rows: `Compose_flat_count`);
* `rows` are the rows of `A` with hybrid score `neg (fscale w distance)` (= −weight · distance) — in the order
  of `A` (nearest first) when no sort keys are given, ordered by the multi-key comparator otherwise;
* every row carries exactly the selected data of the document the reference map stores for its uuid.

No index error, no back-fill / select error, no slice panic.  Hypotheses: the query is one the shard answers
(`wf`: the property is a vectorFlat entry, `limit ≥ 1`, the pre-filter is well formed), no NaN in the
pre-filter (`Valid`), distances linearly ordered (`[LinearOrder D]`: no NaN distance), `orc.OK`. -/
theorem Compose_flat_state [LinearOrder D] {lower : Bytes → Bytes} {cv : Conv} {env : Env V T D S W} {rs : RState V T}
    (hR : RInv lower cv env rs) (orc : SOracle V T S) (le : S → S → Prop) (rq : C06.Request) (hok : orc.OK le rq.sort)
    (path : List String) (qv : V) (limit : Nat) (w : W) (f : Option C02.Query)
    (hwf : (RQuery.leaf (.flat path qv limit w f) : RQuery V T W).wf rs cv = true) (hv : ∀ q, f = some q → q.Valid)
    (hsel : ∀ p ∈ rq.select, p ≠ [])
    (off lim : Nat) (ho : rq.off = off) (hl : rq.lim = lim) (hoff : off < 2 ^ 63) (hlim : lim < 2 ^ 63) :
    ∃ (A : List (Uuid × D)) (rows : List (Uuid × Option S × C06.Doc)),
      IsFlatAnswer lower cv env rs.base.schema (C01.abs rs.base.shard) path qv limit f A ∧
      rsearchPoints lower cv env orc rs (.leaf (.flat path qv limit w f)) rq =
        .rows ((rows.drop off).take (if lim = 0 then rows.length else lim)) ∧
      (rows.map fun r => (r.1, r.2.1)).Perm (A.map fun a => (a.1, some (env.neg (env.fscale w a.2)))) ∧
      (rq.sort = [] → rows.map (fun r => (r.1, r.2.1)) = A.map fun a => (a.1, some (env.neg (env.fscale w a.2)))) ∧
      (rq.sort ≠ [] → rows.Pairwise (fun a b => C06.sortCmp rq.sort a.2.2 b.2.2 ≤ 0)) ∧
      (∀ r ∈ rows, ∃ d, C01.AL.get (C01.abs rs.base.shard) r.1 = some d ∧ C06.shape rq (selDoc cv d) = .ok r.2.2) := by
  have hwfl : (RLeaf.flat path qv limit w f : RLeaf V T W).wf rs cv = true := hwf
  obtain ⟨⟨A0, hev, hans⟩, hgood⟩ := leaf_ok_flat hR orc le hok.enum_perm path qv limit w f hwfl hv
  obtain ⟨rows0, hans0, hlive, _, _, _, hrow, hnosort, _, hsorted, hperm, _⟩ :=
    rank_pipeline hR.base orc le rq hok (.leaf (.flat path qv limit w f)) hwf rfl hgood hsel off lim ho hl hoff hlim
  -- the back-filled entries of a plain vector query are its ranked results
  have hidx : rsearchIndex lower cv env orc rs (.leaf (.flat path qv limit w f) : RQuery V T W) =
      ⟨A0.map (·.1), A0.map fun a => ⟨a.1, env.neg (env.fscale w a.2)⟩⟩ := by
    simp only [rsearchIndex, rtree, C06.evalTree]; exact hev
  have hB : (C06.backfill (rsearchIndex lower cv env orc rs (.leaf (.flat path qv limit w f) : RQuery V T W))).map
      (fun e => (e.id, e.hybrid)) = A0.map fun a => (a.1, some (env.neg (env.fscale w a.2))) := by
    rw [hidx, backfill_ranked_only _ _ (by intro n hn; simpa [List.map_map, Function.comp_def] using hn)]
    simp [List.map_map, Function.comp_def]
  rw [hB] at hperm
  refine ⟨A0.map fun a => (uuidAt rs.base.shard.pts a.1, a.2),
    rows0.map fun row => (uuidAt rs.base.shard.pts row.id, row.hybrid, row.data), hans, ?_, ?_, ?_, ?_, ?_⟩
  · rw [hans0]; simp [List.map_drop, List.map_take]
  · have := hperm.map (fun p : Nat × Option S => (uuidAt rs.base.shard.pts p.1, p.2))
    simpa [List.map_map, Function.comp_def] using this
  · intro hs
    have := congrArg (List.map (fun p : Nat × Option S => (uuidAt rs.base.shard.pts p.1, p.2))) ((hnosort hs).trans hB)
    simpa [List.map_map, Function.comp_def] using this
  · intro hs; rw [List.pairwise_map]; exact hsorted hs
  · intro r hr
    obtain ⟨row, hrw, rfl⟩ := List.mem_map.1 hr
    exact ⟨_, abs_get_live hR.base.store.pts (hlive row hrw), (hrow row hrw).2⟩

/-- the number of rows of an exact answer: `min limit (number of candidates)`, for every duplicate-free list
`cs` of exactly the candidate uuids of the reference map -/
theorem Compose_flat_count [LinearOrder D] {lower : Bytes → Bytes} {cv : Conv} {env : Env V T D S W}
    {schema : List (List String × C02.Kind)} {coll : C01.Coll} {path : List String} {qv : V} {limit : Nat}
    {f : Option C02.Query} {A : List (Uuid × D)}
    (h : IsFlatAnswer lower cv env schema coll path qv limit f A) (cs : List Uuid) (hcn : cs.Nodup)
    (hcs : ∀ u, u ∈ cs ↔ ∃ d, FlatCand lower cv env schema coll path qv f u d) :
    A.length = min limit cs.length :=
  h.length_eq cs hcn hcs

/-- no candidate of the reference map strictly closer than a returned row is left out -/
theorem Compose_flat_no_closer [LinearOrder D] {lower : Bytes → Bytes} {cv : Conv} {env : Env V T D S W}
    {schema : List (List String × C02.Kind)} {coll : C01.Coll} {path : List String} {qv : V} {limit : Nat}
    {f : Option C02.Query} {A : List (Uuid × D)}
    (h : IsFlatAnswer lower cv env schema coll path qv limit f A) (u : Uuid) (d : D)
    (hc : FlatCand lower cv env schema coll path qv f u d) (a : Uuid × D) (ha : a ∈ A) (hlt : d < a.2) :
    u ∈ A.map (·.1) :=
  h.no_closer_left_out u d hc a ha hlt

/-! ### a plain text query, end to end -/

/-- **Compose_text_state.** In any combined state satisfying the invariant, `Shard.SearchPoints` on a plain
`text` query (containsAll / containsAny, any pre-filter tree, any weight, limit, select / sort / offset /
limit) answers with the page of a list `rows` (uuid, hybrid score, returned data) such that there is an
answer `A` (uuid, score) of the index with

* `IsTextAnswer`: ON THE REFERENCE MAP, the rows of `A` match (the query has a term, the document's text has
  tokens, contains all / one of the query terms, satisfies the pre-filter tree), each once, best score first,
  at most `limit`; a matching document is left out only when `limit` rows are returned and none scores lower;
  every score is Σ over the query term set of tf ⊗ idf with term frequency, document length, corpus size and
  document frequency read off the CURRENT reference map (`refScore`);
* `rows` are the rows of `A` with hybrid score `scale w score` (= weight · score), in the order of `A` when no
  sort keys are given; each carries the selected data of the stored document.

Hypotheses: `wf`, `Valid`, `orc.OK`; the score addition is commutative and associative (the traversal order
of the query term set is Go map order: no rounding, no NaN). -/
theorem Compose_text_state [LinearOrder D] {lower : Bytes → Bytes} {cv : Conv} {env : Env V T D S W} {rs : RState V T}
    (hR : RInv lower cv env rs) (orc : SOracle V T S) (le : S → S → Prop) (rq : C06.Request) (hok : orc.OK le rq.sort)
    (add_comm : ∀ a b, env.ops.add a b = env.ops.add b a)
    (add_assoc : ∀ a b c, env.ops.add (env.ops.add a b) c = env.ops.add a (env.ops.add b c))
    (path : List String) (terms : List T) (all : Bool) (limit : Nat) (w : W) (f : Option C02.Query)
    (hwf : (RQuery.leaf (.text path terms all limit w f) : RQuery V T W).wf rs cv = true) (hv : ∀ q, f = some q → q.Valid)
    (hsel : ∀ p ∈ rq.select, p ≠ [])
    (off lim : Nat) (ho : rq.off = off) (hl : rq.lim = lim) (hoff : off < 2 ^ 63) (hlim : lim < 2 ^ 63) :
    ∃ (A : List (Uuid × S)) (rows : List (Uuid × Option S × C06.Doc)),
      IsTextAnswer lower cv env rs.base.schema (C01.abs rs.base.shard) path terms all limit f le A ∧
      rsearchPoints lower cv env orc rs (.leaf (.text path terms all limit w f)) rq =
        .rows ((rows.drop off).take (if lim = 0 then rows.length else lim)) ∧
      (rows.map fun r => (r.1, r.2.1)).Perm (A.map fun a => (a.1, some (env.ops.scale w a.2))) ∧
      (rq.sort = [] → rows.map (fun r => (r.1, r.2.1)) = A.map fun a => (a.1, some (env.ops.scale w a.2))) ∧
      (rq.sort ≠ [] → rows.Pairwise (fun a b => C06.sortCmp rq.sort a.2.2 b.2.2 ≤ 0)) ∧
      (∀ r ∈ rows, ∃ d, C01.AL.get (C01.abs rs.base.shard) r.1 = some d ∧ C06.shape rq (selDoc cv d) = .ok r.2.2) := by
  have hwfl : (RLeaf.text path terms all limit w f : RLeaf V T W).wf rs cv = true := hwf
  obtain ⟨⟨set, A0, hev, hset, hans⟩, hgood, hnoerr⟩ :=
    leaf_ok_text hR orc le hok.tsort_perm hok.tsort_sorted hok.tord_perm add_comm add_assoc path terms all limit w f hwfl hv
  obtain ⟨rows0, hans0, hlive, _, _, _, hrow, hnosort, _, hsorted, hperm, _⟩ :=
    rank_pipeline hR.base orc le rq hok (.leaf (.text path terms all limit w f)) hwf hnoerr hgood hsel off lim ho hl hoff hlim
  have hidx : rsearchIndex lower cv env orc rs (.leaf (.text path terms all limit w f) : RQuery V T W) =
      ⟨set, A0.map fun a => ⟨a.1, env.ops.scale w a.2⟩⟩ := by
    simp only [rsearchIndex, rtree, C06.evalTree]; exact hev
  have hB : (C06.backfill (rsearchIndex lower cv env orc rs (.leaf (.text path terms all limit w f) : RQuery V T W))).map
      (fun e => (e.id, e.hybrid)) = A0.map fun a => (a.1, some (env.ops.scale w a.2)) := by
    rw [hidx, backfill_ranked_only _ _ (by intro n hn; simpa [List.map_map, Function.comp_def] using (hset n).1 hn)]
    simp [List.map_map, Function.comp_def]
  rw [hB] at hperm
  refine ⟨A0.map fun a => (uuidAt rs.base.shard.pts a.1, a.2),
    rows0.map fun row => (uuidAt rs.base.shard.pts row.id, row.hybrid, row.data), hans, ?_, ?_, ?_, ?_, ?_⟩
  · rw [hans0]; simp [List.map_drop, List.map_take]
  · have := hperm.map (fun p : Nat × Option S => (uuidAt rs.base.shard.pts p.1, p.2))
    simpa [List.map_map, Function.comp_def] using this
  · intro hs
    have := congrArg (List.map (fun p : Nat × Option S => (uuidAt rs.base.shard.pts p.1, p.2))) ((hnosort hs).trans hB)
    simpa [List.map_map, Function.comp_def] using this
  · intro hs; rw [List.pairwise_map]; exact hsorted hs
  · intro r hr
    obtain ⟨row, hrw, rfl⟩ := List.mem_map.1 hr
    exact ⟨_, abs_get_live hR.base.store.pts (hlive row hrw), (hrow row hrw).2⟩

/-! ### hybrid query trees, end to end -/

/-- **Compose_hybrid_state.** In any combined state satisfying the invariant, for a query tree of any depth
mixing filter leaves, vectorFlat leaves and text leaves (`_and` / `_or`, any weights):

(a) EVERY leaf is answered by its index with a reference answer (`LeafRef`): a filter leaf with exactly the
    points whose document satisfies it (ranking nothing), a vectorFlat leaf with an exact nearest-neighbour
    answer of the reference map and hybrid scores −weight · distance, a text leaf with an exact tf-idf answer
    of the reference map and hybrid scores weight · score — these were the INPUTS of `C06_answer`;
(b) `Shard.SearchPoints` answers with the page of a list `rows` (node id, uuid, hybrid score, data) such that
    * the node ids — and the uuids — of `rows` are, once each, exactly the documented id set of the tree over
      those leaf answers: union for `_or`, intersection for `_and` (`C06.inSetB`);
    * each row carries the uuid of its point, the documented hybrid score (`C06.hybridSpec`: the sum, in
      sub-query order, of the contributions of the sub-queries that rank the point; `none` = matched by
      filters only) and exactly the selected data of the document the reference map stores;
    * without sort keys: after a filter-only row only filter-only rows follow, in ascending node-id order,
      and for a composite query the ranked rows come highest hybrid score first (`C06.rankRel`); with sort
      keys the rows are ordered by the multi-key comparator;
    * no index error, no back-fill / select error, no slice panic; then offset / limit. -/
theorem Compose_hybrid_state [LinearOrder D] {lower : Bytes → Bytes} {cv : Conv} {env : Env V T D S W} {rs : RState V T}
    (hR : RInv lower cv env rs) (orc : SOracle V T S) (le : S → S → Prop) (rq : C06.Request) (hok : orc.OK le rq.sort)
    (add_comm : ∀ a b, env.ops.add a b = env.ops.add b a)
    (add_assoc : ∀ a b c, env.ops.add (env.ops.add a b) c = env.ops.add a (env.ops.add b c))
    (q : RQuery V T W) (hwf : q.wf rs cv = true) (hv : q.Valid)
    (hsel : ∀ p ∈ rq.select, p ≠ [])
    (off lim : Nat) (ho : rq.off = off) (hl : rq.lim = lim) (hoff : off < 2 ^ 63) (hlim : lim < 2 ^ 63) :
    q.allLeaves (LeafRef lower cv env orc rs le rs.base.schema (C01.abs rs.base.shard)) ∧
    ∃ rows : List (Nat × Uuid × Option S × C06.Doc),
      rsearchPoints lower cv env orc rs q rq =
        .rows (((rows.drop off).take (if lim = 0 then rows.length else lim)).map (·.2)) ∧
      (rows.map (·.1)).Nodup ∧ (rows.map (·.2.1)).Nodup ∧
      (∀ n, n ∈ rows.map (·.1) ↔ C06.inSetB (rtree lower cv env orc rs q) n = true) ∧
      (∀ r ∈ rows, C01.AL.get rs.base.shard.pts.nI r.1 = some r.2.1 ∧
        r.2.2.1 = C06.hybridSpec env.hadd (rtree lower cv env orc rs q) r.1 ∧
        ∃ d, C01.AL.get (C01.abs rs.base.shard) r.2.1 = some d ∧ C06.shape rq (selDoc cv d) = .ok r.2.2.2) ∧
      (rq.sort = [] → rows.Pairwise (fun a b => a.2.2.1 = none → b.2.2.1 = none ∧ a.1 < b.1)) ∧
      (rq.sort = [] → q.isComposite = true → rows.Pairwise (fun a b => C06.rankRel le a.2.2.1 b.2.2.1)) ∧
      (rq.sort ≠ [] → rows.Pairwise (fun a b => C06.sortCmp rq.sort a.2.2.2 b.2.2.2 ≤ 0)) := by
  obtain ⟨href, hgood, hnoerr⟩ := leaves_ok hR orc le rq.sort hok add_comm add_assoc q hwf hv
  obtain ⟨rows0, hans0, hlive, hund, hnd, hmem, hrow, _, hrank, hsorted, _, htail⟩ :=
    rank_pipeline hR.base orc le rq hok q hwf hnoerr hgood hsel off lim ho hl hoff hlim
  refine ⟨href, rows0.map fun row => (row.id, uuidAt rs.base.shard.pts row.id, row.hybrid, row.data), ?_, ?_, ?_, ?_, ?_, ?_, ?_, ?_⟩
  · rw [hans0]; simp [List.map_drop, List.map_take, List.map_map, Function.comp_def]
  · simpa [List.map_map, Function.comp_def] using hnd
  · simpa [List.map_map, Function.comp_def] using hund
  · intro n; rw [← hmem n]; simp [List.map_map, Function.comp_def]
  · intro r hr
    obtain ⟨row, hrw, rfl⟩ := List.mem_map.1 hr
    exact ⟨hlive row hrw, (hrow row hrw).1, _, abs_get_live hR.base.store.pts (hlive row hrw), (hrow row hrw).2⟩
  · intro hs; rw [List.pairwise_map]; exact htail hs
  · intro hs hc; rw [List.pairwise_map]; exact hrank hs hc
  · intro hs; rw [List.pairwise_map]; exact hsorted hs

/-! ### after any history -/

section history
variable (lower : Bytes → Bytes) (cv : Conv) (cfg : C01.Cfg) (env : Env V T D S W)
  (schema : List (List String × C02.Kind)) (bolt : Bool) (fpaths tpaths : List (List String))
  (h : List (C01.Op × ROracle T))

/-- the shard a history leaves behind -/
abbrev finalOf : RState V T := (RState.run lower cv cfg env (RState.init schema bolt fpaths tpaths : RState V T) h).1
/-- the reference map the same history produces -/
abbrev collOf : C01.Coll :=
  (C01.Coll.run cfg [] (rspecHist lower cv cfg env (RState.init schema bolt fpaths tpaths : RState V T) h)).1

/-- **Compose_flat_exact.** After any history of batches on a freshly created shard, a plain vectorFlat query
through the whole `SearchPoints` pipeline — for any enumeration order of the store — returns an exact
nearest-neighbour answer of the reference map the history produces: see `Compose_flat_state`. -/
theorem Compose_flat_exact [LinearOrder D]
    (hok : RHistOK lower cv cfg env (RState.init schema bolt fpaths tpaths : RState V T) h)
    (orc : SOracle V T S) (le : S → S → Prop) (rq : C06.Request) (hoks : orc.OK le rq.sort)
    (path : List String) (qv : V) (limit : Nat) (w : W) (f : Option C02.Query)
    (hwf : (RQuery.leaf (.flat path qv limit w f) : RQuery V T W).wf (finalOf lower cv cfg env schema bolt fpaths tpaths h) cv = true)
    (hv : ∀ q, f = some q → q.Valid) (hsel : ∀ p ∈ rq.select, p ≠ [])
    (off lim : Nat) (ho : rq.off = off) (hl : rq.lim = lim) (hoff : off < 2 ^ 63) (hlim : lim < 2 ^ 63) :
    ∃ (A : List (Uuid × D)) (rows : List (Uuid × Option S × C06.Doc)),
      IsFlatAnswer lower cv env schema (collOf lower cv cfg env schema bolt fpaths tpaths h) path qv limit f A ∧
      rsearchPoints lower cv env orc (finalOf lower cv cfg env schema bolt fpaths tpaths h) (.leaf (.flat path qv limit w f)) rq =
        .rows ((rows.drop off).take (if lim = 0 then rows.length else lim)) ∧
      (rows.map fun r => (r.1, r.2.1)).Perm (A.map fun a => (a.1, some (env.neg (env.fscale w a.2)))) ∧
      (rq.sort = [] → rows.map (fun r => (r.1, r.2.1)) = A.map fun a => (a.1, some (env.neg (env.fscale w a.2)))) ∧
      (rq.sort ≠ [] → rows.Pairwise (fun a b => C06.sortCmp rq.sort a.2.2 b.2.2 ≤ 0)) ∧
      (∀ r ∈ rows, ∃ d, C01.AL.get (collOf lower cv cfg env schema bolt fpaths tpaths h) r.1 = some d ∧
        C06.shape rq (selDoc cv d) = .ok r.2.2) := by
  obtain ⟨hR, habs, _, hsch, _, _, _, _⟩ := Compose_rank_inv_history lower cv cfg env schema bolt fpaths tpaths h hok
  have := Compose_flat_state hR orc le rq hoks path qv limit w f hwf hv hsel off lim ho hl hoff hlim
  rw [hsch, habs] at this
  exact this

/-- **Compose_text_exact.** After any history, a plain text query through the whole pipeline returns an exact
tf-idf answer of the reference map the history produces: see `Compose_text_state`. -/
theorem Compose_text_exact [LinearOrder D]
    (hok : RHistOK lower cv cfg env (RState.init schema bolt fpaths tpaths : RState V T) h)
    (orc : SOracle V T S) (le : S → S → Prop) (rq : C06.Request) (hoks : orc.OK le rq.sort)
    (add_comm : ∀ a b, env.ops.add a b = env.ops.add b a)
    (add_assoc : ∀ a b c, env.ops.add (env.ops.add a b) c = env.ops.add a (env.ops.add b c))
    (path : List String) (terms : List T) (all : Bool) (limit : Nat) (w : W) (f : Option C02.Query)
    (hwf : (RQuery.leaf (.text path terms all limit w f) : RQuery V T W).wf (finalOf lower cv cfg env schema bolt fpaths tpaths h) cv = true)
    (hv : ∀ q, f = some q → q.Valid) (hsel : ∀ p ∈ rq.select, p ≠ [])
    (off lim : Nat) (ho : rq.off = off) (hl : rq.lim = lim) (hoff : off < 2 ^ 63) (hlim : lim < 2 ^ 63) :
    ∃ (A : List (Uuid × S)) (rows : List (Uuid × Option S × C06.Doc)),
      IsTextAnswer lower cv env schema (collOf lower cv cfg env schema bolt fpaths tpaths h) path terms all limit f le A ∧
      rsearchPoints lower cv env orc (finalOf lower cv cfg env schema bolt fpaths tpaths h) (.leaf (.text path terms all limit w f)) rq =
        .rows ((rows.drop off).take (if lim = 0 then rows.length else lim)) ∧
      (rows.map fun r => (r.1, r.2.1)).Perm (A.map fun a => (a.1, some (env.ops.scale w a.2))) ∧
      (rq.sort = [] → rows.map (fun r => (r.1, r.2.1)) = A.map fun a => (a.1, some (env.ops.scale w a.2))) ∧
      (rq.sort ≠ [] → rows.Pairwise (fun a b => C06.sortCmp rq.sort a.2.2 b.2.2 ≤ 0)) ∧
      (∀ r ∈ rows, ∃ d, C01.AL.get (collOf lower cv cfg env schema bolt fpaths tpaths h) r.1 = some d ∧
        C06.shape rq (selDoc cv d) = .ok r.2.2) := by
  obtain ⟨hR, habs, _, hsch, _, _, _, _⟩ := Compose_rank_inv_history lower cv cfg env schema bolt fpaths tpaths h hok
  have := Compose_text_state hR orc le rq hoks add_comm add_assoc path terms all limit w f hwf hv hsel off lim ho hl hoff hlim
  rw [hsch, habs] at this
  exact this

/-- **Compose_hybrid.** After any history of batches on a freshly created shard, `Shard.SearchPoints` on a
query tree mixing filter, vectorFlat and text leaves is `C06_answer` instantiated with leaf answers that are
PROVED to be reference answers of the reference map the history produces: see `Compose_hybrid_state`. -/
theorem Compose_hybrid [LinearOrder D]
    (hok : RHistOK lower cv cfg env (RState.init schema bolt fpaths tpaths : RState V T) h)
    (orc : SOracle V T S) (le : S → S → Prop) (rq : C06.Request) (hoks : orc.OK le rq.sort)
    (add_comm : ∀ a b, env.ops.add a b = env.ops.add b a)
    (add_assoc : ∀ a b c, env.ops.add (env.ops.add a b) c = env.ops.add a (env.ops.add b c))
    (q : RQuery V T W) (hwf : q.wf (finalOf lower cv cfg env schema bolt fpaths tpaths h) cv = true) (hv : q.Valid)
    (hsel : ∀ p ∈ rq.select, p ≠ [])
    (off lim : Nat) (ho : rq.off = off) (hl : rq.lim = lim) (hoff : off < 2 ^ 63) (hlim : lim < 2 ^ 63) :
    q.allLeaves (LeafRef lower cv env orc (finalOf lower cv cfg env schema bolt fpaths tpaths h) le schema
      (collOf lower cv cfg env schema bolt fpaths tpaths h)) ∧
    ∃ rows : List (Nat × Uuid × Option S × C06.Doc),
      rsearchPoints lower cv env orc (finalOf lower cv cfg env schema bolt fpaths tpaths h) q rq =
        .rows (((rows.drop off).take (if lim = 0 then rows.length else lim)).map (·.2)) ∧
      (rows.map (·.1)).Nodup ∧ (rows.map (·.2.1)).Nodup ∧
      (∀ n, n ∈ rows.map (·.1) ↔
        C06.inSetB (rtree lower cv env orc (finalOf lower cv cfg env schema bolt fpaths tpaths h) q) n = true) ∧
      (∀ r ∈ rows, C01.AL.get (finalOf lower cv cfg env schema bolt fpaths tpaths h).base.shard.pts.nI r.1 = some r.2.1 ∧
        r.2.2.1 = C06.hybridSpec env.hadd (rtree lower cv env orc (finalOf lower cv cfg env schema bolt fpaths tpaths h) q) r.1 ∧
        ∃ d, C01.AL.get (collOf lower cv cfg env schema bolt fpaths tpaths h) r.2.1 = some d ∧
          C06.shape rq (selDoc cv d) = .ok r.2.2.2) ∧
      (rq.sort = [] → rows.Pairwise (fun a b => a.2.2.1 = none → b.2.2.1 = none ∧ a.1 < b.1)) ∧
      (rq.sort = [] → q.isComposite = true → rows.Pairwise (fun a b => C06.rankRel le a.2.2.1 b.2.2.1)) ∧
      (rq.sort ≠ [] → rows.Pairwise (fun a b => C06.sortCmp rq.sort a.2.2.2 b.2.2.2 ≤ 0)) := by
  obtain ⟨hR, habs, _, hsch, _, _, _, _⟩ := Compose_rank_inv_history lower cv cfg env schema bolt fpaths tpaths h hok
  have := Compose_hybrid_state hR orc le rq hoks add_comm add_assoc q hwf hv hsel off lim ho hl hoff hlim
  rw [hsch, habs] at this
  exact this

end history

/-! ### non-vacuity: a concrete history with one filter index, one flat index and one text index

Schema: integer index on `n`, vectorFlat index on `v` (2-d integer grid, squared Euclidean distance: exact,
ties frequent), text index on `t` (analyser: every non-blank byte is a token); file backend.
History: insert `u1`, `u2`, `u3` (node ids 2, 3, 4; `u3` has no text; the three analysed documents reach the
text writer in REVERSE order) · update `u2` (vector and text change) · delete `u1` · insert `u4` (no vector;
REUSES node id 2). -/

section examples

def exVecs : List C02.Val → Option (List Int)
  | [] => some []
  | .int x :: r => (exVecs r).map (x.toInt :: ·)
  | _ :: _ => none

def exDist : List Int → List Int → Nat
  | a :: q, b :: v => ((a - b) * (a - b)).toNat + exDist q v
  | _, _ => 0

def exREnv : Env (List Int) Byte Nat Int Int where
  vec := fun x => match x with | .arr l => exVecs l | _ => none
  toks := fun b => b.filter (fun c => c != 0x20#8)
  dist := exDist
  fscale := fun w d => w * d
  neg := fun s => -s
  ops := { zero := 0, add := fun a b => a + b, tf := fun f l => (f * 100 / l : Nat), idf := fun n k => (n + 1 - k : Nat),
           mul := fun a b => a * b, scale := fun w s => w * s }
  hadd := fun a b => a + b

/-- the readers of a stored value, on the value texts of the example -/
def exRConv : Conv where
  idx := fun s =>
    if s = "5" then .int 5#64 else if s = "7" then .int 7#64
    else if s = "[0,0]" then .arr [.int 0#64, .int 0#64] else if s = "[3,4]" then .arr [.int 3#64, .int 4#64]
    else if s = "[1,1]" then .arr [.int 1#64, .int 1#64] else if s = "[1,0]" then .arr [.int 1#64, .int 0#64]
    else if s = "ab" then .str [0x61#8, 0x62#8] else if s = "bc b" then .str [0x62#8, 0x63#8, 0x20#8, 0x62#8]
    else if s = "b" then .str [0x62#8] else .nil
  sel := fun s => if s = "5" then .int 64 5#64 else if s = "7" then .int 64 7#64 else .nil

def exRCfg : C01.Cfg := { maxSize := 5, size := fun d => d.length }

def exRHist : List (C01.Op × ROracle Byte) :=
  [ (.insert [("u1", some [("n", "5"), ("v", "[0,0]"), ("t", "ab")]),
              ("u2", some [("n", "7"), ("v", "[3,4]"), ("t", "bc b")]),
              ("u3", some [("n", "5"), ("v", "[1,1]")])], { arrive := List.reverse }),
    (.update [("u2", some [("v", "[1,0]"), ("t", "b")])], {}),
    (.delete ["u1"], {}),
    (.insert [("u4", some [("n", "7"), ("t", "ab")])], {}) ]

def exRInit : RState (List Int) Byte := RState.init [(["n"], .int)] true [["v"]] [["t"]]
def exRFinal : RState (List Int) Byte := (RState.run C02.exLower exRConv exRCfg exREnv exRInit exRHist).1

/-- outputs, and the point store: `u4` sits under the reused node id 2 -/
example : (RState.run C02.exLower exRConv exRCfg exREnv exRInit exRHist).2 = [.ok, .updated ["u2"], .deleted ["u1"], .ok] := by decide
example : exRFinal.base.shard.pts.pI = [("u2", 3), ("u3", 4), ("u4", 2)] := by decide
/-- the flat store: the points that HAVE the field, each with the vector its document now carries -/
example : exRFinal.flats.map (·.store) = [[(3#64, [1, 0]), (4#64, [1, 1])]] := by decide
/-- the text index: two documents; `b` occurs in the texts of node ids 3 and 2, `c` nowhere any more -/
example : exRFinal.texts.map (fun tx => (tx.ix.numDocs, C05.getSet tx.ix.sets 0x62#8, C05.getSet tx.ix.sets 0x63#8)) =
    [(2, [2, 3], [])] := by decide
/-- … after the first batch it held three vectors and two texts -/
example : (RState.run C02.exLower exRConv exRCfg exREnv exRInit (exRHist.take 1)).1.flats.map (·.store) =
    [[(2#64, [0, 0]), (3#64, [3, 4]), (4#64, [1, 1])]] := by decide

private theorem exRNoFlt {rs : RState (List Int) Byte} (h : rs.base.schema = [(["n"], .int)]) : ∀ ix ∈ rs.base.idxs, ix.kind ≠ .flt := by
  intro ix hix hk
  have : (ix.path, ix.kind) ∈ rs.base.schema := List.mem_map.2 ⟨ix, hix, rfl⟩
  rw [h, hk] at this
  simp at this

/-- the hypothesis `RHistOK` of `Compose_rank_inv_history` holds for this history (the reversed arrival order
of the first batch is fine because its node ids are distinct: `arriveOK_of_perm_nodup`) -/
theorem exRHistOK : RHistOK C02.exLower exRConv exRCfg exREnv exRInit exRHist := by
  have s0 : exRInit.base.schema = [(["n"], .int)] := (rinit_schema _ _ _ _).1
  have s1 := ((rstep_schema C02.exLower exRConv exRCfg exREnv exRInit exRHist[0].1 exRHist[0].2).1).trans s0
  have s2 := ((rstep_schema C02.exLower exRConv exRCfg exREnv _ exRHist[1].1 exRHist[1].2).1).trans s1
  have s3 := ((rstep_schema C02.exLower exRConv exRCfg exREnv _ exRHist[2].1 exRHist[2].2).1).trans s2
  refine ⟨⟨by decide, fun pc _ ix hix hk => absurd hk (exRNoFlt s0 ix hix), ?_⟩,
    ⟨by decide, fun pc _ ix hix hk => absurd hk (exRNoFlt s1 ix hix), ?_⟩,
    ⟨by decide, fun pc _ ix hix hk => absurd hk (exRNoFlt s2 ix hix), ?_⟩,
    ⟨by decide, fun pc _ ix hix hk => absurd hk (exRNoFlt s3 ix hix), ?_⟩, trivial⟩
  · intro tx htx
    refine arriveOK_of_perm_nodup _ _ (List.reverse_perm _) ?_
    have : tx = ⟨["t"], {}⟩ := by simpa [exRInit, RState.init] using htx
    subst this; decide
  all_goals (intro tx _ id; rfl)

/-- so the invariant holds in the final state (the hypothesis `hR` of the `_state` theorems) -/
theorem exRInv : RInv C02.exLower exRConv exREnv exRFinal :=
  (Compose_rank_inv_history C02.exLower exRConv exRCfg exREnv _ _ _ _ exRHist exRHistOK).1

/-- the oracles of a search: the store is enumerated BACKWARDS, every sort is an insertion sort -/
def exOrc (sortOpts : List C06.SortOpt) : SOracle (List Int) Byte Int where
  enum := List.reverse
  tord := fun _ l => l.reverse
  tsort := C06.isort fun a b => C06.cmpInt (-a.score) (-b.score)
  hsort := C06.isort fun a b => C06.cmpInt (-a.hybrid) (-b.hybrid)
  hstable := C06.isort fun a b => C06.cmpInt (-a.hybrid) (-b.hybrid)
  rowSort := C06.isort fun a b => C06.sortCmp sortOpts a.data b.data

/-- … and they satisfy `SOracle.OK` -/
theorem exOrc_ok (sortOpts : List C06.SortOpt) : (exOrc sortOpts).OK (· ≤ ·) sortOpts where
  enum_perm := fun l => List.reverse_perm l
  tord_perm := fun _ l => List.reverse_perm l
  tsort_perm := fun l => C06.isort_perm _ l
  tsort_sorted := fun l => (C06.isort_sorted (C06.tpc_of_key (fun r : C05.Res Int => -r.score)) l).imp (by
    intro a b hab
    have := (C06.cmpInt_le (-a.score) (-b.score)).mp hab
    show b.score ≤ a.score
    omega)
  hsort_perm := fun l => C06.isort_perm _ l
  hsort_sorted := fun l => (C06.isort_sorted (C06.tpc_of_key (fun r : C06.Res Int => -r.hybrid)) l).imp (by
    intro a b hab
    have := (C06.cmpInt_le (-a.hybrid) (-b.hybrid)).mp hab
    show b.hybrid ≤ a.hybrid
    omega)
  hstable_perm := fun l => C06.isort_perm _ l
  hstable_sorted := fun l => (C06.isort_sorted (C06.tpc_of_key (fun r : C06.Res Int => -r.hybrid)) l).imp (by
    intro a b hab
    have := (C06.cmpInt_le (-a.hybrid) (-b.hybrid)).mp hab
    show b.hybrid ≤ a.hybrid
    omega)
  row_perm := fun l => C06.isort_perm _ l
  row_sorted := fun l => C06.isort_sorted (c := fun (a b : C06.Row Int) => C06.sortCmp sortOpts a.data b.data)
    ⟨fun a b => (C06.tpc_sortCmp sortOpts).antisymm a.data b.data, fun a b c => (C06.tpc_sortCmp sortOpts).trans a.data b.data c.data⟩ l

def ranswer : RAnswer Int → Option (List (Uuid × Option Int))
  | .rows l => some (l.map fun r => (r.1, r.2.1))
  | _ => none

/-- `n ≥ 6` -/
def exFilter : C02.Query := .leaf (.int ["n"] .ge 6#64 0#64)

/-- a vector query for the 2 nearest to (0,0), weight 2: `u2` at squared distance 1, `u3` at 2 (`u4` has no
vector) — hybrid scores −2·1, −2·2 -/
def exFlatQ : RQuery (List Int) Byte Int := .leaf (.flat ["v"] [0, 0] 2 2 none)
example : ranswer (rsearchPoints C02.exLower exRConv exREnv (exOrc []) exRFinal exFlatQ ⟨[["*"]], [], 0, 0⟩) =
    some [("u2", some (-2)), ("u3", some (-4))] := by decide
/-- … within the pre-filter `n ≥ 6` only `u2` is a candidate -/
def exFlatFQ : RQuery (List Int) Byte Int := .leaf (.flat ["v"] [0, 0] 2 2 (some exFilter))
example : ranswer (rsearchPoints C02.exLower exRConv exREnv (exOrc []) exRFinal exFlatFQ ⟨[["*"]], [], 0, 0⟩) =
    some [("u2", some (-2))] := by decide
/-- the hypotheses of `Compose_flat_state` hold for it -/
example : exFlatFQ.wf exRFinal exRConv = true ∧ (∀ q, some exFilter = some q → q.Valid) :=
  ⟨by decide, fun q hq => by cases hq; exact (C02.Query.valid_leaf _).2 (C02.Leaf.valid_int ..)⟩
/-- … and the candidate it returns is one of the reference map: `u2`'s document carries `[1,0]` and has `n = 7` -/
example : FlatCand C02.exLower exRConv exREnv [(["n"], .int)] (C01.abs exRFinal.base.shard) ["v"] [0, 0] (some exFilter) "u2" 1 :=
  ⟨some [("n", "7"), ("v", "[1,0]"), ("t", "b")], [1, 0], by decide, by decide, by decide,
    fun q hq => by cases hq; exact ⟨rfl, 7#64, by decide, by decide⟩⟩

/-- a text query "contains any of `b`", weight 3, limit 5: `u2` (text `b`: tf 100) before `u4` (text `ab`: tf 50);
idf = 2 + 1 − 2 = 1 over the CURRENT corpus of two documents -/
def exTextQ : RQuery (List Int) Byte Int := .leaf (.text ["t"] [0x62#8] false 5 3 none)
example : ranswer (rsearchPoints C02.exLower exRConv exREnv (exOrc []) exRFinal exTextQ ⟨[["*"]], [], 0, 0⟩) =
    some [("u2", some 300), ("u4", some 150)] := by decide
/-- the same numbers read off the reference map -/
example : refN exRConv exREnv ["t"] (C01.abs exRFinal.base.shard) = 2 ∧
    refDf exRConv exREnv ["t"] (C01.abs exRFinal.base.shard) 0x62#8 = 2 ∧
    refScore exRConv exREnv ["t"] (C01.abs exRFinal.base.shard) [0x62#8] "u2" = 100 ∧
    refScore exRConv exREnv ["t"] (C01.abs exRFinal.base.shard) [0x62#8] "u4" = 50 := by decide
example : TextMatch C02.exLower exRConv exREnv [(["n"], .int)] (C01.abs exRFinal.base.shard) ["t"] [0x62#8] false none "u4" :=
  ⟨by decide, by decide, by simp only [Bool.false_eq_true, if_false]; exact ⟨0x62#8, by decide, by decide⟩, fun q hq => by cases hq⟩

/-- a hybrid query `_or [vector (weight 1), text (weight 3), n = 5]`: `u2` is ranked by both (−1 + 300), `u4` by the
text leaf only, `u3` by the vector leaf only (−2; the filter leaf matches it too and adds nothing) -/
def exHybridQ : RQuery (List Int) Byte Int :=
  .or (.cons (.leaf (.flat ["v"] [0, 0] 2 1 none))
      (.cons (.leaf (.text ["t"] [0x62#8] false 5 3 none))
      (.cons (.leaf (.filt (.int ["n"] .equals 5#64 0#64))) .nil)))
example : ranswer (rsearchPoints C02.exLower exRConv exREnv (exOrc []) exRFinal exHybridQ ⟨[["*"]], [], 0, 0⟩) =
    some [("u2", some 299), ("u4", some 150), ("u3", some (-2))] := by decide
/-- … `_and [vector, n ≥ 6]` keeps the vector hit inside the filter; `_and [text, n ≥ 6]` with a second page -/
example : ranswer (rsearchPoints C02.exLower exRConv exREnv (exOrc []) exRFinal
    (.and (.cons (.leaf (.flat ["v"] [0, 0] 2 1 none)) (.cons (.leaf (.filt (.int ["n"] .ge 6#64 0#64))) .nil)))
    ⟨[["*"]], [], 0, 0⟩) = some [("u2", some (-1))] := by decide
example : ranswer (rsearchPoints C02.exLower exRConv exREnv (exOrc []) exRFinal
    (.and (.cons (.leaf (.text ["t"] [0x62#8] false 5 3 none)) (.cons (.leaf (.filt (.int ["n"] .ge 6#64 0#64))) .nil)))
    ⟨[["*"]], [], 1, 1⟩) = some [("u4", some 150)] := by decide
/-- the hypotheses of `Compose_hybrid_state` hold for the hybrid query -/
example : exHybridQ.wf exRFinal exRConv = true ∧ exHybridQ.Valid := by
  refine ⟨by decide, ?_⟩
  simp only [exHybridQ, RQuery.Valid, RQuery.allLeaves, RQList.allLeaves, RLeaf.Valid, and_true]
  exact ⟨fun q hq => (by cases hq), fun q hq => (by cases hq), C02.Leaf.valid_int ..⟩
/-- … so the theorem applies to it -/
example : ∃ rows : List (Nat × Uuid × Option Int × C06.Doc),
    rsearchPoints C02.exLower exRConv exREnv (exOrc []) exRFinal exHybridQ ⟨[["*"]], [], 0, 0⟩ =
      .rows (((rows.drop 0).take (if (0 : Nat) = 0 then rows.length else 0)).map (·.2)) ∧ (rows.map (·.2.1)).Nodup := by
  obtain ⟨_, rows, h1, _, h2, _⟩ := Compose_hybrid_state (D := Nat) exRInv (exOrc []) (· ≤ ·) ⟨[["*"]], [], 0, 0⟩ (exOrc_ok [])
    (fun a b => Int.add_comm a b) (fun a b c => Int.add_assoc a b c) exHybridQ (by decide)
    (by simp only [exHybridQ, RQuery.Valid, RQuery.allLeaves, RQList.allLeaves, RLeaf.Valid, and_true]
        exact ⟨fun q hq => (by cases hq), fun q hq => (by cases hq), C02.Leaf.valid_int ..⟩)
    (by simp) 0 0 rfl rfl (by decide) (by decide)
  exact ⟨rows, h1, h2⟩

/-- rejected batches (`Compose_rank_rejected_noop`): a string under the vector property, a number under the text
property — each is refused with reason `index` … -/
example : ((exRFinal.step C02.exLower exRConv exRCfg exREnv (.insert [("u9", some [("v", "ab")])]) {}).2 = .rejected .index) ∧
    ((exRFinal.step C02.exLower exRConv exRCfg exREnv (.update [("u3", some [("t", "5")])]) {}).2 = .rejected .index) := by
  decide
/-- … and changes nothing -/
example : (exRFinal.step C02.exLower exRConv exRCfg exREnv (.insert [("u9", some [("v", "ab")])]) {}).1 = exRFinal :=
  (Compose_rank_rejected_noop C02.exLower exRConv exRCfg exREnv exRFinal _ _).2 .index (by decide)

end examples

end Sema.Compose
