/-
Compose / acceptance — the property theorems (definitions: AcceptModel.lean, C01/AcceptModel.lean).

  Accept_iff                        the combined model takes a batch  ⇔  `Acceptable schema (abs st) op` —
                                    the verdict the model COMPUTES (C01's duplicate / existing / size / decode
                                    checks, C02's `typesOk` and `refused` on the model's own change stream) is
                                    EQUIVALENT to a predicate on the reference map and the documents that uses none
                                    of those functions
  Accept_unacceptable_noop          a batch that is not `Acceptable` changes nothing (points, counters, index buckets)
  Accept_inv_step / _history        the document invariant `AInv` (every stored document conforms …) is kept
  Accept_refStep                    the reference step is transparent: effect iff `Acceptable`, else nothing
  Compose_refines_independent_spec  after ANY history the point store stands for `refRun … []` — the reference run
                                    whose every decision is `Acceptable`, no bit from the implementation — and
                                    all reported results agree
  Compose_filter_exact_independent  `Compose_filter_exact` with that reference map
  Compose_rejects_all_refuted       a model that rejects every batch satisfies NONE of this

Hypothesis beyond the invariant, file backend only (`BoltStep` / `BoltOK`, DESIGN 8 no. 14): no written document
holds an indexed string folding to `""`.  The boundary is exact and witnessed below: with such a string the
batch IS `Acceptable` (the documentation allows it) and the file-backed shard refuses it, model and code alike.
Only property theorems and non-vacuity / boundary examples live in this file.
-/
import SemaModel.Compose.AcceptLemmas
import SemaModel.Compose.Props
set_option linter.unusedSimpArgs false
namespace Sema.Compose
open Sema
open Sema.C01 (Uuid Data)

/-- **Accept_iff.** For every combined state whose documents satisfy `AInv` (C01's invariant; every stored
document conforms to the schema; on the file backend no stored indexed string folds to `""`), every batch and
every oracle value: the batch takes effect — the result is `ok` / `updated …` / `deleted …` — exactly when it
is `Acceptable` on the reference map the state stands for.  `BoltStep`: on the file backend the batch writes no
indexed string folding to `""` (vacuous on the memory backend). -/
theorem Accept_iff (lower : Bytes → Bytes) (cv : Conv) (cfg : C01.Cfg) {st : State} (hA : AInv lower cv st)
    (op : C01.Op) (o : C01.Oracle) (hB : BoltStep lower cv st op) :
    (st.step lower cv cfg op o).2.accepted = true ↔ Acceptable cv cfg st.schema (C01.abs st.shard) op :=
  step_accept_iff lower cv cfg hA op o hB

/-- the same, naming the results -/
theorem Accept_iff_out (lower : Bytes → Bytes) (cv : Conv) (cfg : C01.Cfg) {st : State} (hA : AInv lower cv st)
    (op : C01.Op) (o : C01.Oracle) (hB : BoltStep lower cv st op) :
    ((st.step lower cv cfg op o).2 = .ok ∨ (∃ ids, (st.step lower cv cfg op o).2 = .updated ids) ∨
      (∃ ids, (st.step lower cv cfg op o).2 = .deleted ids)) ↔ Acceptable cv cfg st.schema (C01.abs st.shard) op := by
  rw [← Accept_iff lower cv cfg hA op o hB]
  cases (st.step lower cv cfg op o).2 <;> simp [C01.Out.accepted]

/-- **Accept_unacceptable_noop.** A batch that is not `Acceptable` leaves the whole combined state — points
bucket, internal bucket, every index bucket — as it was and is reported as rejected. -/
theorem Accept_unacceptable_noop (lower : Bytes → Bytes) (cv : Conv) (cfg : C01.Cfg) {st : State} (hA : AInv lower cv st)
    (op : C01.Op) (o : C01.Oracle) (hB : BoltStep lower cv st op)
    (hn : ¬ Acceptable cv cfg st.schema (C01.abs st.shard) op) :
    (st.step lower cv cfg op o).1 = st ∧ ∃ r, (st.step lower cv cfg op o).2 = .rejected r := by
  have h : (st.step lower cv cfg op o).2.accepted = false := by
    cases ha : (st.step lower cv cfg op o).2.accepted with
    | false => rfl
    | true => exact absurd ((Accept_iff lower cv cfg hA op o hB).1 ha) hn
  constructor
  · apply step_rejected_same
    rw [accepted_eq] at h
    cases hr : isRejected (st.step lower cv cfg op o).2 with
    | true => rfl
    | false => rw [hr] at h; cases h
  · cases hx : (st.step lower cv cfg op o).2 with
    | rejected r => exact ⟨r, rfl⟩
    | ok => rw [hx] at h; cases h
    | updated ids => rw [hx] at h; cases h
    | deleted ids => rw [hx] at h; cases h

/-- **Accept_inv_step.** Every step keeps the document invariant. -/
theorem Accept_inv_step (lower : Bytes → Bytes) (cv : Conv) (cfg : C01.Cfg) {st : State} (hA : AInv lower cv st)
    (op : C01.Op) (o : C01.Oracle) (hB : BoltStep lower cv st op) : AInv lower cv (st.step lower cv cfg op o).1 :=
  step_ainv lower cv cfg hA op o hB

/-- **Accept_refStep.** The reference step in plain words: the batch takes effect iff it is `Acceptable`; then
the effect is C01's documented one; otherwise the map is unchanged. -/
theorem Accept_refStep (cv : Conv) (cfg : C01.Cfg) (schema : Schema) (c : C01.Coll) (op : C01.Op) :
    ((refStep cv cfg schema c op).2.accepted = true ↔ Acceptable cv cfg schema c op) ∧
    (Acceptable cv cfg schema c op → refStep cv cfg schema c op = C01.Coll.step cfg c op true) ∧
    (¬ Acceptable cv cfg schema c op → (refStep cv cfg schema c op).1 = c) :=
  ⟨refStep_accepted cv cfg schema c op, refStep_of_acceptable cv cfg schema c op,
   refStep_of_not_acceptable cv cfg schema c op⟩

/-- on the memory backend the side condition is empty -/
theorem BoltOK_mem (lower : Bytes → Bytes) (cv : Conv) (cfg : C01.Cfg) (schema : Schema) (ops : List C01.Op) :
    ∀ c, BoltOK lower cv cfg schema false c ops := by
  induction ops with
  | nil => intro c; trivial
  | cons op rest ih =>
    intro c
    refine ⟨?_, ih _⟩
    intro hb; cases hb

/-- **Compose_refines_independent_spec.** From the empty shard of any filter schema, after any history of
batches under any oracle values: the point store stands for EXACTLY the reference map `refRun cv cfg schema []`
produces from the same batches — a run in which whether a batch takes effect is decided by `Acceptable` on the
reference map alone —, every reported result agrees (rejection reasons included), and the document invariant
holds at the end.  No verdict of the implementation model enters the right-hand side: a model that rejected
(or accepted) a batch the specification does not would falsify the equation.  Hypothesis `BoltOK` (file backend
only, stated on the reference run): no acceptable batch writes an indexed string folding to `""`. -/
theorem Compose_refines_independent_spec (lower : Bytes → Bytes) (cv : Conv) (cfg : C01.Cfg) (schema : Schema)
    (bolt : Bool) (h : List (C01.Op × C01.Oracle))
    (hB : BoltOK lower cv cfg schema bolt [] (h.map (·.1))) :
    C01.abs (State.run lower cv cfg (State.init schema bolt) h).1.shard = (refRun cv cfg schema [] (h.map (·.1))).1 ∧
    C01.Out.equivList (State.run lower cv cfg (State.init schema bolt) h).2 (refRun cv cfg schema [] (h.map (·.1))).2 ∧
    AInv lower cv (State.run lower cv cfg (State.init schema bolt) h).1 := by
  have := run_refRun lower cv cfg h (State.init schema bolt) (init_ainv lower cv schema bolt)
    (by rw [init_schema]; exact hB)
  rw [init_schema] at this
  exact ⟨this.2.1, this.2.2, this.1⟩

/-- **Accept_inv_history**, from any state: the invariant at the end, the reference run from the state's map -/
theorem Accept_inv_history (lower : Bytes → Bytes) (cv : Conv) (cfg : C01.Cfg) (h : List (C01.Op × C01.Oracle))
    (st : State) (hA : AInv lower cv st)
    (hB : BoltOK lower cv cfg st.schema st.bolt (C01.abs st.shard) (h.map (·.1))) :
    AInv lower cv (State.run lower cv cfg st h).1 ∧
    C01.abs (State.run lower cv cfg st h).1.shard = (refRun cv cfg st.schema (C01.abs st.shard) (h.map (·.1))).1 ∧
    C01.Out.equivList (State.run lower cv cfg st h).2 (refRun cv cfg st.schema (C01.abs st.shard) (h.map (·.1))).2 :=
  run_refRun lower cv cfg h st hA hB

/-- **Compose_filter_exact_independent.** `Compose_filter_exact` against the independent reference map: after
any history, the whole `SearchPoints` pipeline on a filter query answers with the documented page of exactly
the points of `refRun cv cfg schema [] batches` whose document satisfies the tree, each row the stored document.
Hypotheses as in `Compose_filter_exact` (`HistOK`: no NaN into a float index, fewer than 2^63 node ids; query
`wf` and `Valid`; a sorting `rowSorter`; offsets below 2^63) plus `BoltOK`. -/
theorem Compose_filter_exact_independent (lower : Bytes → Bytes) (cv : Conv) (cfg : C01.Cfg) (schema : Schema)
    (bolt : Bool) (h : List (C01.Op × C01.Oracle)) (hok : HistOK lower cv cfg (State.init schema bolt) h)
    (hB : BoltOK lower cv cfg schema bolt [] (h.map (·.1)))
    (q : C02.Query) (hwf : q.wf ((State.run lower cv cfg (State.init schema bolt) h).1.view cv) = true) (hv : q.Valid)
    (rq : C06.Request) (hne : ∀ p ∈ rq.select, p ≠ [])
    (rowSorter : List (C06.Row Unit) → List (C06.Row Unit)) (hsperm : ∀ l, (rowSorter l).Perm l)
    (hssorted : ∀ l, (rowSorter l).Pairwise (fun a b => C06.sortCmp rq.sort a.data b.data ≤ 0))
    (off lim : Nat) (ho : rq.off = off) (hl : rq.lim = lim) (hoff : off < 2 ^ 63) (hlim : lim < 2 ^ 63) :
    ∃ rows : List (Nat × Uuid × C06.Doc),
      searchPoints lower cv (State.run lower cv cfg (State.init schema bolt) h).1 q rq rowSorter =
        .rows (((rows.drop off).take (if lim = 0 then rows.length else lim)).map fun r => (r.2.1, r.2.2)) ∧
      (rows.map (·.2.1)).Nodup ∧
      (∀ u, u ∈ rows.map (·.2.1) ↔ specMatches lower cv schema (refRun cv cfg schema [] (h.map (·.1))).1 q u) ∧
      (∀ r ∈ rows, ∃ d, C01.AL.get (refRun cv cfg schema [] (h.map (·.1))).1 r.2.1 = some d ∧
        C06.shape rq (selDoc cv d) = .ok r.2.2) ∧
      (rq.sort = [] → (rows.map (·.1)).Pairwise (· < ·)) ∧
      (rq.sort ≠ [] → rows.Pairwise (fun a b => C06.sortCmp rq.sort a.2.2 b.2.2 ≤ 0)) := by
  have hI := run_inv lower cv cfg h _ (init_inv lower cv schema bolt) hok
  have habs := (Compose_refines_independent_spec lower cv cfg schema bolt h hB).1
  have hsch : (State.run lower cv cfg (State.init schema bolt) h).1.schema = schema := by rw [run_schema, init_schema]
  have := Compose_filter_state hI q hwf hv rq hne rowSorter hsperm hssorted off lim ho hl hoff hlim
  rw [hsch, habs] at this
  exact this

/-! ### non-vacuity, and the boundaries of the equivalence

The schema, reader and history of Compose/Props.lean: integer index on `n`, case-insensitive string index on
the nested path `nest.s`, file backend; after the history the shard holds `u2 ↦ {n:7}`, `u3 ↦ {n:5}`. -/

section examples

example : C01.abs exFinal.shard = [("u2", some [("n", "7")]), ("u3", some [("n", "5")])] := by decide

/-- the history writes no indexed `""` -/
theorem exBoltOK : BoltOK C02.exLower exConv exCfg exSchema true [] (exHist.map (·.1)) := by
  refine ⟨fun _ => ?_, fun _ => ?_, fun _ => trivial, fun _ => ?_, trivial⟩ <;> decide

/-- … so the document invariant holds after it (`Compose_refines_independent_spec`) -/
theorem exAInv : AInv C02.exLower exConv exFinal :=
  (Compose_refines_independent_spec C02.exLower exConv exCfg exSchema true exHist exBoltOK).2.2

/-- the reference run of the example: the same map, with no bit from the implementation -/
example : (refRun exConv exCfg exSchema [] (exHist.map (·.1))).1 = [("u2", some [("n", "7")]), ("u3", some [("n", "5")])] ∧
    (refRun exConv exCfg exSchema [] (exHist.map (·.1))).2 = [.ok, .updated ["u2"], .deleted ["u1"], .ok] := by decide

/-- `Acceptable` is decidable; four acceptable batches (a nested indexed string; an unindexed extra field of
any shape; an explicit null under an indexed path counts as absent; an update whose merged document fits) … -/
example : Acceptable exConv exCfg exSchema (C01.abs exFinal.shard) (.insert [("u9", some [("n", "5"), ("nest", "{s:A}")])]) ∧
    Acceptable exConv exCfg exSchema (C01.abs exFinal.shard) (.insert [("u9", some [("x", "{s:A}")]), ("u8", none)]) ∧
    Acceptable exConv exCfg exSchema (C01.abs exFinal.shard) (.insert [("u9", some [("n", "null")])]) ∧
    Acceptable exConv exCfg exSchema (C01.abs exFinal.shard) (.update [("u2", some [("n", "-3")]), ("zz", some [("n", "{s:A}")])]) ∧
    Acceptable exConv exCfg exSchema (C01.abs exFinal.shard) (.delete ["u2", "nope"]) := by decide
/-- … which the combined model takes … -/
example : (exFinal.step C02.exLower exConv exCfg (.insert [("u9", some [("n", "5"), ("nest", "{s:A}")])]) o0).2 = .ok ∧
    (exFinal.step C02.exLower exConv exCfg (.update [("u2", some [("n", "-3")]), ("zz", some [("n", "{s:A}")])]) o0).2 = .updated ["u2"] := by
  decide
/-- … and batches that are NOT acceptable, one offence each among valid documents: an object under the
integer-indexed `n`; the path `nest.s` blocked by a scalar `nest`; a stored id; a repeated id; a merged document
of 3 > 2 fields; an update that makes the stored `n` an object (the patch alone is fine for an unknown id, see
above) — the model rejects each with the matching reason -/
example : ¬ Acceptable exConv exCfg exSchema (C01.abs exFinal.shard) (.insert [("u8", some [("n", "5")]), ("u9", some [("n", "{s:A}")])]) ∧
    ¬ Acceptable exConv exCfg exSchema (C01.abs exFinal.shard) (.insert [("u9", some [("nest", "5")])]) ∧
    ¬ Acceptable exConv exCfg exSchema (C01.abs exFinal.shard) (.insert [("u9", some []), ("u2", some [])]) ∧
    ¬ Acceptable exConv exCfg exSchema (C01.abs exFinal.shard) (.insert [("u9", some []), ("u9", some [])]) ∧
    ¬ Acceptable exConv exCfg exSchema (C01.abs exFinal.shard) (.update [("u2", some [("a", "5"), ("b", "5")])]) ∧
    ¬ Acceptable exConv exCfg exSchema (C01.abs exFinal.shard) (.update [("u2", some [("n", "{s:A}")])]) := by decide
example : (exFinal.step C02.exLower exConv exCfg (.insert [("u8", some [("n", "5")]), ("u9", some [("n", "{s:A}")])]) o0).2 = .rejected .index ∧
    (exFinal.step C02.exLower exConv exCfg (.insert [("u9", some [("nest", "5")])]) o0).2 = .rejected .index ∧
    (exFinal.step C02.exLower exConv exCfg (.insert [("u9", some []), ("u2", some [])]) o0).2 = .rejected .exists_ ∧
    (exFinal.step C02.exLower exConv exCfg (.insert [("u9", some []), ("u9", some [])]) o0).2 = .rejected .dupInBatch ∧
    (exFinal.step C02.exLower exConv exCfg (.update [("u2", some [("a", "5"), ("b", "5")])]) o0).2 = .rejected .tooLarge ∧
    (exFinal.step C02.exLower exConv exCfg (.update [("u2", some [("n", "{s:A}")])]) o0).2 = .rejected .index := by decide

/-- `Accept_iff` applied: its hypotheses hold on `exFinal` for these batches -/
example : (exFinal.step C02.exLower exConv exCfg (.insert [("u9", some [("n", "5"), ("nest", "{s:A}")])]) o0).2.accepted = true :=
  (Accept_iff C02.exLower exConv exCfg exAInv _ o0 (fun _ => by decide)).2 (by decide)

/-- **Compose_rejects_all_refuted.** No step function that rejects every batch can stand in for `State.step`
in `Accept_iff`: on the empty shard of any schema the batch "insert one empty document" is `Acceptable`. -/
theorem Compose_rejects_all_refuted (lower : Bytes → Bytes) (cv : Conv) (cfg : C01.Cfg)
    (step' : State → C01.Op → C01.Oracle → State × C01.Out)
    (hrej : ∀ st op o, (step' st op o).2.accepted = false) :
    ¬ ∀ (st : State) (op : C01.Op) (o : C01.Oracle), AInv lower cv st → BoltStep lower cv st op →
        ((step' st op o).2.accepted = true ↔ Acceptable cv cfg st.schema (C01.abs st.shard) op) := by
  intro h
  have hacc : Acceptable cv cfg (State.init [] false).schema (C01.abs (State.init [] false).shard) (.insert [("u", none)]) := by
    refine ⟨by simp, ?_, ?_⟩
    · intro e he; rfl
    · intro e he d hd; simp at he; subst he; cases hd
  have := (h (State.init [] false) (.insert [("u", none)]) {} (init_ainv lower cv [] false) (fun hb => by cases hb)).2 hacc
  rw [hrej] at this; cases this

/-! #### boundary 1 — the empty indexed string on the file backend (DESIGN 8 no. 14, a recorded finding)

`nest.s = ""` (the reader `exConv2` below knows one more value text): the batch is `Acceptable` — a string is a
string — and the FILE-backed model refuses it (`rejected index`: bbolt's "key required"), the MEMORY-backed
model takes it.  `BoltStep` is false for it: exactly the case `Accept_iff` excludes. -/

def exConv2 : Conv where
  idx := fun s => if s = "{s:}" then .map [("s", .str [])] else if s = "3.0" then .flt 0x4008000000000000#64
    else if s = "[A]" then .arr [.str [0x41#8]] else exConv.idx s
  sel := exConv.sel

example : Acceptable exConv2 exCfg exSchema [] (.insert [("u1", some [("nest", "{s:}")])]) ∧
    ((State.init exSchema true).step C02.exLower exConv2 exCfg (.insert [("u1", some [("nest", "{s:}")])]) o0).2 = .rejected .index ∧
    ((State.init exSchema false).step C02.exLower exConv2 exCfg (.insert [("u1", some [("nest", "{s:}")])]) o0).2 = .ok ∧
    ¬ BoltStep C02.exLower exConv2 (State.init exSchema true) (.insert [("u1", some [("nest", "{s:}")])]) := by
  refine ⟨by decide, by decide, by decide, ?_⟩
  intro h
  exact absurd (h rfl) (by decide)

/-! #### boundary 2 — integers and floats do not mix at the shard API

An integer-valued float under the integer index, an integer under a float index: not `Acceptable`, and the
model refuses both (the real shard too: notes/Accept.md, probe `int-float`, `flt-int`). -/

example : ¬ Acceptable exConv2 exCfg exSchema [] (.insert [("u1", some [("n", "3.0")])]) ∧
    ((State.init exSchema true).step C02.exLower exConv2 exCfg (.insert [("u1", some [("n", "3.0")])]) o0).2 = .rejected .index ∧
    ¬ Acceptable exConv2 exCfg [(["x"], .flt)] [] (.insert [("u1", some [("x", "5")])]) ∧
    ((State.init [(["x"], .flt)] true).step C02.exLower exConv2 exCfg (.insert [("u1", some [("x", "5")])]) o0).2 = .rejected .index := by
  decide

/-! #### boundary 3 — a path is a path through OBJECTS (disclosed assumption, props/C02.py)

Schema path `tags.0`, document `{tags: ["A"]}`: `jsonAt` is blocked by the array, the batch is not `Acceptable`,
the model rejects it.  The REAL shard accepts it and indexes `"A"`: msgpack's `Decoder.Query` treats a numeric
segment as an array index (and `*` as "every element", an empty segment as the end of the path).  The API layer
(`CheckCompatibleMap`) refuses the same document ("expected nested map"), so this is reachable at the shard API
only.  Model and specification agree with each other and with the documentation, not with the code, for schemas
with such segments; they are excluded by an explicit assumption that the harness tests on the real code. -/

example : ¬ Acceptable exConv2 exCfg [(["tags", "0"], .str true)] [] (.insert [("u1", some [("tags", "[A]")])]) ∧
    ((State.init [(["tags", "0"], .str true)] false).step C02.exLower exConv2 exCfg (.insert [("u1", some [("tags", "[A]")])]) o0).2 =
      .rejected .index := by decide

end examples

end Sema.Compose
