/-
Compose / ranking — the combined model of Model.lean extended with the RANKING indexes, so that
`Shard.SearchPoints` is covered for hybrid search:

  flat vector index  C04  (`C04.search` = flat.Search: bounded insertion over ANY enumeration order of the store)
  text index         C05  (`C05.Index`, `C05.applyBatch` = processAnalysedDoc … flush, `C05.searchWith` = Search)
  hybrid merge       C06  (`C06.evalTree` = indexManager.Search / searchParallel over the leaf answers)

What is new here (shard/index/dispatch.go, search.go, flat/flat.go, text/text.go):

  * `RState` = Model.lean's `State` (C01 point store + one C02 index per filter entry) + per schema entry of
    type vectorFlat the set of (node id, vector) pairs the flat index holds (`FlatIx`) + per entry of type
    text the C05 index (`TextIx`);
  * `FlatIx.apply` / `TextIx.step`: what reaches which index from the SAME change stream the filter indexes
    get (`changes` of Model.lean): `getOperation` (skip iff the property is absent before and after),
    `preProcessVamana` (vector = cast of the NEW value; nil → `Delete`, else `Set`), `preProcessText`
    (new value must be a string; absent → the empty text);
  * `rankVerdict`: the type assertions of `castDataToArray[float32]` / `change.newData.(string)` and the path
    lookup of `getPropertyFromBytes`; a failing one cancels the batch (`RState.step`: ONE write per batch);
  * `rsearchPoints`: `Shard.SearchPoints` on a query tree mixing filter leaves, vectorFlat leaves and text
    leaves, end to end.

Everything numeric is ABSTRACT (DESIGN 3.2): vectors `V`, distances `D` (any type with a decidable `<`
here, any linear order in the theorems), scores `S`, weights `W`, the analyser `toks`, the cast `vec`, the
distance `dist`, the hybrid score of a vector hit `neg (fscale w d)` (Go: `-1 * weight * dist`), C05's
`ScoreOps`, the float addition `hadd` of hybrid scores.  Quantizer = none (the store holds the vectors
themselves; C04's storage plans, cache and `Fit` are not re-composed here).  Core-only.
-/
import SemaModel.Compose.Model
import SemaModel.C04.Model
import SemaModel.C05.Model
namespace Sema.Compose
open Sema
open Sema.C01 (Uuid Data)

/-! ### readers and arithmetic -/

/-- everything the ranking indexes compute with, left abstract -/
structure Env (V T D S W : Type) where
  /-- `castDataToArray[float32]` of a property value: `none` = the cast fails (not an array, or an element
  that is not a float32) and the batch is rejected -/
  vec : C02.Val → Option V
  /-- the analyser (bleve) on the bytes of a string: its tokens, in order -/
  toks : Bytes → List T
  /-- `vecStore.DistanceFromFloat(query)(point)` -/
  dist : V → V → D
  /-- `weight * dist` -/
  fscale : W → D → S
  /-- `-1 * …` -/
  neg : S → S
  /-- tf, idf, `⊗`, `+`, `score * weight` of text.go -/
  ops : C05.ScoreOps S W
  /-- `finalResults[idx].HybridScore += r.HybridScore` -/
  hadd : S → S → S

section
variable {V T D S W : Type}

/-- the vector a document carries under `path` (`none`: no data, no such field, a nil field — or a value
the cast refuses, which no accepted batch stores) -/
def vecAt (env : Env V T D S W) (path : List String) (d : Option C02.Val) : Option V :=
  (C02.getProp d path).bind env.vec

/-- the tokens of a property value: `change.newData.(string)` through the analyser -/
def textOf (env : Env V T D S W) : C02.Val → List T
  | .str b => env.toks b
  | _ => []

/-- the tokens of the text a document carries under `path` (`[]`: absent) -/
def toksAt (env : Env V T D S W) (path : List String) (d : Option C02.Val) : List T :=
  ((C02.getProp d path).map (textOf env)).getD []

/-! ### the flat index (quantizer none): the set of (node id, vector) pairs -/

structure FlatIx (V : Type) where
  path : List String
  /-- what `vecStore.ForEach` enumerates, as an association list (the enumeration ORDER is an oracle) -/
  store : List (C04.Id × V) := []

/-- one `IndexPointChange` at the flat index: `getOperation` (skip), `preProcessVamana`, then
`vecStore.Set` / `vecStore.Delete` -/
def FlatIx.apply (env : Env V T D S W) (fx : FlatIx V) (pc : C02.PChange) : FlatIx V :=
  match C02.getProp pc.prev fx.path, C02.getProp pc.cur fx.path with
  | none, none => fx                                                        -- opSkip
  | _, some x =>
    match env.vec x with
    | some v => { fx with store := C01.AL.put fx.store pc.id v }            -- point.Vector != nil: Set
    | none => fx                                                            -- cast error (see `typesOk`)
  | some _, none => { fx with store := C01.AL.del fx.store pc.id }          -- point.Vector == nil: Delete

/-- `InsertUpdateDelete`: the queue in order (`SinkWithContext`), then `Fit` (nothing without a quantizer)
and `Flush` -/
def FlatIx.step (env : Env V T D S W) (fx : FlatIx V) (pcs : List C02.PChange) : FlatIx V :=
  pcs.foldl (FlatIx.apply env) fx

/-- would the drain of this index fail?  `getPropertyFromBytes` on both sides (a path through a non-map),
`castDataToArray[float32]` on the new value only -/
def FlatIx.typesOk (env : Env V T D S W) (fx : FlatIx V) (pcs : List C02.PChange) : Bool :=
  pcs.all fun pc => C02.docPathOk pc.prev fx.path && C02.docPathOk pc.cur fx.path &&
    (match C02.getProp pc.cur fx.path with
     | none => true
     | some x => (env.vec x).isSome)

/-! ### the text index -/

structure TextIx (T : Type) where
  path : List String
  ix : C05.Index T := {}

/-- `getOperation` + `preProcessText`: what one change sends to the text index — nothing when the property
is absent on both sides, the new text's tokens, or the empty text for a removed field / deleted point
(`doc.Text` stays `""`; the analyser yields no token on the empty text) -/
def textDoc (env : Env V T D S W) (path : List String) (pc : C02.PChange) : Option (C05.Doc T) :=
  match C02.getProp pc.prev path, C02.getProp pc.cur path with
  | none, none => none
  | _, some x => some (pc.id.toNat, textOf env x)
  | some _, none => some (pc.id.toNat, [])

variable [DecidableEq T]

/-- `InsertUpdateDelete` of the text index: the documents of the batch reach `processAnalysedDoc` in the
order `arrive` makes of them (`parallelAnalyse`: one worker per node id, outputs merged without order),
then `flush` -/
def TextIx.step (env : Env V T D S W) (arrive : List (C05.Doc T) → List (C05.Doc T)) (tx : TextIx T)
    (pcs : List C02.PChange) : TextIx T :=
  { tx with ix := C05.applyBatch tx.ix (arrive (pcs.filterMap (textDoc env tx.path))) }

/-- `getPropertyFromBytes` on both sides; `change.newData.(string)` on the new value only -/
def TextIx.typesOk (tx : TextIx T) (pcs : List C02.PChange) : Bool :=
  pcs.all fun pc => C02.docPathOk pc.prev tx.path && C02.docPathOk pc.cur tx.path &&
    (match C02.getProp pc.cur tx.path with
     | none => true
     | some (.str _) => true
     | some _ => false)

/-! ### the combined state with ranking indexes -/

structure RState (V T : Type) where
  /-- point store + filter indexes (Model.lean) -/
  base : State := {}
  /-- one per schema entry of type vectorFlat -/
  flats : List (FlatIx V) := []
  /-- one per schema entry of type text -/
  texts : List (TextIx T) := []

/-- a freshly created shard: filter schema, the paths of the vectorFlat entries, the paths of the text entries -/
def RState.init (schema : List (List String × C02.Kind)) (bolt : Bool) (fpaths tpaths : List (List String)) : RState V T :=
  { base := State.init schema bolt, flats := fpaths.map fun p => ⟨p, []⟩, texts := tpaths.map fun p => ⟨p, {}⟩ }

def RState.flatPaths (rs : RState V T) : List (List String) := rs.flats.map (·.path)
def RState.textPaths (rs : RState V T) : List (List String) := rs.texts.map (·.path)

/-- does every ranking index take the change stream without an error? -/
def rankVerdict (env : Env V T D S W) (rs : RState V T) (pcs : List C02.PChange) : Bool :=
  (rs.flats.all fun fx => fx.typesOk env pcs) && (rs.texts.all fun tx => tx.typesOk pcs)

/-- the oracle values of one batch: C01's (free-id order, delete order; its `indexOk` is not used) and the
arrival order of the analysed documents at the text index writer -/
structure ROracle (T : Type) where
  o : C01.Oracle := {}
  arrive : List (C05.Doc T) → List (C05.Doc T) := id

/-- one batch = one write transaction over the points bucket, the internal bucket and EVERY index bucket.
A ranking index that refuses the stream cancels the batch like a filter index does: the point store reports
what it reports under a negative index verdict, nothing is written. -/
def RState.step (lower : Bytes → Bytes) (cv : Conv) (cfg : C01.Cfg) (env : Env V T D S W) (rs : RState V T)
    (op : C01.Op) (ro : ROracle T) : RState V T × C01.Out :=
  let pcs := changes cfg cv rs.base.shard op ro.o
  if rankVerdict env rs pcs then
    let r := rs.base.step lower cv cfg op ro.o
    if isRejected r.2 then (rs, r.2)                                                   -- rollback
    else ({ base := r.1, flats := rs.flats.map fun fx => fx.step env pcs,
            texts := rs.texts.map fun tx => tx.step env ro.arrive pcs }, r.2)
  else (rs, (rs.base.shard.step cfg op { ro.o with indexOk := false }).2)

def RState.run (lower : Bytes → Bytes) (cv : Conv) (cfg : C01.Cfg) (env : Env V T D S W) :
    RState V T → List (C01.Op × ROracle T) → RState V T × List C01.Out
  | rs, [] => (rs, [])
  | rs, (op, ro) :: rest =>
    let r := rs.step lower cv cfg env op ro
    let rr := RState.run lower cv cfg env r.1 rest
    (rr.1, r.2 :: rr.2)

/-- the verdict of ALL indexes on a batch (what the reference map is told) -/
def fullVerdict (lower : Bytes → Bytes) (cv : Conv) (cfg : C01.Cfg) (env : Env V T D S W) (rs : RState V T)
    (op : C01.Op) (o : C01.Oracle) : Bool :=
  indexVerdict lower rs.base (changes cfg cv rs.base.shard op o) && rankVerdict env rs (changes cfg cv rs.base.shard op o)

/-! ### queries -/

/-- a leaf of a query tree: a filter leaf (C02), a `vectorFlat` query, a `text` query.  The pre-filter of a
ranking query is a filter tree (in Go any query may stand there; only its id set is used). `terms` are the
analysed tokens of `options.Value`. -/
inductive RLeaf (V T W : Type)
  | filt (l : C02.Leaf)
  | flat (path : List String) (qv : V) (limit : Nat) (w : W) (filter : Option C02.Query)
  | text (path : List String) (terms : List T) (all : Bool) (limit : Nat) (w : W) (filter : Option C02.Query)

mutual
inductive RQuery (V T W : Type)
  | leaf (l : RLeaf V T W)
  | and (qs : RQList V T W)
  | or (qs : RQList V T W)
inductive RQList (V T W : Type)
  | nil
  | cons (q : RQuery V T W) (qs : RQList V T W)
end

def RState.flat (rs : RState V T) (path : List String) : Option (FlatIx V) := rs.flats.find? fun fx => fx.path == path
def RState.text (rs : RState V T) (path : List String) : Option (TextIx T) := rs.texts.find? fun tx => tx.path == path

def filterWf (v : C02.St) : Option C02.Query → Bool
  | none => true
  | some f => f.wf v

/-- the leaf is one the shard answers: the property is in the schema with the matching type, the
pre-filter is well formed, a vector query asks for at least one result (`Validate`: 1..75; with 0 the Go
code would index `res[-1]`) -/
def RLeaf.wf (rs : RState V T) (cv : Conv) : RLeaf V T W → Bool
  | .filt l => l.wf (rs.base.view cv)
  | .flat path _ limit _ f => (rs.flat path).isSome && decide (0 < limit) && filterWf (rs.base.view cv) f
  | .text path _ _ _ _ f => (rs.text path).isSome && filterWf (rs.base.view cv) f

mutual
def RQuery.wf (rs : RState V T) (cv : Conv) : RQuery V T W → Bool
  | .leaf l => l.wf rs cv
  | .and qs => !(qs matches .nil) && RQList.wf rs cv qs
  | .or qs => !(qs matches .nil) && RQList.wf rs cv qs
def RQList.wf (rs : RState V T) (cv : Conv) : RQList V T W → Bool
  | .nil => true
  | .cons q qs => q.wf rs cv && qs.wf rs cv
end

/-- a composite query (`_and` / `_or`) at the root -/
def RQuery.isComposite : RQuery V T W → Bool
  | .leaf _ => false
  | _ => true

/-- the run-time choices of one search that the code leaves open -/
structure SOracle (V T S : Type) where
  /-- the order in which `vecStore.ForEach` visits the items (Go map order, cache / bucket) -/
  enum : List (C04.Id × V) → List (C04.Id × V) := id
  /-- the order in which the query term set is traversed for a document (Go map order) -/
  tord : Nat → List T → List T := fun _ l => l
  /-- `slices.SortFunc` by score in text.go -/
  tsort : List (C05.Res S) → List (C05.Res S)
  /-- `slices.SortFunc` / `slices.SortStableFunc` by hybrid score in searchParallel -/
  hsort : List (C06.Res S) → List (C06.Res S)
  hstable : List (C06.Res S) → List (C06.Res S)
  /-- `utils.SortSearchResults` -/
  rowSort : List (C06.Row S) → List (C06.Row S)

/-- `filter == nil || filter.Contains(id)` -/
def passOf (lower : Bytes → Bytes) (v : C02.St) : Option C02.Query → C02.Id → Bool
  | none => fun _ => true
  | some f => fun i => (C02.eval lower v f).contains i

/-- the pre-filter bitmap as the text index receives it -/
def preFilter (lower : Bytes → Bytes) (v : C02.St) (f : Option C02.Query) : Option (List Nat) :=
  f.map fun q => (C02.eval lower v q).map (·.toNat)

variable [LT D] [DecidableLT D]

/-- `flat.Search` on the store of `fx` -/
def flatSearch (lower : Bytes → Bytes) (cv : Conv) (env : Env V T D S W) (orc : SOracle V T S) (rs : RState V T)
    (fx : FlatIx V) (qv : V) (limit : Nat) (f : Option C02.Query) : List (C04.Res D) :=
  C04.search .ge limit (passOf lower (rs.base.view cv) f) (env.dist qv) (orc.enum fx.store)

/-- `indexText.Search` on the index of `tx`; `none` = "error getting doc cache item" -/
def textSearch (lower : Bytes → Bytes) (cv : Conv) (env : Env V T D S W) (orc : SOracle V T S) (rs : RState V T)
    (tx : TextIx T) (terms : List T) (all : Bool) (limit : Nat) (w : W) (f : Option C02.Query) :
    Option (List Nat × List (C05.Res S)) :=
  C05.searchWith (fun id r => C05.scoreDoc env.ops tx.ix (orc.tord id (C05.dedup terms)) r) env.ops.scale orc.tsort tx.ix
    ⟨terms, all, preFilter lower (rs.base.view cv) f, limit⟩ w

/-- the leaf cases of `indexManager.Search`: id set and ranked results of one leaf (a leaf the shard does
not answer — see `wf`, `noErr` — is the empty result here) -/
def evalRLeaf (lower : Bytes → Bytes) (cv : Conv) (env : Env V T D S W) (orc : SOracle V T S) (rs : RState V T) :
    RLeaf V T W → C06.SubResult S
  | .filt l => ⟨(C02.evalLeaf lower (rs.base.view cv) l).map (·.toNat), []⟩
  | .flat path qv limit w f =>
    match rs.flat path with
    | none => ⟨[], []⟩
    | some fx =>
      let res := flatSearch lower cv env orc rs fx qv limit f
      -- `rSet.Add(r.NodeId)`; `HybridScore: -1 * weight * dist`
      ⟨res.map (·.id.toNat), res.map fun r => ⟨r.id.toNat, env.neg (env.fscale w r.d)⟩⟩
  | .text path terms all limit w f =>
    match rs.text path with
    | none => ⟨[], []⟩
    | some tx =>
      match textSearch lower cv env orc rs tx terms all limit w f with
      | none => ⟨[], []⟩
      | some (set, res) => ⟨set, res.map fun r => ⟨r.id, r.hybrid⟩⟩

/-- does the index search of this leaf return without an internal error? -/
def RLeaf.noErr (lower : Bytes → Bytes) (cv : Conv) (env : Env V T D S W) (orc : SOracle V T S) (rs : RState V T) :
    RLeaf V T W → Bool
  | .text path terms all limit w f =>
    match rs.text path with
    | none => true
    | some tx => (textSearch lower cv env orc rs tx terms all limit w f).isSome
  | _ => true

mutual
def RQuery.noErr (lower : Bytes → Bytes) (cv : Conv) (env : Env V T D S W) (orc : SOracle V T S) (rs : RState V T) :
    RQuery V T W → Bool
  | .leaf l => l.noErr lower cv env orc rs
  | .and qs => RQList.noErr lower cv env orc rs qs
  | .or qs => RQList.noErr lower cv env orc rs qs
def RQList.noErr (lower : Bytes → Bytes) (cv : Conv) (env : Env V T D S W) (orc : SOracle V T S) (rs : RState V T) :
    RQList V T W → Bool
  | .nil => true
  | .cons q qs => q.noErr lower cv env orc rs && qs.noErr lower cv env orc rs
end

mutual
/-- a query tree as `searchParallel` sees it: every leaf is the answer of its index -/
def rtree (lower : Bytes → Bytes) (cv : Conv) (env : Env V T D S W) (orc : SOracle V T S) (rs : RState V T) :
    RQuery V T W → C06.QTree S
  | .leaf l => .leaf (evalRLeaf lower cv env orc rs l)
  | .and qs => .node false (rforest lower cv env orc rs qs)
  | .or qs => .node true (rforest lower cv env orc rs qs)
def rforest (lower : Bytes → Bytes) (cv : Conv) (env : Env V T D S W) (orc : SOracle V T S) (rs : RState V T) :
    RQList V T W → C06.QForest S
  | .nil => .nil
  | .cons q qs => .cons (rtree lower cv env orc rs q) (rforest lower cv env orc rs qs)
end

inductive RAnswer (S : Type)
  /-- uuid, hybrid score when ranked, returned data -/
  | rows (l : List (Uuid × Option S × C06.Doc))
  | badQuery
  /-- an index search failed internally -/
  | indexError
  | danglingNode
  | selectError
  | slicePanic

/-- `indexManager.Search` on the whole tree -/
def rsearchIndex (lower : Bytes → Bytes) (cv : Conv) (env : Env V T D S W) (orc : SOracle V T S) (rs : RState V T)
    (q : RQuery V T W) : C06.SubResult S :=
  C06.evalTree env.hadd orc.hsort orc.hstable (rtree lower cv env orc rs q)

/-- `Shard.SearchPoints`: search; back-fill uuid and data of the ranked results in their order, then of the
remaining node ids of the bitmap ascending; select; sort; offset / limit -/
def rsearchPoints (lower : Bytes → Bytes) (cv : Conv) (env : Env V T D S W) (orc : SOracle V T S) (rs : RState V T)
    (q : RQuery V T W) (rq : C06.Request) : RAnswer S :=
  if !q.wf rs cv then .badQuery
  else if !q.noErr lower cv env orc rs then .indexError
  else
    let r := rsearchIndex lower cv env orc rs q
    match C01.getAll rs.base.shard.pts ((C06.backfill r).map (·.id)) with
    | .error _ => .danglingNode
    | .ok _ =>
      match C06.searchPoints (selAt cv rs.base) orc.rowSort true r rq with
      | .rows p => .rows (p.filterMap fun row => (C01.AL.get rs.base.shard.pts.nI row.id).map fun u => (u, row.hybrid, row.data))
      | .selectError => .selectError
      | .slicePanic => .slicePanic

end

/-! ### SPEC: what a ranking leaf means on the reference map (uuid ↦ document)

No node ids, no index: the candidates of a vector query are the documents that carry the field and satisfy
the pre-filter; the match set, the statistics and the score of a text query are read off the documents of
the CURRENT reference map. -/

section spec
variable {V T D S W : Type}

/-- `u` is a candidate of the vector query, at distance `d`: its document carries a vector under `path`
and satisfies the pre-filter -/
def FlatCand (lower : Bytes → Bytes) (cv : Conv) (env : Env V T D S W) (schema : List (List String × C02.Kind))
    (coll : C01.Coll) (path : List String) (qv : V) (f : Option C02.Query) (u : Uuid) (d : D) : Prop :=
  ∃ doc v, C01.AL.get coll u = some doc ∧ vecAt env path (idxData cv doc) = some v ∧ d = env.dist qv v ∧
    ∀ q, f = some q → docSat lower schema q u (idxData cv doc)

/-- the tokens of the text of `u`'s document (`[]`: no such point, no such field) -/
def refToks (cv : Conv) (env : Env V T D S W) (path : List String) (coll : C01.Coll) (u : Uuid) : List T :=
  match C01.AL.get coll u with
  | some doc => toksAt env path (idxData cv doc)
  | none => []

variable [DecidableEq T]

/-- corpus size: the documents whose text has at least one token -/
def refN (cv : Conv) (env : Env V T D S W) (path : List String) (coll : C01.Coll) : Nat :=
  (coll.filter fun e => !(toksAt env path (idxData cv e.2)).isEmpty).length

/-- document frequency of a term -/
def refDf (cv : Conv) (env : Env V T D S W) (path : List String) (coll : C01.Coll) (t : T) : Nat :=
  (coll.filter fun e => decide (t ∈ toksAt env path (idxData cv e.2))).length

/-- Σ over the query term set of tf(t, u) ⊗ idf(N, df t), all read off the current reference map -/
def refScore (cv : Conv) (env : Env V T D S W) (path : List String) (coll : C01.Coll) (ts : List T) (u : Uuid) : S :=
  ts.foldl (fun acc t => env.ops.add acc (env.ops.mul
    (env.ops.tf ((refToks cv env path coll u).count t) (refToks cv env path coll u).length)
    (env.ops.idf (refN cv env path coll) (refDf cv env path coll t)))) env.ops.zero

/-- the documented match condition of a text query on the reference map (a query without terms matches
nothing: DESIGN, C05) -/
def TextMatch (lower : Bytes → Bytes) (cv : Conv) (env : Env V T D S W) (schema : List (List String × C02.Kind))
    (coll : C01.Coll) (path : List String) (terms : List T) (all : Bool) (f : Option C02.Query) (u : Uuid) : Prop :=
  terms ≠ [] ∧ refToks cv env path coll u ≠ [] ∧
  (if all then ∀ t ∈ terms, t ∈ refToks cv env path coll u else ∃ t ∈ terms, t ∈ refToks cv env path coll u) ∧
  ∀ q, f = some q → ∃ doc, C01.AL.get coll u = some doc ∧ docSat lower schema q u (idxData cv doc)

/-- the corpus C05 speaks about, read off the reference map: per live point (`pI`: uuid ↦ node id) whose text
has tokens, its node id and those tokens -/
def refCorpus (cv : Conv) (env : Env V T D S W) (path : List String) (pI : List (Uuid × Nat)) (coll : C01.Coll) :
    C05.Corpus T :=
  pI.filterMap fun e =>
    let t := refToks cv env path coll e.1
    if t.isEmpty then none else some (e.2, t)

end spec

end Sema.Compose
