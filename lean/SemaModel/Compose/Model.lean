/-
Compose — ONE executable model of a shard with filter indexes, put together from the per-property models:

  point store      C01  (`C01.Shard`: points bucket n<id>i / n<id>d / p<uuid>i, id counter, point count;
                         `C01.Shard.step` = Shard.InsertPoints / UpdatePoints / DeletePoints)
  inverted indexes C02  (`C02.Index`: one bucket per schema entry, string / stringArray / integer / float,
                         nested property paths; `C02.Index.step` = dispatch.go getDrainFn + inverted.go)
  query pipeline   C02  (`C02.eval`: indexManager.Search on `_and` / `_or` / leaves / `_id`)
                 + C06  (`C06.evalTree` = searchParallel, `C06.searchPoints` = back-fill order, select,
                         sort, offset / limit)
                 + C01  (`C01.getAll` = GetPointByNodeId of every returned node id)

What is new here (shard/shard.go + shard/index/dispatch.go, utils.go):

  * `insertChanges` / `updateChanges` / `deleteChanges`: the stream of `IndexPointChange`s the transform
    function of each entry point emits, one per point, in order (node id, previous data, new data) — the
    same recursion as C01's `insertLoop` / `updateLoop` / `deleteLoop`, which it accompanies;
  * `indexVerdict`: whether every index accepts that stream (`getOperation`'s path lookup, the type
    assertions of `preProcessInverted` / `castDataToArray`, bbolt's refusal of the empty key).  In C01
    this verdict is an oracle bit; here it is computed from the indexes;
  * `State.step`: ONE write transaction per batch — C01's step under the computed verdict, and, iff the
    batch is not rejected, C02's `Index.step` of every index on the change stream.  A rejected batch
    changes nothing (bbolt's all-or-nothing write transaction is assumed, DESIGN.md 3.4);
  * `searchPoints`: `Shard.SearchPoints` for filter queries, end to end.

A stored document is C01's `Doc` (top-level keys ↦ opaque value text).  The two readers of a stored
document are parameters (`Conv`): what `Decoder.Query` + the type assertions of dispatch.go see of a
value (`idx`, a C02 value), and what msgpack decodes it to for select / sort (`sel`, a C06 value).
Theorems hold for every `Conv`; the driver supplies a concrete one.  Core-only.
-/
import SemaModel.C01.Model
import SemaModel.C02.Model
import SemaModel.C06.Model
namespace Sema.Compose
open Sema

/-! ### documents -/

/-- how the text of a stored top-level value is read -/
structure Conv where
  /-- by `Decoder.Query` in `getPropertyFromBytes` (dispatch.go): nested maps, strings, int64, float64, arrays -/
  idx : C01.Val → C02.Val
  /-- by msgpack into `any` for select / sort (shard.go, utils/compare.go) -/
  sel : C01.Val → C06.Val

/-- a stored document as the index dispatch reads it -/
def idxDoc (cv : Conv) (d : C01.Doc) : C02.Val := .map (d.map fun e => (e.1, cv.idx e.2))

/-- `Point.Data` as the index dispatch reads it: zero-length data has no property (`len(data) == 0 → nil`) -/
def idxData (cv : Conv) (d : C01.Data) : Option C02.Val := d.map (idxDoc cv)

/-- `Point.Data` as select / sort read it: zero-length data is skipped (`DecodedData` stays `{}`) -/
def selDoc (cv : Conv) : C01.Data → C06.Doc
  | none => []
  | some d => d.map fun e => (e.1, cv.sel e.2)

/-- a node id as the indexes store it (`uint64`) -/
def nid (n : Nat) : C02.Id := BitVec.ofNat 64 n

/-! ### the change stream of a batch (shard.go: the three transform functions) -/

/-- InsertPoints: `ipc.NodeId = sp.NodeId; ipc.NewData = point.Data` for every point, until the first
point that already exists (the error stops the pipeline) -/
def insertChanges (cv : Conv) (p : C01.Points) (c : C01.Ctr) : List (C01.Uuid × C01.Data) → List C02.PChange
  | [] => []
  | (u, d) :: rest =>
    if (C01.AL.get p.pI u).isSome then []
    else
      let r := c.nextId
      ⟨nid r.1, none, idxData cv d⟩ :: insertChanges cv (C01.setPoint p u r.1 d) r.2 rest

/-- UpdatePoints: unknown ids are skipped; `ipc.PreviousData = sp.Data; ipc.NewData = finalNewData` -/
def updateChanges (cfg : C01.Cfg) (cv : Conv) (p : C01.Points) : List (C01.Uuid × C01.Data) → List C02.PChange
  | [] => []
  | (u, inc) :: rest =>
    match C01.AL.get p.pI u with
    | none => updateChanges cfg cv p rest
    | some id =>
      match C01.AL.get p.nD id with
      | none => []
      | some old =>
        match inc with
        | none => []
        | some i =>
          let m := C01.merge old i
          if cfg.size m > cfg.maxSize then []
          else ⟨nid id, some (idxDoc cv old), some (idxDoc cv m)⟩ ::
            updateChanges cfg cv (C01.setPoint p u id (some m)) rest

/-- DeletePoints: unknown ids are skipped; `ipc.PreviousData = sp.Data`, no new data -/
def deleteChanges (cv : Conv) (p : C01.Points) : List C01.Uuid → List C02.PChange
  | [] => []
  | u :: rest =>
    match C01.AL.get p.pI u with
    | none => deleteChanges cv p rest
    | some id => ⟨nid id, idxData cv (C01.AL.get p.nD id), none⟩ :: deleteChanges cv (C01.deletePoint p u id) rest

/-- the `IndexPointChange`s handed to `indexManager.Dispatch` by one batch -/
def changes (cfg : C01.Cfg) (cv : Conv) (s : C01.Shard) (op : C01.Op) (o : C01.Oracle) : List C02.PChange :=
  match op with
  | .insert b => insertChanges cv s.pts (C01.newIdCounter s o) b
  | .update b => updateChanges cfg cv s.pts b
  | .delete ids => deleteChanges cv s.pts (C01.reorder (C01.dedup ids) o.iterOrder)

/-! ### the combined state -/

structure State where
  /-- points bucket + internal bucket -/
  shard : C01.Shard := {}
  /-- one bucket `index/<type>/<property>` per schema entry -/
  idxs : List C02.Index := []
  /-- file-backed (bbolt) flavour: `Put` refuses the empty key -/
  bolt : Bool := false

/-- a freshly created shard of a collection with this index schema -/
def State.init (schema : List (List String × C02.Kind)) (bolt : Bool) : State :=
  { shard := C01.Shard.empty, idxs := schema.map fun s => ⟨s.1, s.2, KV.empty⟩, bolt := bolt }

/-- the index schema (property path and type per index) -/
def State.schema (st : State) : List (List String × C02.Kind) := st.idxs.map fun ix => (ix.path, ix.kind)

/-- does every index take the change stream without an error? -/
def indexVerdict (lower : Bytes → Bytes) (st : State) (pcs : List C02.PChange) : Bool :=
  st.idxs.all fun ix => ix.typesOk pcs && !(st.bolt && ix.refused lower pcs)

def isRejected : C01.Out → Bool
  | .rejected _ => true
  | _ => false

/-- one batch = one write transaction over the points bucket, the internal bucket and every index bucket.
The oracle's own `indexOk` is not used: the verdict is the indexes'. -/
def State.step (lower : Bytes → Bytes) (cv : Conv) (cfg : C01.Cfg) (st : State) (op : C01.Op) (o : C01.Oracle) :
    State × C01.Out :=
  let pcs := changes cfg cv st.shard op o
  let r := st.shard.step cfg op { o with indexOk := indexVerdict lower st pcs }
  if isRejected r.2 then (st, r.2)                                                    -- rollback
  else ({ st with shard := r.1, idxs := st.idxs.map fun ix => ix.step lower pcs }, r.2)

def State.run (lower : Bytes → Bytes) (cv : Conv) (cfg : C01.Cfg) : State → List (C01.Op × C01.Oracle) → State × List C01.Out
  | st, [] => (st, [])
  | st, (op, o) :: rest =>
    let r := st.step lower cv cfg op o
    let rr := State.run lower cv cfg r.1 rest
    (rr.1, r.2 :: rr.2)

/-! ### queries -/

/-- the point store as `indexManager.Search` sees it: `searchById` reads `p<uuid>i`; the document of a
point is its `n<id>d` entry (no entry: no property) -/
def viewPts (cv : Conv) (p : C01.Points) : List C02.Point :=
  p.pI.map fun e => ⟨nid e.2, e.1, ((C01.AL.get p.nD e.2).map (idxDoc cv)).getD .nil⟩

def State.view (cv : Conv) (st : State) : C02.St :=
  { pts := viewPts cv st.shard.pts, idxs := st.idxs, bolt := st.bolt }

mutual
/-- a filter query tree as `searchParallel` sees it: every leaf is the answer of its index — a bitmap and
no ranked results -/
def qtree (lower : Bytes → Bytes) (v : C02.St) : C02.Query → C06.QTree Unit
  | .leaf l => .leaf ⟨(C02.evalLeaf lower v l).map (·.toNat), []⟩
  | .and qs => .node false (qforest lower v qs)
  | .or qs => .node true (qforest lower v qs)
def qforest (lower : Bytes → Bytes) (v : C02.St) : C02.QList → C06.QForest Unit
  | .nil => .nil
  | .cons q qs => .cons (qtree lower v q) (qforest lower v qs)
end

inductive Answer
  | rows (l : List (C01.Uuid × C06.Doc))
  /-- `indexManager.Search` fails: property not in the schema, wrong option type, empty list … -/
  | badQuery
  /-- "could not get point by node id" -/
  | danglingNode
  | selectError
  | slicePanic

/-- `indexManager.Search` on a filter query: id set, and (never any) ranked results.  Filter leaves rank
nothing, so both sorts of `searchParallel` act on the empty list. -/
def searchIndex (lower : Bytes → Bytes) (cv : Conv) (st : State) (q : C02.Query) : C06.SubResult Unit :=
  C06.evalTree (fun _ _ => ()) id id (qtree lower (st.view cv) q)

/-- the data select / sort work on: `sp.Point.Data` of `GetPointByNodeId` -/
def selAt (cv : Conv) (st : State) (id : Nat) : C06.Doc := selDoc cv (C01.AL.get st.shard.pts.nD id)

/-- `Shard.SearchPoints` for a filter query: search; back-fill uuid and data of every node id of the
bitmap in ascending order (a node id without a point fails the request); select; sort; offset / limit -/
def searchPoints (lower : Bytes → Bytes) (cv : Conv) (st : State) (q : C02.Query) (rq : C06.Request)
    (rowSorter : List (C06.Row Unit) → List (C06.Row Unit)) : Answer :=
  if !q.wf (st.view cv) then .badQuery
  else
    let r := searchIndex lower cv st q
    match C01.getAll st.shard.pts ((C06.backfill r).map (·.id)) with
    | .error _ => .danglingNode
    | .ok _ =>
      match C06.searchPoints (selAt cv st) rowSorter true r rq with
      | .rows p => .rows (p.filterMap fun row => (C01.AL.get st.shard.pts.nI row.id).map fun u => (u, row.data))
      | .selectError => .selectError
      | .slicePanic => .slicePanic

/-! ### SPEC: a plain map uuid ↦ document, and what a filter query means on a document

The reference state is C01's `Coll` (with its `insert / update / delete`).  A query is evaluated
directly on one document: C02's value readers (`strVals`, `arrVals`, `intVals`, `fltVals`) and operator
specification (`satOp`), no node ids, no index. -/

def kindAt (schema : List (List String × C02.Kind)) (path : List String) : Option C02.Kind :=
  (schema.find? fun s => s.1 == path).map (·.2)

/-- the point `u` with (index view of its) data `d` satisfies the leaf -/
def leafSat (lower : Bytes → Bytes) (schema : List (List String × C02.Kind)) (l : C02.Leaf) (u : C01.Uuid)
    (d : Option C02.Val) : Prop :=
  match l with
  | .str path op v e =>
    ∃ cs, kindAt schema path = some (.str cs) ∧
      ∃ a ∈ C02.strVals lower cs path d, C02.satOp C02.strOps op a (C02.fold lower cs v) (C02.fold lower cs e) = true
  | .strArr path all vs =>
    ∃ cs, kindAt schema path = some (.strArr cs) ∧
      if all then ∀ q ∈ vs, C02.fold lower cs q ∈ C02.arrVals lower cs path d
      else ∃ q ∈ vs, C02.fold lower cs q ∈ C02.arrVals lower cs path d
  | .int path op v e =>
    kindAt schema path = some .int ∧ ∃ a ∈ C02.intVals path d, C02.satOp C02.intOps op a v e = true
  | .flt path op v e =>
    kindAt schema path = some .flt ∧ ∃ a ∈ C02.fltVals path d, C02.satOp C02.fltOps op a v e = true
  | .idEq u' => u' = u
  | .idAny us => u ∈ us

mutual
def docSat (lower : Bytes → Bytes) (schema : List (List String × C02.Kind)) : C02.Query → C01.Uuid → Option C02.Val → Prop
  | .leaf l, u, d => leafSat lower schema l u d
  | .and qs, u, d => docSatAll lower schema qs u d
  | .or qs, u, d => docSatAny lower schema qs u d
def docSatAll (lower : Bytes → Bytes) (schema : List (List String × C02.Kind)) : C02.QList → C01.Uuid → Option C02.Val → Prop
  | .nil, _, _ => True
  | .cons q qs, u, d => docSat lower schema q u d ∧ docSatAll lower schema qs u d
def docSatAny (lower : Bytes → Bytes) (schema : List (List String × C02.Kind)) : C02.QList → C01.Uuid → Option C02.Val → Prop
  | .nil, _, _ => False
  | .cons q qs, u, d => docSat lower schema q u d ∨ docSatAny lower schema qs u d
end

/-- the points of the reference map that satisfy the query -/
def specMatches (lower : Bytes → Bytes) (cv : Conv) (schema : List (List String × C02.Kind)) (c : C01.Coll)
    (q : C02.Query) (u : C01.Uuid) : Prop :=
  ∃ d, C01.AL.get c u = some d ∧ docSat lower schema q u (idxData cv d)

end Sema.Compose
