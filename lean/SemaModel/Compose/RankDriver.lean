/- line protocol of the combined model WITH RANKING INDEXES (`semadriver C02 rank`): histories on a shard
with an integer filter index, a vectorFlat index and a text index, answered by `Compose.RState`
(RankModel.lean) — C01's point store allocating the node ids, C02's index, the flat store and C05's text
index all driven by the change stream of each batch, every query through the whole `rsearchPoints`
pipeline (C04 flat search / C05 text search / C02 filter leaves → C06 searchParallel → back-fill → page).

  rschema bolt|mem <npath> <vpath> <tpath>      → ok        integer index, vectorFlat index, text index
  tok <hex text> <k> {<hex token>}              → ok        the real analyser's tokens of a text (C05's way)
  idf <N> <df> <hex8>                           → ok        float32(math.Log10(float64(N)/float64(df+1))), from Go
  insert <n> {<uuid> <nodeid hex16> <val>}      → ok | rejected | ok!nodeids        (as in Compose/Driver.lean)
  update <n> {<uuid> <val>}                     → ok | rejected
  delete <n> {<uuid>}                           → ok | rejected
  fdump                                         → <uuid>=<x>,<y>;…   the flat store, by uuid | -
  tdump                                         → <numDocs>;<hex term>=<uuids>;…   postings, by term
  searchr <tree>                                → <groups> u=<uuids> | error
     <tree> ::= and <n> {<tree>} | or <n> {<tree>}
              | flat <path> <x> <y> <limit> <w hex8> (nofilter | filter <C02 query>)
              | text <path> <hex query text> all|any <limit> <w hex8> (nofilter | filter <C02 query>)
              | <C02 leaf>                       int / str / ideq / idany … (Compose/Driver.lean)
     answer: the ranked rows in answer order, adjacent rows of equal hybrid score (−0 = +0) as one group
     `h<hex8>{uuid,…}` with the uuids sorted (ties come in any order: Go map order, unstable sorts); for a
     PLAIN ranking query that returns `limit` rows the last group is `h<hex8>#<size>` (a tie cut by the limit
     may keep different members); then ` u=` and the filter-only rows in answer order (ascending node id).

Instances of the abstract parameters: a vector is its list of integer grid coordinates (the real document
holds them as float32), distance = squared Euclidean distance as an exact natural number, scores / weights /
hybrid scores are float32 bit patterns combined with IEEE float32 `+ * / −` (`Float32`, as C06's driver
does), ordered by `F32.key`; `idf` is the table the harness computed with Go's `math.Log10`; the analyser is
the `tok` table.  Core-only. -/
import SemaModel.Base.DriverUtil
import SemaModel.Base.Float
import SemaModel.Compose.Driver
import SemaModel.Compose.RankModel
namespace Sema.Compose.RDrv
open Sema Sema.Compose.Drv

abbrev Vec := List Int
abbrev Tok := Bytes

def f32 (n : Nat) : Float32 := Float32.ofBits n.toUInt32
def fbits (x : Float32) : Nat := x.toBits.toNat
def fadd (a b : Nat) : Nat := fbits (f32 a + f32 b)
def fmul (a b : Nat) : Nat := fbits (f32 a * f32 b)
def fdiv (a b : Nat) : Nat := fbits (f32 a / f32 b)
def fneg (a : Nat) : Nat := fbits (-(f32 a))
def fofNat (n : Nat) : Nat := fbits (Float32.ofNat n)
def fkey (a : Nat) : Int := F32.key (BitVec.ofNat 32 a)

structure DSt where
  rs : RState Vec Tok := {}
  toks : List (Bytes × List Bytes) := []
  idfs : List ((Nat × Nat) × Nat) := []

def vecOf : List C02.Val → Option Vec
  | [] => some []
  | .int x :: r => (vecOf r).map (x.toInt :: ·)
  | _ :: _ => none

def sqDist : Vec → Vec → Nat
  | a :: q, b :: v => ((a - b) * (a - b)).toNat + sqDist q v
  | _, _ => 0

def DSt.tokens (d : DSt) (b : Bytes) : List Tok := ((d.toks.find? fun e => e.1 == b).map (·.2)).getD []

def DSt.env (d : DSt) : Env Vec Tok Nat Nat Nat where
  vec := fun x => match x with | .arr l => vecOf l | _ => none
  toks := d.tokens
  dist := sqDist
  fscale := fun w dist => fmul w (fofNat dist)
  neg := fneg
  ops := { zero := 0, add := fadd, tf := fun f l => fdiv (fofNat f) (fofNat l),
           idf := fun n k => ((d.idfs.find? fun e => e.1 == (n, k)).map (·.2)).getD 0x7fc00000,   -- a NaN: the table has no entry
           mul := fmul, scale := fun w s => fmul s w }
  hadd := fadd

def cmpDesc (a b : Nat) : Int := if fkey b < fkey a then -1 else if fkey a < fkey b then 1 else 0

def orc : SOracle Vec Tok Nat where
  enum := id
  tord := fun _ l => l
  tsort := isort fun a b => cmpDesc a.score b.score
  hsort := isort fun a b => cmpDesc a.hybrid b.hybrid
  hstable := isort fun a b => cmpDesc a.hybrid b.hybrid
  rowSort := id

def write (d : DSt) (op : C01.Op) (o : C01.Oracle) : DSt × Bool :=
  let r := d.rs.step (fun b => b) conv cfg d.env op { o := o, arrive := id }
  ({ d with rs := r.1 }, !(isRejected r.2))

def toRQList {V T W : Type} : List (RQuery V T W) → RQList V T W
  | [] => .nil
  | q :: qs => .cons q (toRQList qs)

def parseFilter : List String → Option (Option C02.Query × List String)
  | "nofilter" :: r => some (none, r)
  | "filter" :: r => (parseQuery r).map fun (q, r) => (some q, r)
  | _ => none

partial def parseTree (d : DSt) : List String → Option (RQuery Vec Tok Nat × List String)
  | "and" :: n :: r => do
    let (qs, r) ← many (parseTree d) n.toNat! r
    pure (.and (toRQList qs), r)
  | "or" :: n :: r => do
    let (qs, r) ← many (parseTree d) n.toNat! r
    pure (.or (toRQList qs), r)
  | "flat" :: p :: x :: y :: lim :: w :: r => do
    let (f, r) ← parseFilter r
    pure (.leaf (.flat (path? p) [x.toInt!, y.toInt!] lim.toNat! (← natOfHex w) f), r)
  | "text" :: p :: qt :: mode :: lim :: w :: r => do
    let (f, r) ← parseFilter r
    pure (.leaf (.text (path? p) (d.tokens (← bytes? qt)) (mode == "all") lim.toNat! (← natOfHex w) f), r)
  | ts =>
    match parseQuery ts with
    | some (.leaf l, r) => some (.leaf (.filt l), r)
    | _ => none

def normBits (h : Nat) : Nat := if h == 0x80000000 then 0 else h

/-- adjacent rows of equal hybrid score as groups -/
def groups : List (String × Nat) → List (Nat × List String)
  | [] => []
  | (u, h) :: rest =>
    match groups rest with
    | (h', us) :: gs => if normBits h == h' then (h', u :: us) :: gs else (normBits h, [u]) :: (h', us) :: gs
    | [] => [(normBits h, [u])]

def groupText (cut : Bool) : List (Nat × List String) → List String
  | [] => []
  | [(h, us)] =>
    if cut then ["h" ++ hexOfNat 8 h ++ "#" ++ toString us.length]
    else ["h" ++ hexOfNat 8 h ++ "{" ++ ",".intercalate (sortStrings us) ++ "}"]
  | (h, us) :: gs => ("h" ++ hexOfNat 8 h ++ "{" ++ ",".intercalate (sortStrings us) ++ "}") :: groupText cut gs

/-- the `limit` of a plain ranking query -/
def plainLimit : RQuery Vec Tok Nat → Option Nat
  | .leaf (.flat _ _ limit _ _) => some limit
  | .leaf (.text _ _ _ limit _ _) => some limit
  | _ => none

def answerText (q : RQuery Vec Tok Nat) : RAnswer Nat → String
  | .rows l =>
    let ranked := l.filterMap fun r => r.2.1.map fun h => (r.1, h)
    let unranked := (l.filter fun r => r.2.1.isNone).map (·.1)
    let cut := match plainLimit q with
      | some lim => ranked.length == lim
      | none => false
    " ".intercalate (groupText cut (groups ranked)) ++ " u=" ++ ",".intercalate unranked
  | .badQuery => "error"
  | .indexError => "error:index"
  | .danglingNode => "error:dangling-node"
  | .selectError => "error:select"
  | .slicePanic => "error:slice"

def uuidOf (d : DSt) (i : C04.Id) : String :=
  (C01.AL.get d.rs.base.shard.pts.nI i.toNat).getD ("?" ++ hexOfNat 16 i.toNat)

def fdump (d : DSt) : String :=
  match d.rs.flats with
  | fx :: _ =>
    if fx.store.isEmpty then "-" else
    ";".intercalate (sortStrings (fx.store.map fun e => uuidOf d e.1 ++ "=" ++ ",".intercalate (e.2.map toString)))
  | [] => "no-such-index"

def tdump (d : DSt) : String :=
  match d.rs.texts with
  | tx :: _ =>
    toString tx.ix.numDocs ++ ";" ++ ";".intercalate (sortStrings ((tx.ix.sets.filter fun e => !e.2.isEmpty).map fun e =>
      hexB e.1 ++ "=" ++ ",".intercalate (sortStrings (e.2.map fun n => uuidOf d (BitVec.ofNat 64 n)))))
  | [] => "no-such-index"

def step (d : DSt) (line : String) : DSt × String :=
  let bad := (d, "bad-op")
  match (line.trimAscii.toString.splitOn " ").filter (· ≠ "") with
  | ["rschema", b, np, vp, tp] =>
    ({ d with rs := RState.init [(path? np, .int)] (b == "bolt") [path? vp] [path? tp] }, "ok")
  | "tok" :: t :: n :: r =>
    match bytes? t, many (fun ts => match ts with | x :: ts => (bytes? x).map (·, ts) | [] => none) n.toNat! r with
    | some t, some (ts, _) => ({ d with toks := (t, ts) :: d.toks }, "ok")
    | _, _ => bad
  | ["idf", n, k, h] =>
    match natOfHex h with
    | some h => ({ d with idfs := ((n.toNat!, k.toNat!), h) :: d.idfs }, "ok")
    | none => bad
  | "insert" :: n :: r =>
    match many (fun ts => match ts with
        | u :: i :: ts => do
          let i ← natOfHex i
          let (v, ts) ← parseVal ts
          pure ((u, i, v), ts)
        | _ => none) n.toNat! r with
    | some (ps, _) =>
      let o : C01.Oracle := { freeOrder := freeOrderFor d.rs.base.shard (ps.map (·.2.1)) }
      let (d', ok) := write d (.insert (ps.map fun p => (p.1, docOfVal p.2.2))) o
      if !ok then (d', "rejected")
      else if ps.all fun p => C01.AL.get d'.rs.base.shard.pts.pI p.1 == some p.2.1 then (d', "ok") else (d', "ok!nodeids")
    | none => bad
  | "update" :: n :: r =>
    match many (fun ts => match ts with
        | u :: ts => (parseVal ts).map fun (v, ts) => ((u, v), ts)
        | _ => none) n.toNat! r with
    | some (us, _) =>
      let (d', ok) := write d (.update (us.map fun p => (p.1, docOfVal p.2))) {}
      (d', if ok then "ok" else "rejected")
    | none => bad
  | "delete" :: n :: r =>
    match many tok1 n.toNat! r with
    | some (us, _) =>
      let (d', ok) := write d (.delete us) {}
      (d', if ok then "ok" else "rejected")
    | none => bad
  | ["fdump"] => (d, fdump d)
  | ["tdump"] => (d, tdump d)
  | "searchr" :: r =>
    match parseTree d r with
    | some (q, _) => (d, answerText q (rsearchPoints (fun b => b) conv d.env orc d.rs q ⟨[["*"]], [], 0, 0⟩))
    | none => bad
  | _ => bad

end Sema.Compose.RDrv

def Sema.Compose.rankDriverMain (stdin stdout : IO.FS.Stream) (_args : List String) : IO Unit :=
  Sema.loopState stdin stdout Sema.Compose.RDrv.step {}
