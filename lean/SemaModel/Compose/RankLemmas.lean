/-
Compose / ranking — lemmas: the flat store and the text index follow the documents of the point store
(write side); the answers of the ranking leaves are the reference answers (read side).
-/
import SemaModel.Compose.Lemmas
import SemaModel.Compose.RankModel
import SemaModel.C04.Props
import SemaModel.C05.Props
set_option linter.unusedSimpArgs false
set_option linter.unusedVariables false
set_option linter.unusedSectionVars false
namespace Sema.Compose
open Sema
open Sema.C01 (Points Ctr Shard PInv CInv Uuid Data)

variable {V T D S W : Type}

/-! ### the flat store follows the documents -/

/-- the flat index holds, under every node id, exactly the vector of the document stored there -/
def FlatInvD (env : Env V T D S W) (fx : FlatIx V) (Dm : C02.Id → Option C02.Val) : Prop :=
  (C01.AL.keys fx.store).Nodup ∧ ∀ i, C01.AL.get fx.store i = vecAt env fx.path (Dm i)

/-- the cast of the new value succeeds (one conjunct of `FlatIx.typesOk`) -/
def FlatIx.castOk (env : Env V T D S W) (fx : FlatIx V) (pc : C02.PChange) : Bool :=
  match C02.getProp pc.cur fx.path with
  | none => true
  | some x => (env.vec x).isSome

theorem FlatIx.apply_path (env : Env V T D S W) (fx : FlatIx V) (pc : C02.PChange) : (fx.apply env pc).path = fx.path := by
  unfold FlatIx.apply
  split
  · rfl
  · split <;> rfl
  · rfl

theorem FlatIx.step_path (env : Env V T D S W) (pcs : List C02.PChange) : ∀ (fx : FlatIx V), (fx.step env pcs).path = fx.path := by
  induction pcs with
  | nil => intro fx; rfl
  | cons pc rest ih =>
    intro fx
    show (FlatIx.step env (fx.apply env pc) rest).path = fx.path
    rw [ih, FlatIx.apply_path]

theorem FlatIx.apply_skip (env : Env V T D S W) (fx : FlatIx V) (pc : C02.PChange)
    (hp : C02.getProp pc.prev fx.path = none) (hc : C02.getProp pc.cur fx.path = none) : fx.apply env pc = fx := by
  unfold FlatIx.apply; rw [hp, hc]

theorem FlatIx.apply_del (env : Env V T D S W) (fx : FlatIx V) (pc : C02.PChange) {y : C02.Val}
    (hp : C02.getProp pc.prev fx.path = some y) (hc : C02.getProp pc.cur fx.path = none) :
    fx.apply env pc = { fx with store := C01.AL.del fx.store pc.id } := by
  unfold FlatIx.apply; rw [hp, hc]

theorem FlatIx.apply_set (env : Env V T D S W) (fx : FlatIx V) (pc : C02.PChange) {x : C02.Val} {v : V}
    (hc : C02.getProp pc.cur fx.path = some x) (hv : env.vec x = some v) :
    fx.apply env pc = { fx with store := C01.AL.put fx.store pc.id v } := by
  unfold FlatIx.apply; rw [hc]
  cases C02.getProp pc.prev fx.path <;> simp [hv]

theorem flat_apply_inv (env : Env V T D S W) {fx : FlatIx V} {Dm : C02.Id → Option C02.Val} (h : FlatInvD env fx Dm)
    (pc : C02.PChange) (hprev : Dm pc.id = pc.prev) (hok : fx.castOk env pc = true) :
    FlatInvD env (fx.apply env pc) (C02.updD Dm pc.id pc.cur) := by
  obtain ⟨hn, hg⟩ := h
  have hgp : C01.AL.get fx.store pc.id = (C02.getProp pc.prev fx.path).bind env.vec := by
    rw [hg, hprev]; rfl
  unfold FlatIx.castOk at hok
  cases hc : C02.getProp pc.cur fx.path with
  | none =>
    cases hp : C02.getProp pc.prev fx.path with
    | none =>
      rw [FlatIx.apply_skip env fx pc hp hc]
      refine ⟨hn, fun i => ?_⟩
      unfold C02.updD
      by_cases hi : i = pc.id
      · rw [if_pos hi, hi, hgp, hp]; simp [vecAt, hc]
      · rw [if_neg hi]; exact hg i
    | some y =>
      rw [FlatIx.apply_del env fx pc hp hc]
      refine ⟨C01.AL.nodup_del hn _, fun i => ?_⟩
      show C01.AL.get (C01.AL.del fx.store pc.id) i = vecAt env fx.path (C02.updD Dm pc.id pc.cur i)
      rw [C01.AL.get_del]
      unfold C02.updD
      by_cases hi : i = pc.id
      · rw [if_pos hi, if_pos hi.symm]; simp [vecAt, hc]
      · rw [if_neg hi, if_neg (fun e => hi e.symm)]; exact hg i
  | some x =>
    rw [hc] at hok
    cases hv : env.vec x with
    | none => simp [hv] at hok
    | some v =>
      rw [FlatIx.apply_set env fx pc hc hv]
      refine ⟨C01.AL.nodup_put hn _ _, fun i => ?_⟩
      show C01.AL.get (C01.AL.put fx.store pc.id v) i = vecAt env fx.path (C02.updD Dm pc.id pc.cur i)
      rw [C01.AL.get_put]
      unfold C02.updD
      by_cases hi : i = pc.id
      · rw [if_pos hi, if_pos hi.symm]; simp [vecAt, hc, hv]
      · rw [if_neg hi, if_neg (fun e => hi e.symm)]; exact hg i

theorem flat_chain (env : Env V T D S W) {Dm Dm' : C02.Id → Option C02.Val} {pcs : List C02.PChange}
    (hc : C02.PChain Dm pcs Dm') : ∀ (fx : FlatIx V), FlatInvD env fx Dm → (∀ pc ∈ pcs, fx.castOk env pc = true) →
    FlatInvD env (fx.step env pcs) Dm' := by
  induction hc with
  | nil Dm => intro fx h _; exact h
  | @cons Dm pc rest Dm' hprev _ ih =>
    intro fx h hok
    show FlatInvD env (FlatIx.step env (fx.apply env pc) rest) Dm'
    refine ih _ (flat_apply_inv env h pc hprev (hok pc (List.mem_cons_self ..))) ?_
    intro pc' hpc'
    have := hok pc' (List.mem_cons_of_mem _ hpc')
    unfold FlatIx.castOk at this ⊢
    rw [FlatIx.apply_path]; exact this

theorem flat_typesOk_castOk (env : Env V T D S W) (fx : FlatIx V) (pcs : List C02.PChange) (h : fx.typesOk env pcs = true) :
    ∀ pc ∈ pcs, fx.castOk env pc = true := by
  intro pc hpc
  unfold FlatIx.typesOk at h
  have := List.all_eq_true.1 h pc hpc
  simp only [Bool.and_eq_true] at this
  exact this.2

/-! ### the text index follows the documents -/

section text
variable [DecidableEq T]

/-- the corpus holds, under every node id, exactly the tokens of the text of the document stored there -/
def AgreeT (env : Env V T D S W) (path : List String) (c : C05.Corpus T) (Dm : C02.Id → Option C02.Val) : Prop :=
  ∀ n : Nat, c.get n = if n < 2 ^ 64 then toksAt env path (Dm (BitVec.ofNat 64 n)) else []

theorem ofNat_eq_iff {n : Nat} (h : n < 2 ^ 64) (i : BitVec 64) : BitVec.ofNat 64 n = i ↔ i.toNat = n := by
  constructor
  · intro e; rw [← e]; simp [BitVec.toNat_ofNat]; omega
  · intro e; rw [← e]; simp

theorem toksAt_of_none (env : Env V T D S W) (path : List String) {d : Option C02.Val} (h : C02.getProp d path = none) :
    toksAt env path d = [] := by simp [toksAt, h]

theorem toksAt_of_some (env : Env V T D S W) (path : List String) {d : Option C02.Val} {x : C02.Val}
    (h : C02.getProp d path = some x) : toksAt env path d = textOf env x := by simp [toksAt, h]

/-- what one change does to the corpus -/
def corpusStep (env : Env V T D S W) (path : List String) (c : C05.Corpus T) (pc : C02.PChange) : C05.Corpus T :=
  match textDoc env path pc with
  | none => c
  | some d => c.set d.1 d.2

theorem agree_step (env : Env V T D S W) (path : List String) {c : C05.Corpus T} {Dm : C02.Id → Option C02.Val}
    (h : AgreeT env path c Dm) (pc : C02.PChange) (hprev : Dm pc.id = pc.prev) :
    AgreeT env path (corpusStep env path c pc) (C02.updD Dm pc.id pc.cur) := by
  -- a change that sets the tokens of `pc.id` to those of its new document
  have hset : ∀ toks, toksAt env path pc.cur = toks →
      AgreeT env path (c.set pc.id.toNat toks) (C02.updD Dm pc.id pc.cur) := by
    intro toks htk n
    rw [C05.Corpus.get_set]
    unfold C02.updD
    by_cases hn : n < 2 ^ 64
    · rw [if_pos hn]
      by_cases hi : pc.id.toNat = n
      · rw [if_pos hi, if_pos ((ofNat_eq_iff hn pc.id).2 hi)]; exact htk.symm
      · rw [if_neg hi, if_neg (fun e => hi ((ofNat_eq_iff hn pc.id).1 e))]
        have := h n; rw [if_pos hn] at this; exact this
    · rw [if_neg hn]
      have hi : ¬ pc.id.toNat = n := fun e => hn (by rw [← e]; exact pc.id.isLt)
      rw [if_neg hi]
      have := h n; rw [if_neg hn] at this; exact this
  unfold corpusStep textDoc
  cases hc : C02.getProp pc.cur path with
  | none =>
    cases hp : C02.getProp pc.prev path with
    | none =>
      intro n
      unfold C02.updD
      by_cases hn : n < 2 ^ 64
      · rw [if_pos hn]
        have hh := h n; rw [if_pos hn] at hh
        by_cases hi : BitVec.ofNat 64 n = pc.id
        · rw [if_pos hi, toksAt_of_none env path hc, hh, hi, hprev, toksAt_of_none env path hp]
        · rw [if_neg hi]; exact hh
      · rw [if_neg hn]; have hh := h n; rw [if_neg hn] at hh; exact hh
    | some y => exact hset [] (toksAt_of_none env path hc)
  | some x =>
    have := hset (textOf env x) (toksAt_of_some env path hc)
    cases hp : C02.getProp pc.prev path <;> exact this

theorem apply_filterMap_textDoc (env : Env V T D S W) (path : List String) (pcs : List C02.PChange) : ∀ (c : C05.Corpus T),
    c.apply (pcs.filterMap (textDoc env path)) = pcs.foldl (corpusStep env path) c := by
  induction pcs with
  | nil => intro c; rfl
  | cons pc rest ih =>
    intro c
    rw [List.foldl_cons, ← ih]
    unfold corpusStep
    cases htd : textDoc env path pc with
    | none => simp [List.filterMap_cons, htd]
    | some d => simp [List.filterMap_cons, htd, C05.Corpus.apply]

theorem text_chain (env : Env V T D S W) (path : List String) {Dm Dm' : C02.Id → Option C02.Val} {pcs : List C02.PChange}
    (hc : C02.PChain Dm pcs Dm') : ∀ (c : C05.Corpus T), AgreeT env path c Dm →
    AgreeT env path (c.apply (pcs.filterMap (textDoc env path))) Dm' := by
  intro c h
  rw [apply_filterMap_textDoc]
  induction hc generalizing c with
  | nil Dm => exact h
  | @cons Dm pc rest Dm' hprev _ ih => exact ih _ (agree_step env path h pc hprev)

/-- the statistics of a text index are those of ANY well-formed corpus with the same documents -/
theorem TextInv_congr {ix : C05.Index T} {c c' : C05.Corpus T} (h : C05.TextInv ix c) (hwf : c'.WF)
    (hc : ∀ id, c.get id = c'.get id) : C05.TextInv ix c' := by
  refine ⟨hwf, h.sets_nodup, ?_, h.set_nodup, ?_, ?_, ?_⟩
  · intro t id; rw [← hc]; exact h.mem_set t id
  · intro id; rw [← hc]; exact h.doc_none id
  · intro id r hr; rw [← hc]; exact h.doc_some id r hr
  · rw [h.num]
    have hp : (C05.akeys c).Perm (C05.akeys c') := by
      apply (List.perm_ext_iff_of_nodup h.cwf.nodup hwf.nodup).mpr
      intro x
      rw [C05.mem_akeys_iff, C05.mem_akeys_iff, ← C05.Corpus.get_ne_nil h.cwf, ← C05.Corpus.get_ne_nil hwf, hc]
    simpa [C05.akeys, C05.specNumDocs] using hp.length_eq

/-! #### the corpus read off the point store / the reference map -/

/-- per pair (key, node id) of `l` whose tokens `f key` are not empty: node id ↦ tokens -/
def mkCorpus (f : Uuid → List T) (l : List (Uuid × Nat)) : C05.Corpus T :=
  l.filterMap fun e => if (f e.1).isEmpty then none else some (e.2, f e.1)

theorem refCorpus_eq (cv : Conv) (env : Env V T D S W) (path : List String) (pI : List (Uuid × Nat)) (coll : C01.Coll) :
    refCorpus cv env path pI coll = mkCorpus (refToks cv env path coll) pI := rfl

theorem mkCorpus_cons (f : Uuid → List T) (e : Uuid × Nat) (l : List (Uuid × Nat)) :
    mkCorpus f (e :: l) = if (f e.1).isEmpty then mkCorpus f l else (e.2, f e.1) :: mkCorpus f l := by
  unfold mkCorpus
  rw [List.filterMap_cons]
  by_cases h : (f e.1).isEmpty = true
  · simp only [h, if_true]
  · simp only [h, Bool.false_eq_true, if_false]

theorem mem_mkCorpus (f : Uuid → List T) (l : List (Uuid × Nat)) (x : Nat × List T) :
    x ∈ mkCorpus f l ↔ ∃ u, (u, x.1) ∈ l ∧ f u = x.2 ∧ x.2 ≠ [] := by
  unfold mkCorpus
  simp only [List.mem_filterMap]
  constructor
  · rintro ⟨e, he, hx⟩
    by_cases hem : (f e.1).isEmpty = true
    · simp [hem] at hx
    · simp only [hem, Bool.false_eq_true, if_false, Option.some.injEq] at hx
      subst hx
      exact ⟨e.1, he, rfl, by simpa [List.isEmpty_iff] using hem⟩
  · rintro ⟨u, hu, hf, hne⟩
    refine ⟨(u, x.1), hu, ?_⟩
    have : (f u).isEmpty = false := by rw [hf]; cases hx : x.2 with
      | nil => exact absurd hx hne
      | cons a b => rfl
    simp [this, hf, hne]

theorem akeys_mkCorpus_sublist (f : Uuid → List T) (l : List (Uuid × Nat)) :
    (C05.akeys (mkCorpus f l)).Sublist (l.map (·.2)) := by
  induction l with
  | nil => simp [mkCorpus, C05.akeys]
  | cons e l ih =>
    rw [mkCorpus_cons]
    by_cases h : (f e.1).isEmpty = true
    · rw [if_pos h, List.map_cons]; exact ih.trans (List.sublist_cons_self _ _)
    · rw [if_neg h, List.map_cons]; exact ih.cons_cons _

theorem mkCorpus_wf (f : Uuid → List T) {l : List (Uuid × Nat)} (hn : (l.map (·.2)).Nodup) : (mkCorpus f l).WF :=
  ⟨(akeys_mkCorpus_sublist f l).nodup hn, fun e he => ((mem_mkCorpus f l e).1 he).choose_spec.2.2⟩

theorem mkCorpus_get_dead (f : Uuid → List T) (l : List (Uuid × Nat)) (n : Nat) (h : n ∉ l.map (·.2)) :
    (mkCorpus f l).get n = [] := by
  unfold C05.Corpus.get
  have : C05.alookup (mkCorpus f l) n = none := by
    rw [C05.alookup_none_iff]
    exact fun hm => h ((akeys_mkCorpus_sublist f l).subset hm)
  rw [this]; rfl

theorem mkCorpus_get (f : Uuid → List T) {l : List (Uuid × Nat)} (hn : (l.map (·.2)).Nodup) {u : Uuid} {n : Nat}
    (h : (u, n) ∈ l) : (mkCorpus f l).get n = f u := by
  induction l with
  | nil => simp at h
  | cons e l ih =>
    simp only [List.map_cons, List.nodup_cons] at hn
    rw [mkCorpus_cons]
    rcases List.mem_cons.1 h with he | hl
    · subst he
      by_cases hem : (f u).isEmpty = true
      · rw [if_pos hem, mkCorpus_get_dead f l n hn.1]
        exact (List.isEmpty_iff.1 hem).symm
      · rw [if_neg hem]; simp [C05.Corpus.get, C05.alookup]
    · have hne : e.2 ≠ n := fun e' => hn.1 (by rw [e']; exact List.mem_map.2 ⟨(u, n), hl, rfl⟩)
      by_cases hem : (f e.1).isEmpty = true
      · rw [if_pos hem]; exact ih hn.2 hl
      · rw [if_neg hem]
        have := ih hn.2 hl
        unfold C05.Corpus.get at this ⊢
        simp only [C05.alookup, hne, if_false]
        exact this

theorem length_mkCorpus (f : Uuid → List T) (l : List (Uuid × Nat)) :
    (mkCorpus f l).length = (l.filter fun e => !(f e.1).isEmpty).length := by
  induction l with
  | nil => rfl
  | cons e l ih =>
    rw [mkCorpus_cons]
    by_cases hem : (f e.1).isEmpty = true
    · rw [if_pos hem, List.filter_cons]; simp [hem, ih]
    · rw [if_neg hem, List.filter_cons]; simp [hem, ih]

theorem df_mkCorpus (f : Uuid → List T) (l : List (Uuid × Nat)) (t : T) :
    ((mkCorpus f l).filter fun e => decide (t ∈ e.2)).length = (l.filter fun e => decide (t ∈ f e.1)).length := by
  induction l with
  | nil => rfl
  | cons e l ih =>
    rw [mkCorpus_cons]
    by_cases hem : (f e.1).isEmpty = true
    · have hnil : f e.1 = [] := List.isEmpty_iff.1 hem
      rw [if_pos hem, List.filter_cons]; simp [hnil, ih]
    · rw [if_neg hem, List.filter_cons, List.filter_cons]
      by_cases ht : t ∈ f e.1 <;> simp [ht, ih]

theorem pI_vals_nodup {p : Points} (hp : PInv p) : (p.pI.map (·.2)).Nodup := by
  have h := hp.pI_nodup
  unfold C01.AL.keys at h
  rw [List.Nodup, List.pairwise_map] at h ⊢
  refine h.imp_of_mem ?_
  intro a b ha hb hab heq
  apply hab
  have ga := hp.mem_pI ha
  have gb := hp.mem_pI hb
  rw [← heq] at gb
  exact hp.inj ga gb

theorem toksAt_none (env : Env V T D S W) (path : List String) : toksAt env path none = [] := by
  simp [toksAt, C02.getProp]

/-- the tokens the reference map gives a live uuid are those of the document under its node id -/
theorem refToks_abs (cv : Conv) (env : Env V T D S W) (path : List String) {p : Points} {u : Uuid} {n : Nat}
    (h : C01.AL.get p.pI u = some n) :
    refToks cv env path (C01.absP p) u = toksAt env path (idxData cv (C01.AL.get p.nD n)) := by
  unfold refToks
  rw [C01.get_absP, h]
  rfl

/-- what the corpus read off the reference map holds under a node id -/
theorem refCorpus_get (cv : Conv) (env : Env V T D S W) (path : List String) {p : Points} (hp : PInv p) (n : Nat) :
    (refCorpus cv env path p.pI (C01.absP p)).get n = toksAt env path (idxData cv (C01.AL.get p.nD n)) := by
  rw [refCorpus_eq]
  cases hl : C01.AL.get p.nI n with
  | some u =>
    have hpu := (hp.bij u n).mpr hl
    rw [mkCorpus_get _ (pI_vals_nodup hp) (C01.AL.mem_of_get hpu), refToks_abs cv env path hpu]
  | none =>
    rw [nD_none_of_dead hp hl, mkCorpus_get_dead]
    · simp [idxData, toksAt_none]
    · intro hm
      obtain ⟨e, he, hen⟩ := List.mem_map.1 hm
      have ge := hp.mem_pI he
      rw [hen] at ge
      rw [(hp.bij e.1 n).mp ge] at hl; cases hl

theorem refCorpus_wf (cv : Conv) (env : Env V T D S W) (path : List String) {p : Points} (hp : PInv p) (coll : C01.Coll) :
    (refCorpus cv env path p.pI coll).WF := by
  rw [refCorpus_eq]; exact mkCorpus_wf _ (pI_vals_nodup hp)

theorem agree_refCorpus (cv : Conv) (env : Env V T D S W) (path : List String) {p : Points} (hp : PInv p) (hb : LiveBound p) :
    AgreeT env path (refCorpus cv env path p.pI (C01.absP p)) (docAt cv p) := by
  intro n
  rw [refCorpus_get cv env path hp]
  by_cases hn : n < 2 ^ 64
  · rw [if_pos hn]
    unfold docAt idxData
    have : (BitVec.ofNat 64 n).toNat = n := by simp [BitVec.toNat_ofNat]; omega
    rw [this]
  · rw [if_neg hn]
    have : C01.AL.get p.nD n = none := by
      apply nD_none_of_dead hp
      cases hl : C01.AL.get p.nI n with
      | none => rfl
      | some u => have := hb n u hl; unfold idBound at this; omega
    rw [this]; simp [idxData, toksAt_none]

/-- two corpora that agree with the same documents hold the same tokens everywhere -/
theorem agree_unique (env : Env V T D S W) (path : List String) {c c' : C05.Corpus T} {Dm : C02.Id → Option C02.Val}
    (h : AgreeT env path c Dm) (h' : AgreeT env path c' Dm) : ∀ n, c.get n = c'.get n :=
  fun n => (h n).trans (h' n).symm

end text

end Sema.Compose
