/-
Compose / ranking — lemmas: the flat store and the text index follow the documents of the point store
(write side); the answers of the ranking leaves are the reference answers (read side).
-/
import SemaModel.Compose.Lemmas
import SemaModel.Compose.RankModel
import SemaModel.C04.Props
import SemaModel.C05.Props
set_option linter.unusedSimpArgs false
set_option linter.unusedVariables false
set_option linter.unusedSectionVars false
namespace Sema.Compose
open Sema
open Sema.C01 (Points Ctr Shard PInv CInv Uuid Data)

variable {V T D S W : Type}

/-! ### the flat store follows the documents -/

/-- the flat index holds, under every node id, exactly the vector of the document stored there -/
def FlatInvD (env : Env V T D S W) (fx : FlatIx V) (Dm : C02.Id → Option C02.Val) : Prop :=
  (C01.AL.keys fx.store).Nodup ∧ ∀ i, C01.AL.get fx.store i = vecAt env fx.path (Dm i)

/-- the cast of the new value succeeds (one conjunct of `FlatIx.typesOk`) -/
def FlatIx.castOk (env : Env V T D S W) (fx : FlatIx V) (pc : C02.PChange) : Bool :=
  match C02.getProp pc.cur fx.path with
  | none => true
  | some x => (env.vec x).isSome

theorem FlatIx.apply_path (env : Env V T D S W) (fx : FlatIx V) (pc : C02.PChange) : (fx.apply env pc).path = fx.path := by
  unfold FlatIx.apply
  split
  · rfl
  · split <;> rfl
  · rfl

theorem FlatIx.step_path (env : Env V T D S W) (pcs : List C02.PChange) : ∀ (fx : FlatIx V), (fx.step env pcs).path = fx.path := by
  induction pcs with
  | nil => intro fx; rfl
  | cons pc rest ih =>
    intro fx
    show (FlatIx.step env (fx.apply env pc) rest).path = fx.path
    rw [ih, FlatIx.apply_path]

theorem FlatIx.apply_skip (env : Env V T D S W) (fx : FlatIx V) (pc : C02.PChange)
    (hp : C02.getProp pc.prev fx.path = none) (hc : C02.getProp pc.cur fx.path = none) : fx.apply env pc = fx := by
  unfold FlatIx.apply; rw [hp, hc]

theorem FlatIx.apply_del (env : Env V T D S W) (fx : FlatIx V) (pc : C02.PChange) {y : C02.Val}
    (hp : C02.getProp pc.prev fx.path = some y) (hc : C02.getProp pc.cur fx.path = none) :
    fx.apply env pc = { fx with store := C01.AL.del fx.store pc.id } := by
  unfold FlatIx.apply; rw [hp, hc]

theorem FlatIx.apply_set (env : Env V T D S W) (fx : FlatIx V) (pc : C02.PChange) {x : C02.Val} {v : V}
    (hc : C02.getProp pc.cur fx.path = some x) (hv : env.vec x = some v) :
    fx.apply env pc = { fx with store := C01.AL.put fx.store pc.id v } := by
  unfold FlatIx.apply; rw [hc]
  cases C02.getProp pc.prev fx.path <;> simp [hv]

theorem flat_apply_inv (env : Env V T D S W) {fx : FlatIx V} {Dm : C02.Id → Option C02.Val} (h : FlatInvD env fx Dm)
    (pc : C02.PChange) (hprev : Dm pc.id = pc.prev) (hok : fx.castOk env pc = true) :
    FlatInvD env (fx.apply env pc) (C02.updD Dm pc.id pc.cur) := by
  obtain ⟨hn, hg⟩ := h
  have hgp : C01.AL.get fx.store pc.id = (C02.getProp pc.prev fx.path).bind env.vec := by
    rw [hg, hprev]; rfl
  unfold FlatIx.castOk at hok
  cases hc : C02.getProp pc.cur fx.path with
  | none =>
    cases hp : C02.getProp pc.prev fx.path with
    | none =>
      rw [FlatIx.apply_skip env fx pc hp hc]
      refine ⟨hn, fun i => ?_⟩
      unfold C02.updD
      by_cases hi : i = pc.id
      · rw [if_pos hi, hi, hgp, hp]; simp [vecAt, hc]
      · rw [if_neg hi]; exact hg i
    | some y =>
      rw [FlatIx.apply_del env fx pc hp hc]
      refine ⟨C01.AL.nodup_del hn _, fun i => ?_⟩
      show C01.AL.get (C01.AL.del fx.store pc.id) i = vecAt env fx.path (C02.updD Dm pc.id pc.cur i)
      rw [C01.AL.get_del]
      unfold C02.updD
      by_cases hi : i = pc.id
      · rw [if_pos hi, if_pos hi.symm]; simp [vecAt, hc]
      · rw [if_neg hi, if_neg (fun e => hi e.symm)]; exact hg i
  | some x =>
    rw [hc] at hok
    cases hv : env.vec x with
    | none => simp [hv] at hok
    | some v =>
      rw [FlatIx.apply_set env fx pc hc hv]
      refine ⟨C01.AL.nodup_put hn _ _, fun i => ?_⟩
      show C01.AL.get (C01.AL.put fx.store pc.id v) i = vecAt env fx.path (C02.updD Dm pc.id pc.cur i)
      rw [C01.AL.get_put]
      unfold C02.updD
      by_cases hi : i = pc.id
      · rw [if_pos hi, if_pos hi.symm]; simp [vecAt, hc, hv]
      · rw [if_neg hi, if_neg (fun e => hi e.symm)]; exact hg i

theorem flat_chain (env : Env V T D S W) {Dm Dm' : C02.Id → Option C02.Val} {pcs : List C02.PChange}
    (hc : C02.PChain Dm pcs Dm') : ∀ (fx : FlatIx V), FlatInvD env fx Dm → (∀ pc ∈ pcs, fx.castOk env pc = true) →
    FlatInvD env (fx.step env pcs) Dm' := by
  induction hc with
  | nil Dm => intro fx h _; exact h
  | @cons Dm pc rest Dm' hprev _ ih =>
    intro fx h hok
    show FlatInvD env (FlatIx.step env (fx.apply env pc) rest) Dm'
    refine ih _ (flat_apply_inv env h pc hprev (hok pc (List.mem_cons_self ..))) ?_
    intro pc' hpc'
    have := hok pc' (List.mem_cons_of_mem _ hpc')
    unfold FlatIx.castOk at this ⊢
    rw [FlatIx.apply_path]; exact this

theorem flat_typesOk_castOk (env : Env V T D S W) (fx : FlatIx V) (pcs : List C02.PChange) (h : fx.typesOk env pcs = true) :
    ∀ pc ∈ pcs, fx.castOk env pc = true := by
  intro pc hpc
  unfold FlatIx.typesOk at h
  have := List.all_eq_true.1 h pc hpc
  simp only [Bool.and_eq_true] at this
  exact this.2

/-! ### the text index follows the documents -/

section text
variable [DecidableEq T]

/-- the corpus holds, under every node id, exactly the tokens of the text of the document stored there -/
def AgreeT (env : Env V T D S W) (path : List String) (c : C05.Corpus T) (Dm : C02.Id → Option C02.Val) : Prop :=
  ∀ n : Nat, c.get n = if n < 2 ^ 64 then toksAt env path (Dm (BitVec.ofNat 64 n)) else []

theorem ofNat_eq_iff {n : Nat} (h : n < 2 ^ 64) (i : BitVec 64) : BitVec.ofNat 64 n = i ↔ i.toNat = n := by
  constructor
  · intro e; rw [← e]; simp [BitVec.toNat_ofNat]; omega
  · intro e; rw [← e]; simp

theorem toksAt_of_none (env : Env V T D S W) (path : List String) {d : Option C02.Val} (h : C02.getProp d path = none) :
    toksAt env path d = [] := by simp [toksAt, h]

theorem toksAt_of_some (env : Env V T D S W) (path : List String) {d : Option C02.Val} {x : C02.Val}
    (h : C02.getProp d path = some x) : toksAt env path d = textOf env x := by simp [toksAt, h]

/-- what one change does to the corpus -/
def corpusStep (env : Env V T D S W) (path : List String) (c : C05.Corpus T) (pc : C02.PChange) : C05.Corpus T :=
  match textDoc env path pc with
  | none => c
  | some d => c.set d.1 d.2

theorem agree_step (env : Env V T D S W) (path : List String) {c : C05.Corpus T} {Dm : C02.Id → Option C02.Val}
    (h : AgreeT env path c Dm) (pc : C02.PChange) (hprev : Dm pc.id = pc.prev) :
    AgreeT env path (corpusStep env path c pc) (C02.updD Dm pc.id pc.cur) := by
  -- a change that sets the tokens of `pc.id` to those of its new document
  have hset : ∀ toks, toksAt env path pc.cur = toks →
      AgreeT env path (c.set pc.id.toNat toks) (C02.updD Dm pc.id pc.cur) := by
    intro toks htk n
    rw [C05.Corpus.get_set]
    unfold C02.updD
    by_cases hn : n < 2 ^ 64
    · rw [if_pos hn]
      by_cases hi : pc.id.toNat = n
      · rw [if_pos hi, if_pos ((ofNat_eq_iff hn pc.id).2 hi)]; exact htk.symm
      · rw [if_neg hi, if_neg (fun e => hi ((ofNat_eq_iff hn pc.id).1 e))]
        have := h n; rw [if_pos hn] at this; exact this
    · rw [if_neg hn]
      have hi : ¬ pc.id.toNat = n := fun e => hn (by rw [← e]; exact pc.id.isLt)
      rw [if_neg hi]
      have := h n; rw [if_neg hn] at this; exact this
  unfold corpusStep textDoc
  cases hc : C02.getProp pc.cur path with
  | none =>
    cases hp : C02.getProp pc.prev path with
    | none =>
      intro n
      unfold C02.updD
      by_cases hn : n < 2 ^ 64
      · rw [if_pos hn]
        have hh := h n; rw [if_pos hn] at hh
        by_cases hi : BitVec.ofNat 64 n = pc.id
        · rw [if_pos hi, toksAt_of_none env path hc, hh, hi, hprev, toksAt_of_none env path hp]
        · rw [if_neg hi]; exact hh
      · rw [if_neg hn]; have hh := h n; rw [if_neg hn] at hh; exact hh
    | some y => exact hset [] (toksAt_of_none env path hc)
  | some x =>
    have := hset (textOf env x) (toksAt_of_some env path hc)
    cases hp : C02.getProp pc.prev path <;> exact this

theorem apply_filterMap_textDoc (env : Env V T D S W) (path : List String) (pcs : List C02.PChange) : ∀ (c : C05.Corpus T),
    c.apply (pcs.filterMap (textDoc env path)) = pcs.foldl (corpusStep env path) c := by
  induction pcs with
  | nil => intro c; rfl
  | cons pc rest ih =>
    intro c
    rw [List.foldl_cons, ← ih]
    unfold corpusStep
    cases htd : textDoc env path pc with
    | none => simp [List.filterMap_cons, htd]
    | some d => simp [List.filterMap_cons, htd, C05.Corpus.apply]

theorem text_chain (env : Env V T D S W) (path : List String) {Dm Dm' : C02.Id → Option C02.Val} {pcs : List C02.PChange}
    (hc : C02.PChain Dm pcs Dm') : ∀ (c : C05.Corpus T), AgreeT env path c Dm →
    AgreeT env path (c.apply (pcs.filterMap (textDoc env path))) Dm' := by
  intro c h
  rw [apply_filterMap_textDoc]
  induction hc generalizing c with
  | nil Dm => exact h
  | @cons Dm pc rest Dm' hprev _ ih => exact ih _ (agree_step env path h pc hprev)

/-- the statistics of a text index are those of ANY well-formed corpus with the same documents -/
theorem TextInv_congr {ix : C05.Index T} {c c' : C05.Corpus T} (h : C05.TextInv ix c) (hwf : c'.WF)
    (hc : ∀ id, c.get id = c'.get id) : C05.TextInv ix c' := by
  refine ⟨hwf, h.sets_nodup, ?_, h.set_nodup, ?_, ?_, ?_⟩
  · intro t id; rw [← hc]; exact h.mem_set t id
  · intro id; rw [← hc]; exact h.doc_none id
  · intro id r hr; rw [← hc]; exact h.doc_some id r hr
  · rw [h.num]
    have hp : (C05.akeys c).Perm (C05.akeys c') := by
      apply (List.perm_ext_iff_of_nodup h.cwf.nodup hwf.nodup).mpr
      intro x
      rw [C05.mem_akeys_iff, C05.mem_akeys_iff, ← C05.Corpus.get_ne_nil h.cwf, ← C05.Corpus.get_ne_nil hwf, hc]
    simpa [C05.akeys, C05.specNumDocs] using hp.length_eq

/-! #### the corpus read off the point store / the reference map -/

/-- per pair (key, node id) of `l` whose tokens `f key` are not empty: node id ↦ tokens -/
def mkCorpus (f : Uuid → List T) (l : List (Uuid × Nat)) : C05.Corpus T :=
  l.filterMap fun e => if (f e.1).isEmpty then none else some (e.2, f e.1)

theorem refCorpus_eq (cv : Conv) (env : Env V T D S W) (path : List String) (pI : List (Uuid × Nat)) (coll : C01.Coll) :
    refCorpus cv env path pI coll = mkCorpus (refToks cv env path coll) pI := rfl

theorem mkCorpus_cons (f : Uuid → List T) (e : Uuid × Nat) (l : List (Uuid × Nat)) :
    mkCorpus f (e :: l) = if (f e.1).isEmpty then mkCorpus f l else (e.2, f e.1) :: mkCorpus f l := by
  unfold mkCorpus
  rw [List.filterMap_cons]
  by_cases h : (f e.1).isEmpty = true
  · simp only [h, if_true]
  · simp only [h, Bool.false_eq_true, if_false]

theorem mem_mkCorpus (f : Uuid → List T) (l : List (Uuid × Nat)) (x : Nat × List T) :
    x ∈ mkCorpus f l ↔ ∃ u, (u, x.1) ∈ l ∧ f u = x.2 ∧ x.2 ≠ [] := by
  unfold mkCorpus
  simp only [List.mem_filterMap]
  constructor
  · rintro ⟨e, he, hx⟩
    by_cases hem : (f e.1).isEmpty = true
    · simp [hem] at hx
    · simp only [hem, Bool.false_eq_true, if_false, Option.some.injEq] at hx
      subst hx
      exact ⟨e.1, he, rfl, by simpa [List.isEmpty_iff] using hem⟩
  · rintro ⟨u, hu, hf, hne⟩
    refine ⟨(u, x.1), hu, ?_⟩
    have : (f u).isEmpty = false := by rw [hf]; cases hx : x.2 with
      | nil => exact absurd hx hne
      | cons a b => rfl
    simp [this, hf, hne]

theorem akeys_mkCorpus_sublist (f : Uuid → List T) (l : List (Uuid × Nat)) :
    (C05.akeys (mkCorpus f l)).Sublist (l.map (·.2)) := by
  induction l with
  | nil => simp [mkCorpus, C05.akeys]
  | cons e l ih =>
    rw [mkCorpus_cons]
    by_cases h : (f e.1).isEmpty = true
    · rw [if_pos h, List.map_cons]; exact ih.trans (List.sublist_cons_self _ _)
    · rw [if_neg h, List.map_cons]; exact ih.cons_cons _

theorem mkCorpus_wf (f : Uuid → List T) {l : List (Uuid × Nat)} (hn : (l.map (·.2)).Nodup) : (mkCorpus f l).WF :=
  ⟨(akeys_mkCorpus_sublist f l).nodup hn, fun e he => ((mem_mkCorpus f l e).1 he).choose_spec.2.2⟩

theorem mkCorpus_get_dead (f : Uuid → List T) (l : List (Uuid × Nat)) (n : Nat) (h : n ∉ l.map (·.2)) :
    (mkCorpus f l).get n = [] := by
  unfold C05.Corpus.get
  have : C05.alookup (mkCorpus f l) n = none := by
    rw [C05.alookup_none_iff]
    exact fun hm => h ((akeys_mkCorpus_sublist f l).subset hm)
  rw [this]; rfl

theorem mkCorpus_get (f : Uuid → List T) {l : List (Uuid × Nat)} (hn : (l.map (·.2)).Nodup) {u : Uuid} {n : Nat}
    (h : (u, n) ∈ l) : (mkCorpus f l).get n = f u := by
  induction l with
  | nil => simp at h
  | cons e l ih =>
    simp only [List.map_cons, List.nodup_cons] at hn
    rw [mkCorpus_cons]
    rcases List.mem_cons.1 h with he | hl
    · subst he
      by_cases hem : (f u).isEmpty = true
      · rw [if_pos hem, mkCorpus_get_dead f l n hn.1]
        exact (List.isEmpty_iff.1 hem).symm
      · rw [if_neg hem]; simp [C05.Corpus.get, C05.alookup]
    · have hne : e.2 ≠ n := fun e' => hn.1 (by rw [e']; exact List.mem_map.2 ⟨(u, n), hl, rfl⟩)
      by_cases hem : (f e.1).isEmpty = true
      · rw [if_pos hem]; exact ih hn.2 hl
      · rw [if_neg hem]
        have := ih hn.2 hl
        unfold C05.Corpus.get at this ⊢
        simp only [C05.alookup, hne, if_false]
        exact this

theorem length_mkCorpus (f : Uuid → List T) (l : List (Uuid × Nat)) :
    (mkCorpus f l).length = (l.filter fun e => !(f e.1).isEmpty).length := by
  induction l with
  | nil => rfl
  | cons e l ih =>
    rw [mkCorpus_cons]
    by_cases hem : (f e.1).isEmpty = true
    · rw [if_pos hem, List.filter_cons]; simp [hem, ih]
    · rw [if_neg hem, List.filter_cons]; simp [hem, ih]

theorem df_mkCorpus (f : Uuid → List T) (l : List (Uuid × Nat)) (t : T) :
    ((mkCorpus f l).filter fun e => decide (t ∈ e.2)).length = (l.filter fun e => decide (t ∈ f e.1)).length := by
  induction l with
  | nil => rfl
  | cons e l ih =>
    rw [mkCorpus_cons]
    by_cases hem : (f e.1).isEmpty = true
    · have hnil : f e.1 = [] := List.isEmpty_iff.1 hem
      rw [if_pos hem, List.filter_cons]; simp [hnil, ih]
    · rw [if_neg hem, List.filter_cons, List.filter_cons]
      by_cases ht : t ∈ f e.1 <;> simp [ht, ih]

theorem pI_vals_nodup {p : Points} (hp : PInv p) : (p.pI.map (·.2)).Nodup := by
  have h := hp.pI_nodup
  unfold C01.AL.keys at h
  rw [List.Nodup, List.pairwise_map] at h ⊢
  refine h.imp_of_mem ?_
  intro a b ha hb hab heq
  apply hab
  have ga := hp.mem_pI ha
  have gb := hp.mem_pI hb
  rw [← heq] at gb
  exact hp.inj ga gb

theorem toksAt_none (env : Env V T D S W) (path : List String) : toksAt env path none = [] := by
  simp [toksAt, C02.getProp]

/-- the tokens the reference map gives a live uuid are those of the document under its node id -/
theorem refToks_abs (cv : Conv) (env : Env V T D S W) (path : List String) {p : Points} {u : Uuid} {n : Nat}
    (h : C01.AL.get p.pI u = some n) :
    refToks cv env path (C01.absP p) u = toksAt env path (idxData cv (C01.AL.get p.nD n)) := by
  unfold refToks
  rw [C01.get_absP, h]
  rfl

/-- what the corpus read off the reference map holds under a node id -/
theorem refCorpus_get (cv : Conv) (env : Env V T D S W) (path : List String) {p : Points} (hp : PInv p) (n : Nat) :
    (refCorpus cv env path p.pI (C01.absP p)).get n = toksAt env path (idxData cv (C01.AL.get p.nD n)) := by
  rw [refCorpus_eq]
  cases hl : C01.AL.get p.nI n with
  | some u =>
    have hpu := (hp.bij u n).mpr hl
    rw [mkCorpus_get _ (pI_vals_nodup hp) (C01.AL.mem_of_get hpu), refToks_abs cv env path hpu]
  | none =>
    rw [nD_none_of_dead hp hl, mkCorpus_get_dead]
    · simp [idxData, toksAt_none]
    · intro hm
      obtain ⟨e, he, hen⟩ := List.mem_map.1 hm
      have ge := hp.mem_pI he
      rw [hen] at ge
      rw [(hp.bij e.1 n).mp ge] at hl; cases hl

theorem refCorpus_wf (cv : Conv) (env : Env V T D S W) (path : List String) {p : Points} (hp : PInv p) (coll : C01.Coll) :
    (refCorpus cv env path p.pI coll).WF := by
  rw [refCorpus_eq]; exact mkCorpus_wf _ (pI_vals_nodup hp)

theorem agree_refCorpus (cv : Conv) (env : Env V T D S W) (path : List String) {p : Points} (hp : PInv p) (hb : LiveBound p) :
    AgreeT env path (refCorpus cv env path p.pI (C01.absP p)) (docAt cv p) := by
  intro n
  rw [refCorpus_get cv env path hp]
  by_cases hn : n < 2 ^ 64
  · rw [if_pos hn]
    unfold docAt idxData
    have : (BitVec.ofNat 64 n).toNat = n := by simp [BitVec.toNat_ofNat]; omega
    rw [this]
  · rw [if_neg hn]
    have : C01.AL.get p.nD n = none := by
      apply nD_none_of_dead hp
      cases hl : C01.AL.get p.nI n with
      | none => rfl
      | some u => have := hb n u hl; unfold idBound at this; omega
    rw [this]; simp [idxData, toksAt_none]

/-- two corpora that agree with the same documents hold the same tokens everywhere -/
theorem agree_unique (env : Env V T D S W) (path : List String) {c c' : C05.Corpus T} {Dm : C02.Id → Option C02.Val}
    (h : AgreeT env path c Dm) (h' : AgreeT env path c' Dm) : ∀ n, c.get n = c'.get n :=
  fun n => (h n).trans (h' n).symm

end text


/-! ### the combined invariant with ranking indexes, one batch, histories -/

section write
variable [DecidableEq T]

/-- Model.lean's invariant (C01's + C02's), the flat stores hold the vectors of the stored documents, the
text indexes carry the statistics of the corpus read off the stored documents -/
structure RInv (lower : Bytes → Bytes) (cv : Conv) (env : Env V T D S W) (rs : RState V T) : Prop where
  base : Inv lower cv rs.base
  flat : ∀ fx ∈ rs.flats, FlatInvD env fx (docAt cv rs.base.shard.pts)
  text : ∀ tx ∈ rs.texts, C05.TextInv tx.ix (refCorpus cv env tx.path rs.base.shard.pts.pI (C01.abs rs.base.shard))

/-- the analysed documents `b` of a batch reach the text index writer with every single point's own changes
in batch order (the repaired `parallelAnalyse`: one worker per node id); the order ACROSS points is free -/
def ArriveOK (arrive : List (C05.Doc T) → List (C05.Doc T)) (b : List (C05.Doc T)) : Prop :=
  ∀ id, (arrive b).filter (fun d => decide (d.1 = id)) = b.filter (fun d => decide (d.1 = id))

/-- when the node ids of a batch are pairwise distinct (every insert and delete batch; an update batch that
names no point twice) EVERY arrival order is fine -/
theorem arriveOK_of_perm_nodup (arrive : List (C05.Doc T) → List (C05.Doc T)) (b : List (C05.Doc T))
    (hperm : (arrive b).Perm b) (hdistinct : (b.map (·.1)).Nodup) : ArriveOK arrive b := by
  intro id
  have hp : ((arrive b).filter (fun d => decide (d.1 = id))).Perm (b.filter (fun d => decide (d.1 = id))) := hperm.filter _
  have hlen : (b.filter (fun d => decide (d.1 = id))).length ≤ 1 := by
    clear hp hperm
    induction b with
    | nil => simp
    | cons d rest ih =>
      simp only [List.map_cons, List.nodup_cons] at hdistinct
      by_cases hd : d.1 = id
      · have : rest.filter (fun d => decide (d.1 = id)) = [] := by
          rw [List.filter_eq_nil_iff]
          intro e he
          simp only [decide_eq_true_eq]
          intro hid
          exact hdistinct.1 (List.mem_map.mpr ⟨e, he, by rw [hid, hd]⟩)
        simp [List.filter_cons, hd, this]
      · simpa [List.filter_cons, hd] using ih hdistinct.2
  cases hb : b.filter (fun d => decide (d.1 = id)) with
  | nil => rw [hb] at hp; exact hp.eq_nil
  | cons e es =>
    cases es with
    | nil => rw [hb] at hp; exact List.perm_singleton.mp hp
    | cons e' es' => rw [hb] at hlen; simp at hlen

/-- what a batch must satisfy: Model.lean's `StepOK` (fewer than `2^63` node ids afterwards; no NaN written
into a float-indexed property) and C05's forced hypothesis on the arrival order -/
def RStepOK (lower : Bytes → Bytes) (cv : Conv) (cfg : C01.Cfg) (env : Env V T D S W) (rs : RState V T)
    (op : C01.Op) (ro : ROracle T) : Prop :=
  (rs.step lower cv cfg env op ro).1.base.shard.nextV ≤ idBound ∧
  (∀ pc ∈ changes cfg cv rs.base.shard op ro.o, ∀ ix ∈ rs.base.idxs, ix.kind = .flt → C02.FltOK ix.path pc.cur) ∧
  ∀ tx ∈ rs.texts, ArriveOK ro.arrive ((changes cfg cv rs.base.shard op ro.o).filterMap (textDoc env tx.path))

def RHistOK (lower : Bytes → Bytes) (cv : Conv) (cfg : C01.Cfg) (env : Env V T D S W) :
    RState V T → List (C01.Op × ROracle T) → Prop
  | _, [] => True
  | rs, e :: rest => RStepOK lower cv cfg env rs e.1 e.2 ∧ RHistOK lower cv cfg env (rs.step lower cv cfg env e.1 e.2).1 rest

/-- under a negative index verdict the point store rejects every batch -/
theorem shard_step_indexFalse (cfg : C01.Cfg) (s : Shard) (op : C01.Op) (o : C01.Oracle) (h : o.indexOk = false) :
    isRejected (s.step cfg op o).2 = true := by
  cases op with
  | insert b =>
    simp only [C01.Shard.step]
    rcases insertPoints_cases s b o with ⟨_, r, h2⟩ | ⟨p, c, _, hx, _⟩
    · rw [h2]; rfl
    · rw [h] at hx; cases hx
  | update b =>
    simp only [C01.Shard.step]
    rcases updatePoints_cases cfg s b o with ⟨_, r, h2⟩ | ⟨p, ids, _, hx, _⟩
    · rw [h2]; rfl
    · rw [h] at hx; cases hx
  | delete ids =>
    simp only [C01.Shard.step]
    rcases deletePoints_cases s ids o with ⟨_, r, h2⟩ | ⟨hx, _⟩
    · rw [h2]; rfl
    · rw [h] at hx; cases hx

/-- the three ways a batch can go -/
theorem rstep_cases (lower : Bytes → Bytes) (cv : Conv) (cfg : C01.Cfg) (env : Env V T D S W) (rs : RState V T)
    (op : C01.Op) (ro : ROracle T) :
    (rankVerdict env rs (changes cfg cv rs.base.shard op ro.o) = false ∧
      rs.step lower cv cfg env op ro = (rs, (rs.base.shard.step cfg op { ro.o with indexOk := false }).2)) ∨
    (rankVerdict env rs (changes cfg cv rs.base.shard op ro.o) = true ∧
      isRejected (rs.base.step lower cv cfg op ro.o).2 = true ∧
      rs.step lower cv cfg env op ro = (rs, (rs.base.step lower cv cfg op ro.o).2)) ∨
    (rankVerdict env rs (changes cfg cv rs.base.shard op ro.o) = true ∧
      isRejected (rs.base.step lower cv cfg op ro.o).2 = false ∧
      rs.step lower cv cfg env op ro =
        ({ base := (rs.base.step lower cv cfg op ro.o).1,
           flats := rs.flats.map fun fx => fx.step env (changes cfg cv rs.base.shard op ro.o),
           texts := rs.texts.map fun tx => tx.step env ro.arrive (changes cfg cv rs.base.shard op ro.o) },
         (rs.base.step lower cv cfg op ro.o).2)) := by
  simp only [RState.step]
  cases hv : rankVerdict env rs (changes cfg cv rs.base.shard op ro.o) with
  | false => left; simp
  | true =>
    right
    cases hr : isRejected (rs.base.step lower cv cfg op ro.o).2 with
    | true => left; simp
    | false => right; simp

/-- the change stream of a batch of the combined state that is not rejected leads from the old documents
to the new ones (read off `step_inv` of Lemmas.lean) -/
theorem state_step_chain (lower : Bytes → Bytes) (cv : Conv) (cfg : C01.Cfg) {st : State} (hI : Inv lower cv st)
    (op : C01.Op) (o : C01.Oracle) (hr : isRejected (st.step lower cv cfg op o).2 = false)
    (hb : (st.step lower cv cfg op o).1.shard.nextV ≤ idBound) :
    C02.PChain (docAt cv st.shard.pts) (changes cfg cv st.shard op o) (docAt cv (st.step lower cv cfg op o).1.shard.pts) := by
  obtain ⟨hs1, hs2⟩ := step_shard lower cv cfg st op o
  have hchain := step_chain cfg cv st.shard hI.store hI.bound op (withVerdict lower cv cfg st op o)
    (by rw [← hs2]; exact hr) (by rw [← hs1]; exact hb)
  rw [← hs1] at hchain
  unfold withVerdict at hchain
  rw [changes_indexOk] at hchain
  exact hchain

theorem TextIx.step_path (env : Env V T D S W) (arrive : List (C05.Doc T) → List (C05.Doc T)) (tx : TextIx T)
    (pcs : List C02.PChange) : (tx.step env arrive pcs).path = tx.path := rfl

/-- **one batch keeps the invariant** -/
theorem rstep_inv (lower : Bytes → Bytes) (cv : Conv) (cfg : C01.Cfg) (env : Env V T D S W) {rs : RState V T}
    (hR : RInv lower cv env rs) (op : C01.Op) (ro : ROracle T) (ok : RStepOK lower cv cfg env rs op ro) :
    RInv lower cv env (rs.step lower cv cfg env op ro).1 := by
  rcases rstep_cases lower cv cfg env rs op ro with ⟨_, h⟩ | ⟨_, _, h⟩ | ⟨hv, hr, h⟩
  · rw [h]; exact hR
  · rw [h]; exact hR
  · obtain ⟨hb, hflt, harr⟩ := ok
    rw [h] at hb ⊢
    have hb' : (rs.base.step lower cv cfg op ro.o).1.shard.nextV ≤ idBound := hb
    have hbase : Inv lower cv (rs.base.step lower cv cfg op ro.o).1 := step_inv lower cv cfg hR.base op ro.o ⟨hb', hflt⟩
    have hchain := state_step_chain lower cv cfg hR.base op ro.o hr hb'
    unfold rankVerdict at hv
    simp only [Bool.and_eq_true] at hv
    refine ⟨hbase, ?_, ?_⟩
    · intro fx' hfx'
      obtain ⟨fx, hfx, rfl⟩ := List.mem_map.1 hfx'
      exact flat_chain env hchain fx (hR.flat fx hfx)
        (flat_typesOk_castOk env fx _ (List.all_eq_true.1 hv.1 fx hfx))
    · intro tx' htx'
      obtain ⟨tx, htx, rfl⟩ := List.mem_map.1 htx'
      show C05.TextInv (tx.step env ro.arrive _).ix
        (refCorpus cv env tx.path (rs.base.step lower cv cfg op ro.o).1.shard.pts.pI (C01.abs (rs.base.step lower cv cfg op ro.o).1.shard))
      have h0 := hR.text tx htx
      have hp := hR.base.store.pts
      have hp' := hbase.store.pts
      -- what the index holds: the statistics of the old corpus with the batch applied in arrival order
      have h1 := C05.applyBatch_inv h0 (ro.arrive ((changes cfg cv rs.base.shard op ro.o).filterMap (textDoc env tx.path)))
      -- that corpus agrees with the new documents
      have hag := text_chain env tx.path hchain _ (agree_refCorpus cv env tx.path hp hR.base.liveBound)
      have hord := C05.C05_order (refCorpus cv env tx.path rs.base.shard.pts.pI (C01.abs rs.base.shard))
        (ro.arrive ((changes cfg cv rs.base.shard op ro.o).filterMap (textDoc env tx.path)))
        ((changes cfg cv rs.base.shard op ro.o).filterMap (textDoc env tx.path)) (harr tx htx)
      refine TextInv_congr h1 (refCorpus_wf cv env tx.path hp' _) ?_
      intro n
      rw [hord n]
      exact agree_unique env tx.path hag (agree_refCorpus cv env tx.path hp' hbase.liveBound) n

theorem rinit_inv (lower : Bytes → Bytes) (cv : Conv) (env : Env V T D S W) (schema : List (List String × C02.Kind))
    (bolt : Bool) (fpaths tpaths : List (List String)) :
    RInv lower cv env (RState.init schema bolt fpaths tpaths : RState V T) := by
  refine ⟨init_inv lower cv schema bolt, ?_, ?_⟩
  · intro fx hfx
    simp only [RState.init, List.mem_map] at hfx
    obtain ⟨p, _, rfl⟩ := hfx
    refine ⟨by simp, fun i => ?_⟩
    have hd : docAt cv (RState.init schema bolt fpaths tpaths : RState V T).base.shard.pts i = none := rfl
    rw [hd]; simp [vecAt, C02.getProp]
  · intro tx htx
    simp only [RState.init, List.mem_map] at htx
    obtain ⟨p, _, rfl⟩ := htx
    exact C05.TextInv.empty

theorem rrun_inv (lower : Bytes → Bytes) (cv : Conv) (cfg : C01.Cfg) (env : Env V T D S W) (h : List (C01.Op × ROracle T)) :
    ∀ (rs : RState V T), RInv lower cv env rs → RHistOK lower cv cfg env rs h →
      RInv lower cv env (RState.run lower cv cfg env rs h).1 := by
  induction h with
  | nil => intro rs hR _; exact hR
  | cons e rest ih =>
    obtain ⟨op, ro⟩ := e
    intro rs hR hok
    exact ih _ (rstep_inv lower cv cfg env hR op ro hok.1) hok.2

/-! #### against the reference map -/

/-- the point store of the combined state runs under the verdict of ALL indexes -/
theorem rstep_shard (lower : Bytes → Bytes) (cv : Conv) (cfg : C01.Cfg) (env : Env V T D S W) (rs : RState V T)
    (op : C01.Op) (ro : ROracle T) :
    (rs.step lower cv cfg env op ro).1.base.shard =
      (rs.base.shard.step cfg op { ro.o with indexOk := fullVerdict lower cv cfg env rs op ro.o }).1 ∧
    (rs.step lower cv cfg env op ro).2 =
      (rs.base.shard.step cfg op { ro.o with indexOk := fullVerdict lower cv cfg env rs op ro.o }).2 := by
  obtain ⟨hs1, hs2⟩ := step_shard lower cv cfg rs.base op ro.o
  unfold withVerdict at hs1 hs2
  unfold fullVerdict
  rcases rstep_cases lower cv cfg env rs op ro with ⟨hv, h⟩ | ⟨hv, hr, h⟩ | ⟨hv, hr, h⟩
  · rw [h, hv, Bool.and_false]
    exact ⟨(shard_step_rejected cfg rs.base.shard op _ (shard_step_indexFalse cfg _ op _ rfl)).symm, rfl⟩
  · rw [h, hv, Bool.and_true]
    refine ⟨?_, hs2⟩
    rw [← hs1, step_rejected_same lower cv cfg rs.base op ro.o hr]
  · rw [h, hv, Bool.and_true]
    exact ⟨hs1, hs2⟩

/-- the history as the reference map sees it: each batch with the verdict all the indexes gave -/
def rspecHist (lower : Bytes → Bytes) (cv : Conv) (cfg : C01.Cfg) (env : Env V T D S W) :
    RState V T → List (C01.Op × ROracle T) → List (C01.Op × Bool)
  | _, [] => []
  | rs, (op, ro) :: rest =>
    (op, fullVerdict lower cv cfg env rs op ro.o) :: rspecHist lower cv cfg env (rs.step lower cv cfg env op ro).1 rest

theorem rrun_abs (lower : Bytes → Bytes) (cv : Conv) (cfg : C01.Cfg) (env : Env V T D S W) (h : List (C01.Op × ROracle T)) :
    ∀ (rs : RState V T), C01.Inv rs.base.shard →
    C01.abs (RState.run lower cv cfg env rs h).1.base.shard =
      (C01.Coll.run cfg (C01.abs rs.base.shard) (rspecHist lower cv cfg env rs h)).1 ∧
    C01.Out.equivList (RState.run lower cv cfg env rs h).2
      (C01.Coll.run cfg (C01.abs rs.base.shard) (rspecHist lower cv cfg env rs h)).2 := by
  induction h with
  | nil => intro rs _; exact ⟨rfl, trivial⟩
  | cons e rest ih =>
    obtain ⟨op, ro⟩ := e
    intro rs hI
    obtain ⟨hs1, hs2⟩ := rstep_shard lower cv cfg env rs op ro
    obtain ⟨k1, k2, k3⟩ := C01.C01_step cfg rs.base.shard op { ro.o with indexOk := fullVerdict lower cv cfg env rs op ro.o } hI
    rw [← hs1] at k1 k2
    rw [← hs2] at k3
    obtain ⟨j1, j2⟩ := ih _ k1
    simp only [RState.run, rspecHist, C01.Coll.run]
    rw [k2] at j1 j2
    exact ⟨j1, k3, j2⟩

/-- the schema (filter entries, vectorFlat paths, text paths) never changes -/
theorem rstep_schema (lower : Bytes → Bytes) (cv : Conv) (cfg : C01.Cfg) (env : Env V T D S W) (rs : RState V T)
    (op : C01.Op) (ro : ROracle T) :
    (rs.step lower cv cfg env op ro).1.base.schema = rs.base.schema ∧
    (rs.step lower cv cfg env op ro).1.flatPaths = rs.flatPaths ∧
    (rs.step lower cv cfg env op ro).1.textPaths = rs.textPaths := by
  rcases rstep_cases lower cv cfg env rs op ro with ⟨_, h⟩ | ⟨_, _, h⟩ | ⟨_, _, h⟩
  · rw [h]; exact ⟨rfl, rfl, rfl⟩
  · rw [h]; exact ⟨rfl, rfl, rfl⟩
  · rw [h]
    refine ⟨step_schema lower cv cfg rs.base op ro.o, ?_, ?_⟩
    · simp only [RState.flatPaths, List.map_map]
      apply List.map_congr_left
      intro fx _; exact FlatIx.step_path env _ fx
    · simp only [RState.textPaths, List.map_map]
      apply List.map_congr_left
      intro tx _; rfl

theorem rrun_schema (lower : Bytes → Bytes) (cv : Conv) (cfg : C01.Cfg) (env : Env V T D S W) (h : List (C01.Op × ROracle T)) :
    ∀ (rs : RState V T),
    (RState.run lower cv cfg env rs h).1.base.schema = rs.base.schema ∧
    (RState.run lower cv cfg env rs h).1.flatPaths = rs.flatPaths ∧
    (RState.run lower cv cfg env rs h).1.textPaths = rs.textPaths := by
  induction h with
  | nil => intro rs; exact ⟨rfl, rfl, rfl⟩
  | cons e rest ih =>
    obtain ⟨op, ro⟩ := e
    intro rs
    simp only [RState.run]
    obtain ⟨a1, a2, a3⟩ := ih (rs.step lower cv cfg env op ro).1
    obtain ⟨b1, b2, b3⟩ := rstep_schema lower cv cfg env rs op ro
    exact ⟨a1.trans b1, a2.trans b2, a3.trans b3⟩

theorem rinit_schema (schema : List (List String × C02.Kind)) (bolt : Bool) (fpaths tpaths : List (List String)) :
    (RState.init schema bolt fpaths tpaths : RState V T).base.schema = schema ∧
    (RState.init schema bolt fpaths tpaths : RState V T).flatPaths = fpaths ∧
    (RState.init schema bolt fpaths tpaths : RState V T).textPaths = tpaths := by
  refine ⟨init_schema schema bolt, ?_, ?_⟩ <;> simp [RState.init, RState.flatPaths, RState.textPaths, List.map_map, Function.comp_def]

end write


/-! ### read side: the pre-filter -/

section read

theorem uuidAt_of {p : Points} {n : Nat} {u : Uuid} (h : C01.AL.get p.nI n = some u) : uuidAt p n = u := by
  simp [uuidAt, h]

theorem abs_get_live {p : Points} (hp : PInv p) {n : Nat} {u : Uuid} (h : C01.AL.get p.nI n = some u) :
    C01.AL.get (C01.absP p) u = some (C01.AL.get p.nD n) := by
  simp only [C01.get_absP, (hp.bij u n).mpr h, Option.map_some]

/-- a uuid the reference map knows is live under exactly one node id, and that id is small -/
theorem abs_get_some {lower : Bytes → Bytes} {cv : Conv} {st : State} (hI : Inv lower cv st) {u : Uuid} {doc : Data}
    (h : C01.AL.get (C01.abs st.shard) u = some doc) :
    ∃ n, C01.AL.get st.shard.pts.nI n = some u ∧ n < idBound ∧ doc = C01.AL.get st.shard.pts.nD n := by
  simp only [C01.abs, C01.get_absP] at h
  cases hg : C01.AL.get st.shard.pts.pI u with
  | none => rw [hg] at h; cases h
  | some n =>
    rw [hg] at h
    simp only [Option.map_some, Option.some.injEq] at h
    have hn := (hI.store.pts.bij u n).mp hg
    exact ⟨n, hn, hI.liveBound n u hn, h.symm⟩

/-- the pre-filter test of a ranking index on a live node id is the filter tree evaluated on the
point's DOCUMENT (C02_tree + the bridge of Lemmas.lean) -/
theorem pass_iff {lower : Bytes → Bytes} {cv : Conv} {st : State} (hI : Inv lower cv st) (f : Option C02.Query)
    (hwf : filterWf (st.view cv) f = true) (hv : ∀ q, f = some q → q.Valid) {i : C02.Id} {u : Uuid}
    (hl : C01.AL.get st.shard.pts.nI i.toNat = some u) :
    passOf lower (st.view cv) f i = true ↔ ∀ q, f = some q → docSat lower st.schema q u (docAt cv st.shard.pts i) := by
  cases f with
  | none => simp [passOf]
  | some q =>
    have h1 := C02.C02_tree lower (view_inv hI) q hwf (hv q rfl) i
    have h2 := sat_iff hI hl q
    simp only [passOf, List.contains_iff_mem, Option.some.injEq, forall_eq']
    rw [h1, h2]

/-! ### SPEC: exact answers of the ranking leaves on the reference map, up to ties -/

section flat
variable [LinearOrder D]

/-- `A` (uuid, distance — in answer order) is an exact `limit`-nearest-neighbour answer of the vector query
on the reference map: candidates only, each once, nearest first, at most `limit`, and a candidate is left
out only when `limit` rows are returned and none of them is farther -/
structure IsFlatAnswer (lower : Bytes → Bytes) (cv : Conv) (env : Env V T D S W) (schema : List (List String × C02.Kind))
    (coll : C01.Coll) (path : List String) (qv : V) (limit : Nat) (f : Option C02.Query) (A : List (Uuid × D)) : Prop where
  nodup : (A.map (·.1)).Nodup
  cand : ∀ a ∈ A, FlatCand lower cv env schema coll path qv f a.1 a.2
  sorted : A.Pairwise (fun a b => a.2 ≤ b.2)
  short : A.length ≤ limit
  complete : ∀ u d, FlatCand lower cv env schema coll path qv f u d → u ∉ A.map (·.1) →
    A.length = limit ∧ ∀ a ∈ A, a.2 ≤ d

theorem vecAt_none (env : Env V T D S W) (path : List String) : vecAt env path none = none := by
  simp [vecAt, C02.getProp]

theorem find?_path {α : Type} (pathOf : α → List String) {l : List α} {path : List String} {x : α}
    (h : l.find? (fun y => pathOf y == path) = some x) : x ∈ l ∧ pathOf x = path := by
  refine ⟨List.mem_of_find?_eq_some h, ?_⟩
  have := List.find?_some h
  exact eq_of_beq this

/-- **the flat leaf.** In a state satisfying the invariant, `flat.Search` — for ANY enumeration order of the
store — returns live node ids, each once, and read as (uuid, distance) its answer is an exact
`limit`-nearest-neighbour answer on the reference map. -/
theorem flat_leaf_ref {lower : Bytes → Bytes} {cv : Conv} {env : Env V T D S W} {rs : RState V T} [DecidableEq T]
    (hR : RInv lower cv env rs) (orc : SOracle V T S) {path : List String} {fx : FlatIx V} (hfx : rs.flat path = some fx)
    (qv : V) (limit : Nat) (f : Option C02.Query)
    (hfw : filterWf (rs.base.view cv) f = true) (hfv : ∀ q, f = some q → q.Valid)
    (henum : (orc.enum fx.store).Perm fx.store) :
    ((flatSearch lower cv env orc rs fx qv limit f).map (·.id.toNat)).Nodup ∧
    (∀ r ∈ flatSearch lower cv env orc rs fx qv limit f, ∃ u, C01.AL.get rs.base.shard.pts.nI r.id.toNat = some u) ∧
    IsFlatAnswer lower cv env rs.base.schema (C01.abs rs.base.shard) path qv limit f
      ((flatSearch lower cv env orc rs fx qv limit f).map fun r => (uuidAt rs.base.shard.pts r.id.toNat, r.d)) := by
  have hI := hR.base
  have hp := hI.store.pts
  obtain ⟨hmem, hpath⟩ := find?_path (fun fx : FlatIx V => fx.path) hfx
  obtain ⟨hkn, hg⟩ := hR.flat fx hmem
  rw [hpath] at hg
  generalize hE : orc.enum fx.store = E at henum
  have hEn : (E.map (·.1)).Nodup := (henum.map (fun e : C04.Id × V => e.1)).nodup_iff.2 hkn
  have hEm : ∀ i v, (i, v) ∈ E ↔ vecAt env path (docAt cv rs.base.shard.pts i) = some v := by
    intro i v
    rw [henum.mem_iff, ← hg]
    exact ⟨C01.AL.get_of_mem hkn, C01.AL.mem_of_get⟩
  have hlive : ∀ i v, (i, v) ∈ E → ∃ u, C01.AL.get rs.base.shard.pts.nI i.toNat = some u := by
    intro i v hiv
    have h1 := (hEm i v).1 hiv
    cases hd : C01.AL.get rs.base.shard.pts.nD i.toNat with
    | none =>
      have : docAt cv rs.base.shard.pts i = none := by simp [docAt, hd]
      rw [this, vecAt_none] at h1; cases h1
    | some d =>
      have := hp.nD_live i.toNat (by rw [hd]; rfl)
      cases hn : C01.AL.get rs.base.shard.pts.nI i.toNat with
      | none => rw [hn] at this; cases this
      | some u => exact ⟨u, rfl⟩
  -- candidates of the enumeration = candidates of the reference map
  have hcand_of : ∀ i v u, (i, v) ∈ E → passOf lower (rs.base.view cv) f i = true →
      C01.AL.get rs.base.shard.pts.nI i.toNat = some u →
      FlatCand lower cv env rs.base.schema (C01.abs rs.base.shard) path qv f u (env.dist qv v) := by
    intro i v u hiv hps hl
    exact ⟨C01.AL.get rs.base.shard.pts.nD i.toNat, v, abs_get_live hp hl, (hEm i v).1 hiv, rfl,
      (pass_iff hI f hfw hfv hl).1 hps⟩
  have hof_cand : ∀ u d, FlatCand lower cv env rs.base.schema (C01.abs rs.base.shard) path qv f u d →
      ∃ i v, C01.AL.get rs.base.shard.pts.nI i.toNat = some u ∧ (i, v) ∈ E ∧
        passOf lower (rs.base.view cv) f i = true ∧ d = env.dist qv v := by
    rintro u d ⟨doc, v, hget, hvec, hd, hsat⟩
    obtain ⟨n, hn, hlt, rfl⟩ := abs_get_some hI hget
    have hl : C01.AL.get rs.base.shard.pts.nI (nid n).toNat = some u := by rw [nid_toNat hlt]; exact hn
    have hdoc : docAt cv rs.base.shard.pts (nid n) = idxData cv (C01.AL.get rs.base.shard.pts.nD n) := docAt_nid cv _ hlt
    refine ⟨nid n, v, hl, (hEm _ _).2 (by rw [hdoc]; exact hvec), (pass_iff hI f hfw hfv hl).2 ?_, hd⟩
    rw [hdoc]; exact hsat
  -- C04 on this enumeration
  have hknn := C04.search_isKNN .ge limit (passOf lower (rs.base.view cv) f) (env.dist qv) E
  have hres : flatSearch lower cv env orc rs fx qv limit f =
      C04.search .ge limit (passOf lower (rs.base.view cv) f) (env.dist qv) E := by
    unfold flatSearch; rw [hE]
  rw [hres]
  generalize C04.search .ge limit (passOf lower (rs.base.view cv) f) (env.dist qv) E = res at hknn
  have hrc : ∀ r ∈ res, ∃ it, it ∈ E ∧ passOf lower (rs.base.view cv) f it.1 = true ∧ r = ⟨it.1, env.dist qv it.2⟩ := by
    intro r hr
    have := hknn.mem_cands hr
    simp only [C04.candsOf, List.mem_map, List.mem_filter] at this
    obtain ⟨it, ⟨h1, h2⟩, rfl⟩ := this
    exact ⟨it, h1, h2, rfl⟩
  have hrlive : ∀ r ∈ res, ∃ u, C01.AL.get rs.base.shard.pts.nI r.id.toNat = some u := by
    intro r hr
    obtain ⟨it, hit, _, rfl⟩ := hrc r hr
    exact hlive it.1 it.2 hit
  have hidnd : (res.map (·.id)).Nodup := by
    obtain ⟨dropped, hperm, _⟩ := hknn.split
    have hc : ((C04.candsOf (passOf lower (rs.base.view cv) f) (env.dist qv) E).map (·.id)).Nodup := by
      have : (C04.candsOf (passOf lower (rs.base.view cv) f) (env.dist qv) E).map (·.id) =
          (E.filter fun it => passOf lower (rs.base.view cv) f it.1).map (·.1) := by
        simp [C04.candsOf, List.map_map, Function.comp_def]
      rw [this]
      exact (List.Sublist.map _ List.filter_sublist).nodup hEn
    have := (hperm.map (·.id)).nodup_iff.1 hc
    rw [List.map_append] at this
    exact (List.nodup_append.1 this).1
  have hnatnd : (res.map (·.id.toNat)).Nodup := by
    have : res.map (·.id.toNat) = (res.map (·.id)).map (·.toNat) := by simp [List.map_map, Function.comp_def]
    rw [this]
    exact C01.nodup_map_of_inj_on _ _ hidnd (fun a _ b _ h => BitVec.eq_of_toNat_eq h)
  refine ⟨hnatnd, hrlive, ?_, ?_, ?_, ?_, ?_⟩
  · -- one row per uuid
    have : (res.map fun r => (uuidAt rs.base.shard.pts r.id.toNat, r.d)).map (·.1) =
        (res.map (·.id.toNat)).map (uuidAt rs.base.shard.pts) := by simp [List.map_map, Function.comp_def]
    rw [this]
    apply C01.nodup_map_of_inj_on _ _ hnatnd
    intro a ha b hb hab
    obtain ⟨ra, hra, rfl⟩ := List.mem_map.1 ha
    obtain ⟨rb, hrb, rfl⟩ := List.mem_map.1 hb
    obtain ⟨ua, hua⟩ := hrlive ra hra
    obtain ⟨ub, hub⟩ := hrlive rb hrb
    rw [uuidAt_of hua, uuidAt_of hub] at hab
    subst hab
    have k1 := (hp.bij _ _).mpr hua
    have k2 := (hp.bij _ _).mpr hub
    rw [k1] at k2; exact Option.some.inj k2
  · -- candidates only
    intro a ha
    obtain ⟨r, hr, rfl⟩ := List.mem_map.1 ha
    obtain ⟨it, hit, hps, rfl⟩ := hrc r hr
    obtain ⟨u, hu⟩ := hlive it.1 it.2 hit
    show FlatCand lower cv env rs.base.schema (C01.abs rs.base.shard) path qv f (uuidAt rs.base.shard.pts it.1.toNat) (env.dist qv it.2)
    rw [uuidAt_of hu]
    exact hcand_of it.1 it.2 u hit hps hu
  · rw [List.pairwise_map]; exact hknn.sorted
  · rw [List.length_map, hknn.length]; exact Nat.min_le_left _ _
  · intro u d hc hnot
    obtain ⟨i, v, hl, hiv, hps, rfl⟩ := hof_cand u d hc
    obtain ⟨dropped, hperm, hdrop⟩ := hknn.split
    have hcm : (⟨i, env.dist qv v⟩ : C04.Res D) ∈ C04.candsOf (passOf lower (rs.base.view cv) f) (env.dist qv) E := by
      simp only [C04.candsOf, List.mem_map, List.mem_filter]
      exact ⟨(i, v), ⟨hiv, hps⟩, rfl⟩
    rcases List.mem_append.1 (hperm.mem_iff.1 hcm) with h1 | h1
    · exfalso; apply hnot
      refine List.mem_map.2 ⟨(uuidAt rs.base.shard.pts i.toNat, env.dist qv v), List.mem_map.2 ⟨_, h1, rfl⟩, ?_⟩
      exact uuidAt_of hl
    · have hlen := hperm.length_eq
      rw [List.length_append] at hlen
      have hpos : 0 < dropped.length := List.length_pos_of_mem h1
      have hmin := hknn.length
      refine ⟨by rw [List.length_map]; omega, ?_⟩
      intro a ha
      obtain ⟨r, hr, rfl⟩ := List.mem_map.1 ha
      exact hdrop r hr _ h1

end flat

section textleaf
variable [DecidableEq T]

/-- `A` (uuid, score — in answer order) is an exact answer of the text query on the reference map: matching
documents only, each once, best score first, at most `limit`, every score the tf-idf formula over the
CURRENT reference map, and a matching document is left out only when `limit` rows are returned and none of
them scores lower -/
structure IsTextAnswer (lower : Bytes → Bytes) (cv : Conv) (env : Env V T D S W) (schema : List (List String × C02.Kind))
    (coll : C01.Coll) (path : List String) (terms : List T) (all : Bool) (limit : Nat) (f : Option C02.Query)
    (le : S → S → Prop) (A : List (Uuid × S)) : Prop where
  nodup : (A.map (·.1)).Nodup
  matching : ∀ a ∈ A, TextMatch lower cv env schema coll path terms all f a.1
  score : ∀ a ∈ A, a.2 = refScore cv env path coll (C05.dedup terms) a.1
  sorted : A.Pairwise (fun a b => le b.2 a.2)
  short : A.length ≤ limit
  complete : ∀ u, TextMatch lower cv env schema coll path terms all f u → u ∉ A.map (·.1) →
    A.length = limit ∧ ∀ a ∈ A, le (refScore cv env path coll (C05.dedup terms) u) a.2

theorem refN_eq (cv : Conv) (env : Env V T D S W) (path : List String) {p : Points} (hp : PInv p) :
    C05.specNumDocs (refCorpus cv env path p.pI (C01.absP p)) = refN cv env path (C01.absP p) := by
  unfold C05.specNumDocs refN
  rw [refCorpus_eq, length_mkCorpus]
  show _ = (List.filter _ (p.pI.map fun e => (e.1, C01.AL.get p.nD e.2))).length
  rw [List.filter_map, List.length_map]
  congr 1
  apply List.filter_congr
  intro e he
  simp only [Function.comp_def]
  rw [refToks_abs cv env path (hp.mem_pI he)]

theorem refDf_eq (cv : Conv) (env : Env V T D S W) (path : List String) {p : Points} (hp : PInv p) (t : T) :
    C05.specDf (refCorpus cv env path p.pI (C01.absP p)) t = refDf cv env path (C01.absP p) t := by
  unfold C05.specDf refDf
  rw [refCorpus_eq, df_mkCorpus]
  show _ = (List.filter _ (p.pI.map fun e => (e.1, C01.AL.get p.nD e.2))).length
  rw [List.filter_map, List.length_map]
  congr 1
  apply List.filter_congr
  intro e he
  simp only [Function.comp_def]
  rw [refToks_abs cv env path (hp.mem_pI he)]

/-- C05's score over the corpus = the formula read off the reference map -/
theorem specScore_ref (cv : Conv) (env : Env V T D S W) (path : List String) {p : Points} (hp : PInv p) {u : Uuid} {n : Nat}
    (hl : C01.AL.get p.nI n = some u) (ts : List T) :
    C05.specScore env.ops (refCorpus cv env path p.pI (C01.absP p)) ts n = refScore cv env path (C01.absP p) ts u := by
  have hpu := (hp.bij u n).mpr hl
  have hget : (refCorpus cv env path p.pI (C01.absP p)).get n = refToks cv env path (C01.absP p) u := by
    rw [refCorpus_get cv env path hp, refToks_abs cv env path hpu]
  unfold C05.specScore refScore
  simp only [hget, refN_eq cv env path hp, refDf_eq cv env path hp]

/-- C05's match condition on the corpus = the documented one on the reference map -/
theorem matches_iff {lower : Bytes → Bytes} {cv : Conv} {st : State} (hI : Inv lower cv st) (env : Env V T D S W)
    (path : List String) (terms : List T) (all : Bool) (limit : Nat) (f : Option C02.Query)
    (hfw : filterWf (st.view cv) f = true) (hfv : ∀ q, f = some q → q.Valid) (n : Nat) :
    C05.Matches (refCorpus cv env path st.shard.pts.pI (C01.abs st.shard))
        ⟨terms, all, preFilter lower (st.view cv) f, limit⟩ n ↔
      ∃ u, C01.AL.get st.shard.pts.nI n = some u ∧
        TextMatch lower cv env st.schema (C01.abs st.shard) path terms all f u := by
  have hp := hI.store.pts
  have hget : (refCorpus cv env path st.shard.pts.pI (C01.abs st.shard)).get n =
      toksAt env path (idxData cv (C01.AL.get st.shard.pts.nD n)) := refCorpus_get cv env path hp n
  have href : ∀ u, C01.AL.get st.shard.pts.nI n = some u →
      refToks cv env path (C01.abs st.shard) u = toksAt env path (idxData cv (C01.AL.get st.shard.pts.nD n)) :=
    fun u hl => refToks_abs cv env path ((hp.bij u n).mpr hl)
  unfold C05.Matches TextMatch
  simp only [hget]
  constructor
  · rintro ⟨h1, h2, h3, h4⟩
    have hlive : ∃ u, C01.AL.get st.shard.pts.nI n = some u := by
      cases hd : C01.AL.get st.shard.pts.nD n with
      | none => rw [hd] at h2; simp [idxData, toksAt_none] at h2
      | some d =>
        have := hp.nD_live n (by rw [hd]; rfl)
        cases hn : C01.AL.get st.shard.pts.nI n with
        | none => rw [hn] at this; cases this
        | some u => exact ⟨u, rfl⟩
    obtain ⟨u, hl⟩ := hlive
    refine ⟨u, hl, h1, by rw [href u hl]; exact h2, by rw [href u hl]; exact h3, ?_⟩
    rintro q rfl
    have hmem := h4 _ rfl
    obtain ⟨i, hi, hin⟩ := List.mem_map.1 hmem
    have hl' : C01.AL.get st.shard.pts.nI i.toNat = some u := by rw [hin]; exact hl
    have h5 := (C02.C02_tree lower (view_inv hI) q hfw (hfv q rfl) i).1 hi
    have h6 := (sat_iff hI hl' q).1 h5
    refine ⟨C01.AL.get st.shard.pts.nD n, abs_get_live hp hl, ?_⟩
    have : docAt cv st.shard.pts i = idxData cv (C01.AL.get st.shard.pts.nD n) := by
      unfold docAt idxData; rw [hin]
    rw [← this]; exact h6
  · rintro ⟨u, hl, h1, h2, h3, h4⟩
    rw [href u hl] at h2 h3
    refine ⟨h1, h2, h3, ?_⟩
    intro fl hfl
    cases f with
    | none => simp [preFilter] at hfl
    | some q =>
      simp only [preFilter, Option.map_some, Option.some.injEq] at hfl
      subst hfl
      obtain ⟨doc, hdoc, hsat⟩ := h4 q rfl
      have hdoc2 : C01.AL.get (C01.abs st.shard) u = some (C01.AL.get st.shard.pts.nD n) := abs_get_live hp hl
      rw [hdoc2] at hdoc
      have hdoc' := Option.some.inj hdoc
      have hlt := hI.liveBound n u hl
      have hl' : C01.AL.get st.shard.pts.nI (nid n).toNat = some u := by rw [nid_toNat hlt]; exact hl
      have h6 : docSat lower st.schema q u (docAt cv st.shard.pts (nid n)) := by
        rw [docAt_nid cv _ hlt, hdoc']; exact hsat
      have h5 := (sat_iff hI hl' q).2 h6
      have hi := (C02.C02_tree lower (view_inv hI) q hfw (hfv q rfl) (nid n)).2 h5
      exact List.mem_map.2 ⟨nid n, hi, nid_toNat hlt⟩

/-- **the text leaf.** In a state satisfying the invariant, `indexText.Search` succeeds, returns live node
ids, each once, hybrid score = weight · score, and read as (uuid, score) its answer is an exact answer on
the reference map. -/
theorem text_leaf_ref {lower : Bytes → Bytes} {cv : Conv} {env : Env V T D S W} {rs : RState V T}
    (hR : RInv lower cv env rs) (orc : SOracle V T S) (le : S → S → Prop)
    (add_comm : ∀ a b, env.ops.add a b = env.ops.add b a)
    (add_assoc : ∀ a b c, env.ops.add (env.ops.add a b) c = env.ops.add a (env.ops.add b c))
    (htperm : ∀ l, (orc.tsort l).Perm l) (htsorted : ∀ l, (orc.tsort l).Pairwise (fun a b => le b.score a.score))
    (htord : ∀ id l, (orc.tord id l).Perm l)
    {path : List String} {tx : TextIx T} (htx : rs.text path = some tx)
    (terms : List T) (all : Bool) (limit : Nat) (w : W) (f : Option C02.Query)
    (hfw : filterWf (rs.base.view cv) f = true) (hfv : ∀ q, f = some q → q.Valid) :
    ∃ set res, textSearch lower cv env orc rs tx terms all limit w f = some (set, res) ∧
      (∀ n, n ∈ set ↔ n ∈ res.map (·.id)) ∧ (res.map (·.id)).Nodup ∧
      (∀ r ∈ res, ∃ u, C01.AL.get rs.base.shard.pts.nI r.id = some u) ∧
      (∀ r ∈ res, r.hybrid = env.ops.scale w r.score) ∧
      IsTextAnswer lower cv env rs.base.schema (C01.abs rs.base.shard) path terms all limit f le
        (res.map fun r => (uuidAt rs.base.shard.pts r.id, r.score)) := by
  have hI := hR.base
  have hp := hI.store.pts
  obtain ⟨hmem, hpath⟩ := find?_path (fun tx : TextIx T => tx.path) htx
  have hinv := hR.text tx hmem
  rw [hpath] at hinv
  obtain ⟨set, res, hs, hset, hnd, hmatch, hshort, hcomplete, hsorted, hscore⟩ :=
    C05.C05_match env.ops le add_comm add_assoc orc.tsort htperm htsorted hinv
      ⟨terms, all, preFilter lower (rs.base.view cv) f, limit⟩ w (fun id => orc.tord id (C05.dedup terms))
      (fun id => htord id _)
  have hmi := matches_iff hI env path terms all limit f hfw hfv
  have hrlive : ∀ r ∈ res, ∃ u, C01.AL.get rs.base.shard.pts.nI r.id = some u ∧
      TextMatch lower cv env rs.base.schema (C01.abs rs.base.shard) path terms all f u :=
    fun r hr => (hmi r.id).1 (hmatch r hr)
  refine ⟨set, res, hs, hset, hnd, fun r hr => (hrlive r hr).imp fun u h => h.1, fun r hr => (hscore r hr).2, ?_, ?_, ?_, ?_, ?_, ?_⟩
  · have : (res.map fun r => (uuidAt rs.base.shard.pts r.id, r.score)).map (·.1) =
        (res.map (·.id)).map (uuidAt rs.base.shard.pts) := by simp [List.map_map, Function.comp_def]
    rw [this]
    apply C01.nodup_map_of_inj_on _ _ hnd
    intro a ha b hb hab
    obtain ⟨ra, hra, rfl⟩ := List.mem_map.1 ha
    obtain ⟨rb, hrb, rfl⟩ := List.mem_map.1 hb
    obtain ⟨ua, hua, _⟩ := hrlive ra hra
    obtain ⟨ub, hub, _⟩ := hrlive rb hrb
    rw [uuidAt_of hua, uuidAt_of hub] at hab
    subst hab
    have k1 := (hp.bij _ _).mpr hua
    have k2 := (hp.bij _ _).mpr hub
    rw [k1] at k2; exact Option.some.inj k2
  · intro a ha
    obtain ⟨r, hr, rfl⟩ := List.mem_map.1 ha
    obtain ⟨u, hu, hm⟩ := hrlive r hr
    show TextMatch lower cv env rs.base.schema (C01.abs rs.base.shard) path terms all f (uuidAt rs.base.shard.pts r.id)
    rw [uuidAt_of hu]; exact hm
  · intro a ha
    obtain ⟨r, hr, rfl⟩ := List.mem_map.1 ha
    obtain ⟨u, hu, _⟩ := hrlive r hr
    show r.score = refScore cv env path (C01.abs rs.base.shard) (C05.dedup terms) (uuidAt rs.base.shard.pts r.id)
    rw [uuidAt_of hu, (hscore r hr).1]
    exact specScore_ref cv env path hp hu _
  · rw [List.pairwise_map]; exact hsorted
  · rw [List.length_map]; exact hshort
  · intro u hm hnot
    obtain ⟨doc, hdoc, _⟩ : ∃ doc, C01.AL.get (C01.abs rs.base.shard) u = some doc ∧ True := by
      have h2 := hm.2.1
      unfold refToks at h2
      cases hg : C01.AL.get (C01.abs rs.base.shard) u with
      | none => rw [hg] at h2; exact absurd rfl h2
      | some doc => exact ⟨doc, rfl, trivial⟩
    obtain ⟨n, hn, _, _⟩ := abs_get_some hI hdoc
    have hmn := (hmi n).2 ⟨u, hn, hm⟩
    have hnotn : n ∉ res.map (·.id) := by
      intro hin
      obtain ⟨r, hr, hrn⟩ := List.mem_map.1 hin
      apply hnot
      refine List.mem_map.2 ⟨(uuidAt rs.base.shard.pts r.id, r.score), List.mem_map.2 ⟨r, hr, rfl⟩, ?_⟩
      show uuidAt rs.base.shard.pts r.id = u
      rw [hrn]; exact uuidAt_of hn
    obtain ⟨h1, h2⟩ := hcomplete n hmn hnotn
    refine ⟨by rw [List.length_map]; exact h1, ?_⟩
    intro a ha
    obtain ⟨r, hr, rfl⟩ := List.mem_map.1 ha
    have e : C05.specScore env.ops (refCorpus cv env path rs.base.shard.pts.pI (C01.abs rs.base.shard)) (C05.dedup terms) n =
        refScore cv env path (C01.abs rs.base.shard) (C05.dedup terms) u := specScore_ref cv env path hp hn _
    have this' : le (C05.specScore env.ops (refCorpus cv env path rs.base.shard.pts.pI (C01.abs rs.base.shard)) (C05.dedup terms) n)
        r.score := h2 r hr
    rw [e] at this'
    exact this'

end textleaf

/-! ### query trees -/

mutual
/-- a property of every leaf of a query tree -/
def RQuery.allLeaves (P : RLeaf V T W → Prop) : RQuery V T W → Prop
  | .leaf l => P l
  | .and qs => RQList.allLeaves P qs
  | .or qs => RQList.allLeaves P qs
def RQList.allLeaves (P : RLeaf V T W → Prop) : RQList V T W → Prop
  | .nil => True
  | .cons q qs => q.allLeaves P ∧ qs.allLeaves P
end

/-- no NaN among the values of the filter leaves and of the pre-filters (C02's exclusion) -/
def RLeaf.Valid : RLeaf V T W → Prop
  | .filt l => l.Valid
  | .flat _ _ _ _ f => ∀ q, f = some q → q.Valid
  | .text _ _ _ _ _ f => ∀ q, f = some q → q.Valid

def RQuery.Valid (q : RQuery V T W) : Prop := q.allLeaves RLeaf.Valid

mutual
theorem allLeaves_imp {P Q : RLeaf V T W → Prop} (h : ∀ l, P l → Q l) : ∀ (q : RQuery V T W), q.allLeaves P → q.allLeaves Q
  | .leaf l => by simp only [RQuery.allLeaves]; exact h l
  | .and qs => by simp only [RQuery.allLeaves]; exact allLeavesL_imp h qs
  | .or qs => by simp only [RQuery.allLeaves]; exact allLeavesL_imp h qs
theorem allLeavesL_imp {P Q : RLeaf V T W → Prop} (h : ∀ l, P l → Q l) : ∀ (qs : RQList V T W), qs.allLeaves P → qs.allLeaves Q
  | .nil => by simp [RQList.allLeaves]
  | .cons q qs => by
    simp only [RQList.allLeaves]
    exact fun ⟨a, b⟩ => ⟨allLeaves_imp h q a, allLeavesL_imp h qs b⟩
end

mutual
theorem allLeaves_and {P Q : RLeaf V T W → Prop} : ∀ (q : RQuery V T W), q.allLeaves P → q.allLeaves Q →
    q.allLeaves (fun l => P l ∧ Q l)
  | .leaf l => by simp only [RQuery.allLeaves]; exact fun a b => ⟨a, b⟩
  | .and qs => by simp only [RQuery.allLeaves]; exact allLeavesL_and qs
  | .or qs => by simp only [RQuery.allLeaves]; exact allLeavesL_and qs
theorem allLeavesL_and {P Q : RLeaf V T W → Prop} : ∀ (qs : RQList V T W), qs.allLeaves P → qs.allLeaves Q →
    qs.allLeaves (fun l => P l ∧ Q l)
  | .nil => by simp [RQList.allLeaves]
  | .cons q qs => by
    simp only [RQList.allLeaves]
    exact fun ⟨a, b⟩ ⟨c, d⟩ => ⟨allLeaves_and q a c, allLeavesL_and qs b d⟩
end

mutual
theorem allLeaves_of_wf (rs : RState V T) (cv : Conv) : ∀ (q : RQuery V T W), q.wf rs cv = true →
    q.allLeaves (fun l => l.wf rs cv = true)
  | .leaf l => by simp only [RQuery.wf, RQuery.allLeaves]; exact id
  | .and qs => by
    simp only [RQuery.wf, RQuery.allLeaves, Bool.and_eq_true]
    exact fun h => allLeavesL_of_wf rs cv qs h.2
  | .or qs => by
    simp only [RQuery.wf, RQuery.allLeaves, Bool.and_eq_true]
    exact fun h => allLeavesL_of_wf rs cv qs h.2
theorem allLeavesL_of_wf (rs : RState V T) (cv : Conv) : ∀ (qs : RQList V T W), qs.wf rs cv = true →
    qs.allLeaves (fun l => l.wf rs cv = true)
  | .nil => by simp [RQList.allLeaves]
  | .cons q qs => by
    simp only [RQList.wf, RQList.allLeaves, Bool.and_eq_true]
    exact fun h => ⟨allLeaves_of_wf rs cv q h.1, allLeavesL_of_wf rs cv qs h.2⟩
end

section tree
variable [DecidableEq T] [LT D] [DecidableLT D]
variable (lower : Bytes → Bytes) (cv : Conv) (env : Env V T D S W) (orc : SOracle V T S) (rs : RState V T)

/-- what the answer pipeline needs of a leaf answer: ranked ids are in the id set, each once, and every
returned node id is live -/
def LeafGood (sr : C06.SubResult S) : Prop :=
  (∀ x ∈ sr.res, x.id ∈ sr.set) ∧ (sr.res.map (·.id)).Nodup ∧
  ∀ n ∈ sr.set, ∃ u, C01.AL.get rs.base.shard.pts.nI n = some u

mutual
theorem noErr_of_leaves : ∀ (q : RQuery V T W), q.allLeaves (fun l => l.noErr lower cv env orc rs = true) →
    q.noErr lower cv env orc rs = true
  | .leaf l => by simp only [RQuery.allLeaves, RQuery.noErr]; exact id
  | .and qs => by simp only [RQuery.allLeaves, RQuery.noErr]; exact noErrL_of_leaves qs
  | .or qs => by simp only [RQuery.allLeaves, RQuery.noErr]; exact noErrL_of_leaves qs
theorem noErrL_of_leaves : ∀ (qs : RQList V T W), qs.allLeaves (fun l => l.noErr lower cv env orc rs = true) →
    qs.noErr lower cv env orc rs = true
  | .nil => by simp [RQList.noErr]
  | .cons q qs => by
    simp only [RQList.allLeaves, RQList.noErr, Bool.and_eq_true]
    exact fun ⟨a, b⟩ => ⟨noErr_of_leaves q a, noErrL_of_leaves qs b⟩
end

mutual
theorem tree_good : ∀ (q : RQuery V T W), q.allLeaves (fun l => LeafGood rs (evalRLeaf lower cv env orc rs l)) →
    C06.leavesWF (rtree lower cv env orc rs q) ∧
    ∀ n, C06.inSetB (rtree lower cv env orc rs q) n = true → ∃ u, C01.AL.get rs.base.shard.pts.nI n = some u
  | .leaf l => by
    simp only [RQuery.allLeaves, rtree, C06.leavesWF, C06.inSetB, decide_eq_true_eq]
    exact fun ⟨a, b, c⟩ => ⟨⟨a, b⟩, c⟩
  | .and qs => by
    simp only [RQuery.allLeaves, rtree, C06.leavesWF, C06.inSetB, Bool.false_eq_true, if_false, Bool.and_eq_true,
      Bool.not_eq_true']
    intro h
    obtain ⟨a, _, c⟩ := forest_good qs h
    exact ⟨a, fun n hn => c n hn.1 hn.2⟩
  | .or qs => by
    simp only [RQuery.allLeaves, rtree, C06.leavesWF, C06.inSetB, if_true]
    intro h
    obtain ⟨a, b, _⟩ := forest_good qs h
    exact ⟨a, b⟩
theorem forest_good : ∀ (qs : RQList V T W), qs.allLeaves (fun l => LeafGood rs (evalRLeaf lower cv env orc rs l)) →
    C06.forestWF (rforest lower cv env orc rs qs) ∧
    (∀ n, C06.anySetB (rforest lower cv env orc rs qs) n = true → ∃ u, C01.AL.get rs.base.shard.pts.nI n = some u) ∧
    (∀ n, (rforest lower cv env orc rs qs).isNil = false → C06.allSetB (rforest lower cv env orc rs qs) n = true →
      ∃ u, C01.AL.get rs.base.shard.pts.nI n = some u)
  | .nil => by simp [rforest, C06.forestWF, C06.anySetB, C06.QForest.isNil]
  | .cons q qs => by
    simp only [RQList.allLeaves, rforest, C06.forestWF, C06.anySetB, C06.allSetB, Bool.or_eq_true, Bool.and_eq_true]
    rintro ⟨h1, h2⟩
    obtain ⟨a1, b1⟩ := tree_good q h1
    obtain ⟨a2, b2, _⟩ := forest_good qs h2
    exact ⟨⟨a1, a2⟩, fun n hn => hn.elim (b1 n) (b2 n), fun n _ hn => b1 n hn.1⟩
end

end tree

/-! ### the whole of `SearchPoints` on a query tree with ranking leaves -/

/-- every run-time choice the code leaves open is a legitimate one: enumerations and traversals are
permutations, every sort returns a sorted permutation (`slices.SortFunc` is unstable; insertion sort is an
instance) -/
structure SOracle.OK (le : S → S → Prop) (sortOpts : List C06.SortOpt) (orc : SOracle V T S) : Prop where
  enum_perm : ∀ l, (orc.enum l).Perm l
  tord_perm : ∀ id l, (orc.tord id l).Perm l
  tsort_perm : ∀ l, (orc.tsort l).Perm l
  tsort_sorted : ∀ l, (orc.tsort l).Pairwise (fun a b => le b.score a.score)
  hsort_perm : ∀ l, (orc.hsort l).Perm l
  hsort_sorted : ∀ l, (orc.hsort l).Pairwise (fun a b => le b.hybrid a.hybrid)
  hstable_perm : ∀ l, (orc.hstable l).Perm l
  hstable_sorted : ∀ l, (orc.hstable l).Pairwise (fun a b => le b.hybrid a.hybrid)
  row_perm : ∀ l, (orc.rowSort l).Perm l
  row_sorted : ∀ l, (orc.rowSort l).Pairwise (fun a b => C06.sortCmp sortOpts a.data b.data ≤ 0)

section pipeline
variable [DecidableEq T] [LT D] [DecidableLT D]

theorem rank_pipeline {lower : Bytes → Bytes} {cv : Conv} {env : Env V T D S W} {rs : RState V T}
    (hI : Inv lower cv rs.base) (orc : SOracle V T S) (le : S → S → Prop) (rq : C06.Request) (hok : orc.OK le rq.sort)
    (q : RQuery V T W) (hwf : q.wf rs cv = true) (hne : q.noErr lower cv env orc rs = true)
    (hgood : q.allLeaves (fun l => LeafGood rs (evalRLeaf lower cv env orc rs l)))
    (hsel : ∀ p ∈ rq.select, p ≠ [])
    (off lim : Nat) (ho : rq.off = off) (hl : rq.lim = lim) (hoff : off < 2 ^ 63) (hlim : lim < 2 ^ 63) :
    ∃ rows0 : List (C06.Row S),
      rsearchPoints lower cv env orc rs q rq =
        .rows (((rows0.drop off).take (if lim = 0 then rows0.length else lim)).map fun row =>
          (uuidAt rs.base.shard.pts row.id, row.hybrid, row.data)) ∧
      (∀ row ∈ rows0, C01.AL.get rs.base.shard.pts.nI row.id = some (uuidAt rs.base.shard.pts row.id)) ∧
      (rows0.map fun row => uuidAt rs.base.shard.pts row.id).Nodup ∧
      (rows0.map (·.id)).Nodup ∧
      (∀ n, n ∈ rows0.map (·.id) ↔ C06.inSetB (rtree lower cv env orc rs q) n = true) ∧
      (∀ row ∈ rows0, row.hybrid = C06.hybridSpec env.hadd (rtree lower cv env orc rs q) row.id ∧
        C06.shape rq (selAt cv rs.base row.id) = .ok row.data) ∧
      (rq.sort = [] → rows0.map (fun x => (x.id, x.hybrid)) =
        (C06.backfill (rsearchIndex lower cv env orc rs q)).map (fun e => (e.id, e.hybrid))) ∧
      (rq.sort = [] → q.isComposite = true → rows0.Pairwise (fun a b => C06.rankRel le a.hybrid b.hybrid)) ∧
      (rq.sort ≠ [] → rows0.Pairwise (fun a b => C06.sortCmp rq.sort a.data b.data ≤ 0)) ∧
      (rows0.map (fun x => (x.id, x.hybrid))).Perm
        ((C06.backfill (rsearchIndex lower cv env orc rs q)).map (fun e => (e.id, e.hybrid))) ∧
      (rq.sort = [] → rows0.Pairwise (fun a b => a.hybrid = none → b.hybrid = none ∧ a.id < b.id)) := by
  have hp := hI.store.pts
  obtain ⟨hwfT, hlive⟩ := tree_good lower cv env orc rs q hgood
  obtain ⟨rows0, hfull, hnd, hmem, hrow, hnosort, hrank, hsorted⟩ :=
    C06.C06_answer env.hadd le orc.hsort orc.hstable hok.hsort_perm hok.hsort_sorted hok.hstable_perm hok.hstable_sorted
      rq orc.rowSort hok.row_perm hok.row_sorted (selAt cv rs.base) hsel (rtree lower cv env orc rs q) hwfT
  obtain ⟨w1, w2, hset, _, _, _⟩ :=
    C06.C06_tree env.hadd le orc.hsort orc.hstable hok.hsort_perm hok.hsort_sorted hok.hstable_perm hok.hstable_sorted
      (rtree lower cv env orc rs q) hwfT
  have hr : rsearchIndex lower cv env orc rs q = C06.evalTree env.hadd orc.hsort orc.hstable (rtree lower cv env orc rs q) := rfl
  have hrowlive : ∀ row ∈ rows0, C01.AL.get rs.base.shard.pts.nI row.id = some (uuidAt rs.base.shard.pts row.id) := by
    intro row hrw
    obtain ⟨u, hu⟩ := hlive row.id ((hmem row.id).1 (List.mem_map.2 ⟨row, hrw, rfl⟩))
    rw [hu, uuidAt_of hu]
  obtain ⟨unranked, hB, hasc, _, hBmem, _⟩ := C06.C06_backfill _ w2 w1
  have hget : ∃ l, C01.getAll rs.base.shard.pts ((C06.backfill (rsearchIndex lower cv env orc rs q)).map (·.id)) = .ok l := by
    refine ⟨_, C01.getAll_eq rs.base.shard.pts _ ?_⟩
    intro n hn
    rw [hr] at hn
    obtain ⟨u, hu⟩ := hlive n ((hset n).1 ((hBmem n).1 hn))
    rw [hu]; rfl
  obtain ⟨gl, hgl⟩ := hget
  have hlen : rows0.length < 2 ^ 63 := by
    have h1 : (rows0.map (·.id)).length < idBound := by
      refine length_lt_of_nodup_range (by decide) hnd ?_
      intro n hn
      obtain ⟨u, hu⟩ := hlive n ((hmem n).1 hn)
      have := hI.store.ctr.live_range n u hu
      exact ⟨by omega, hI.liveBound n u hu⟩
    simpa [idBound] using h1
  have hpage := C06.C06_search_page (selAt cv rs.base) orc.rowSort _ rq rows0 hfull off lim ho hl hoff hlim hlen
  have hcomp : q.isComposite = true → (rtree lower cv env orc rs q).isComposite = true := by
    cases q <;> simp [RQuery.isComposite, rtree, C06.QTree.isComposite]
  refine ⟨rows0, ?_, hrowlive, ?_, hnd, hmem, hrow, ?_, fun h1 h2 => hrank h1 (hcomp h2), hsorted, ?_, ?_⟩
  · unfold rsearchPoints
    simp only [hwf, hne, Bool.not_true, Bool.false_eq_true, if_false, hgl]
    rw [hr]
    cases hsp : C06.searchPoints (selAt cv rs.base) orc.rowSort true
        (C06.evalTree env.hadd orc.hsort orc.hstable (rtree lower cv env orc rs q)) rq with
    | selectError => rw [hsp] at hpage; cases hpage
    | slicePanic => rw [hsp] at hpage; cases hpage
    | rows pg =>
      rw [hsp] at hpage
      simp only [C06.outcomePage, Option.some.injEq] at hpage
      subst hpage
      show RAnswer.rows (List.filterMap _ _) = _
      congr 1
      apply filterMap_eq_map
      intro row hrw
      have hrw0 : row ∈ rows0 := List.mem_of_mem_drop (List.mem_of_mem_take hrw)
      rw [hrowlive row hrw0]; rfl
  · have : (rows0.map fun row => uuidAt rs.base.shard.pts row.id) = (rows0.map (·.id)).map (uuidAt rs.base.shard.pts) := by
      simp [List.map_map, Function.comp_def]
    rw [this]
    apply C01.nodup_map_of_inj_on _ _ hnd
    intro a ha b hb hab
    obtain ⟨ra, hra, rfl⟩ := List.mem_map.1 ha
    obtain ⟨rb, hrb, rfl⟩ := List.mem_map.1 hb
    have h1 := hrowlive ra hra
    have h2 := hrowlive rb hrb
    rw [hab] at h1
    have k1 := (hp.bij _ _).mpr h1
    have k2 := (hp.bij _ _).mpr h2
    rw [k1] at k2; exact Option.some.inj k2
  · intro hs; rw [hr]; exact hnosort hs
  · -- sorted or not, the rows are the back-filled entries
    rw [hr]
    have hf := hfull
    unfold C06.fullRows at hf
    cases hm : C06.mapExcept (fun (e : C06.Entry S) =>
        (C06.shape rq (selAt cv rs.base e.id)).map (fun d => (⟨e.id, e.hybrid, d⟩ : C06.Row S)))
        (C06.backfill (C06.evalTree env.hadd orc.hsort orc.hstable (rtree lower cv env orc rs q))) with
    | error e => simp [hm] at hf
    | ok rows' =>
      simp only [hm, Except.ok.injEq] at hf
      have hpairs := C06.mapExcept_map _ (fun (e : C06.Entry S) => (e.id, e.hybrid)) (fun (x : C06.Row S) => (x.id, x.hybrid))
        (fun e row he => by
          obtain ⟨h1, h2, _⟩ := C06.row_of_entry _ rq e row he
          show (row.id, row.hybrid) = (e.id, e.hybrid)
          rw [h1, h2]) _ rows' hm
      rw [← hf, ← hpairs]
      split
      · exact List.Perm.refl _
      · exact (hok.row_perm rows').map _
  · -- unsorted: after a filter-only row only filter-only rows follow, ascending node id
    intro hs
    have h1 := hnosort hs
    have h2 : ((C06.backfill (C06.evalTree env.hadd orc.hsort orc.hstable (rtree lower cv env orc rs q))).map
        (fun e => (e.id, e.hybrid))).Pairwise (fun a b => a.2 = none → b.2 = none ∧ a.1 < b.1) := by
      rw [hB, List.map_append, List.pairwise_append]
      refine ⟨?_, ?_, ?_⟩
      · refine (pairwise_true _).imp_of_mem ?_
        intro a b ha _ _ hnone
        simp only [List.map_map, List.mem_map, Function.comp_def] at ha
        obtain ⟨x, _, rfl⟩ := ha
        cases hnone
      · simp only [List.map_map, Function.comp_def, List.pairwise_map]
        exact hasc.imp (fun h _ => ⟨trivial, h⟩)
      · intro a ha b _ hnone
        simp only [List.map_map, List.mem_map, Function.comp_def] at ha
        obtain ⟨x, _, rfl⟩ := ha
        cases hnone
    rw [← h1, List.pairwise_map] at h2
    exact h2

end pipeline

/-! ### every leaf answer is a reference answer -/

section leafref
variable [DecidableEq T] [LinearOrder D]

/-- the answer of the index of a leaf, read on uuids, is an answer of the reference map `coll`:
a filter leaf returns exactly the points whose document satisfies it and ranks nothing; a vector leaf
returns an exact nearest-neighbour answer with hybrid score `neg (fscale w distance)`; a text leaf an exact
tf-idf answer with hybrid score `scale w score` -/
def LeafRef (lower : Bytes → Bytes) (cv : Conv) (env : Env V T D S W) (orc : SOracle V T S) (rs : RState V T)
    (le : S → S → Prop) (schema : List (List String × C02.Kind)) (coll : C01.Coll) : RLeaf V T W → Prop
  | .filt l =>
    (evalRLeaf lower cv env orc rs (.filt l)).res = [] ∧
    ∀ u, (∃ n ∈ (evalRLeaf lower cv env orc rs (.filt l)).set, C01.AL.get rs.base.shard.pts.nI n = some u) ↔
      specMatches lower cv schema coll (.leaf l) u
  | .flat path qv limit w f =>
    ∃ A : List (Nat × D),
      evalRLeaf lower cv env orc rs (.flat path qv limit w f) =
        ⟨A.map (·.1), A.map fun a => ⟨a.1, env.neg (env.fscale w a.2)⟩⟩ ∧
      IsFlatAnswer lower cv env schema coll path qv limit f (A.map fun a => (uuidAt rs.base.shard.pts a.1, a.2))
  | .text path terms all limit w f =>
    ∃ (set : List Nat) (A : List (Nat × S)),
      evalRLeaf lower cv env orc rs (.text path terms all limit w f) =
        ⟨set, A.map fun a => ⟨a.1, env.ops.scale w a.2⟩⟩ ∧
      (∀ n, n ∈ set ↔ n ∈ A.map (·.1)) ∧
      IsTextAnswer lower cv env schema coll path terms all limit f le (A.map fun a => (uuidAt rs.base.shard.pts a.1, a.2))

theorem leaf_ok_filt {lower : Bytes → Bytes} {cv : Conv} {env : Env V T D S W} {rs : RState V T}
    (hR : RInv lower cv env rs) (orc : SOracle V T S) (le : S → S → Prop)
    (l : C02.Leaf) (hwf' : l.wf (rs.base.view cv) = true) (hval : l.Valid) :
    LeafRef lower cv env orc rs le rs.base.schema (C01.abs rs.base.shard) (.filt l : RLeaf V T W) ∧
      LeafGood rs (evalRLeaf lower cv env orc rs (.filt l : RLeaf V T W)) := by
  have hI := hR.base
  have hspec : ∀ i, i ∈ C02.evalLeaf lower (rs.base.view cv) l ↔ (C02.Query.leaf l).sat lower (rs.base.view cv) i := by
    intro i
    rw [C02.evalLeaf_spec lower (view_inv hI) l hwf' hval i]
    simp [C02.Query.sat]
  have hqwf : (C02.Query.leaf l).wf (rs.base.view cv) = true := by rw [C02.Query.wf_leaf]; exact hwf'
  have hset : ∀ n, n ∈ (evalRLeaf lower cv env orc rs (.filt l : RLeaf V T W)).set ↔
      ∃ i : C02.Id, i.toNat = n ∧ (C02.Query.leaf l).sat lower (rs.base.view cv) i := by
    intro n
    simp only [evalRLeaf, List.mem_map]
    constructor
    · rintro ⟨i, hi, rfl⟩; exact ⟨i, rfl, (hspec i).1 hi⟩
    · rintro ⟨i, rfl, hs⟩; exact ⟨i, (hspec i).2 hs, rfl⟩
  refine ⟨⟨rfl, fun u => ?_⟩, ⟨by simp [evalRLeaf], by simp [evalRLeaf], ?_⟩⟩
  · rw [specMatches_iff hI]
    constructor
    · rintro ⟨n, hn, hl⟩
      obtain ⟨i, rfl, hs⟩ := (hset n).1 hn
      exact ⟨i, hl, hs⟩
    · rintro ⟨i, hl, hs⟩
      exact ⟨i.toNat, (hset _).2 ⟨i, rfl, hs⟩, hl⟩
  · intro n hn
    obtain ⟨i, rfl, hs⟩ := (hset n).1 hn
    exact live_of_sat hI _ hqwf i hs

theorem leaf_ok_flat {lower : Bytes → Bytes} {cv : Conv} {env : Env V T D S W} {rs : RState V T}
    (hR : RInv lower cv env rs) (orc : SOracle V T S) (le : S → S → Prop) (henum : ∀ l, (orc.enum l).Perm l)
    (path : List String) (qv : V) (limit : Nat) (w : W) (f : Option C02.Query)
    (hwf : (RLeaf.flat path qv limit w f : RLeaf V T W).wf rs cv = true) (hv : ∀ q, f = some q → q.Valid) :
    LeafRef lower cv env orc rs le rs.base.schema (C01.abs rs.base.shard) (.flat path qv limit w f : RLeaf V T W) ∧
      LeafGood rs (evalRLeaf lower cv env orc rs (.flat path qv limit w f : RLeaf V T W)) := by
  simp only [RLeaf.wf, Bool.and_eq_true, decide_eq_true_eq] at hwf
  obtain ⟨⟨h1, hlim⟩, hfw⟩ := hwf
  cases hfx : rs.flat path with
  | none => rw [hfx] at h1; cases h1
  | some fx =>
    obtain ⟨hnd, hlive, hans⟩ := flat_leaf_ref hR orc hfx qv limit f hfw hv (henum _)
    have hev : evalRLeaf lower cv env orc rs (.flat path qv limit w f : RLeaf V T W) =
        ⟨(flatSearch lower cv env orc rs fx qv limit f).map (·.id.toNat),
         (flatSearch lower cv env orc rs fx qv limit f).map fun r => ⟨r.id.toNat, env.neg (env.fscale w r.d)⟩⟩ := by
      simp only [evalRLeaf, hfx]
    refine ⟨⟨(flatSearch lower cv env orc rs fx qv limit f).map fun r => (r.id.toNat, r.d), ?_, ?_⟩, ?_⟩
    · rw [hev]; simp [List.map_map, Function.comp_def]
    · simpa [List.map_map, Function.comp_def] using hans
    · rw [hev]
      refine ⟨?_, ?_, ?_⟩
      · intro x hx
        obtain ⟨r, hr, rfl⟩ := List.mem_map.1 hx
        exact List.mem_map.2 ⟨r, hr, rfl⟩
      · simpa [List.map_map, Function.comp_def] using hnd
      · intro n hn
        obtain ⟨r, hr, rfl⟩ := List.mem_map.1 hn
        exact hlive r hr

theorem leaf_ok_text {lower : Bytes → Bytes} {cv : Conv} {env : Env V T D S W} {rs : RState V T}
    (hR : RInv lower cv env rs) (orc : SOracle V T S) (le : S → S → Prop)
    (htperm : ∀ l, (orc.tsort l).Perm l) (htsorted : ∀ l, (orc.tsort l).Pairwise (fun a b => le b.score a.score))
    (htord : ∀ id l, (orc.tord id l).Perm l)
    (add_comm : ∀ a b, env.ops.add a b = env.ops.add b a)
    (add_assoc : ∀ a b c, env.ops.add (env.ops.add a b) c = env.ops.add a (env.ops.add b c))
    (path : List String) (terms : List T) (all : Bool) (limit : Nat) (w : W) (f : Option C02.Query)
    (hwf : (RLeaf.text path terms all limit w f : RLeaf V T W).wf rs cv = true) (hv : ∀ q, f = some q → q.Valid) :
    LeafRef lower cv env orc rs le rs.base.schema (C01.abs rs.base.shard) (.text path terms all limit w f : RLeaf V T W) ∧
      LeafGood rs (evalRLeaf lower cv env orc rs (.text path terms all limit w f : RLeaf V T W)) ∧
      (RLeaf.text path terms all limit w f : RLeaf V T W).noErr lower cv env orc rs = true := by
  simp only [RLeaf.wf, Bool.and_eq_true] at hwf
  obtain ⟨h1, hfw⟩ := hwf
  cases htx : rs.text path with
  | none => rw [htx] at h1; cases h1
  | some tx =>
    obtain ⟨set, res, hs, hset, hnd, hlive, hhyb, hans⟩ :=
      text_leaf_ref hR orc le add_comm add_assoc htperm htsorted htord htx terms all limit w f hfw hv
    have hev : evalRLeaf lower cv env orc rs (.text path terms all limit w f : RLeaf V T W) =
        ⟨set, res.map fun r => ⟨r.id, r.hybrid⟩⟩ := by
      simp only [evalRLeaf, htx, hs]
    refine ⟨⟨set, res.map fun r => (r.id, r.score), ?_, ?_, ?_⟩, ?_, ?_⟩
    · rw [hev]
      congr 1
      simp only [List.map_map, Function.comp_def]
      apply List.map_congr_left
      intro r hr
      rw [hhyb r hr]
    · intro n; rw [hset n]; simp [List.map_map, Function.comp_def]
    · simpa [List.map_map, Function.comp_def] using hans
    · rw [hev]
      refine ⟨?_, ?_, ?_⟩
      · intro x hx
        obtain ⟨r, hr, rfl⟩ := List.mem_map.1 hx
        exact (hset r.id).2 (List.mem_map.2 ⟨r, hr, rfl⟩)
      · simpa [List.map_map, Function.comp_def] using hnd
      · intro n hn
        obtain ⟨r, hr, rfl⟩ := List.mem_map.1 ((hset n).1 hn)
        exact hlive r hr
    · simp only [RLeaf.noErr, htx, hs]; rfl

theorem leaf_ok {lower : Bytes → Bytes} {cv : Conv} {env : Env V T D S W} {rs : RState V T}
    (hR : RInv lower cv env rs) (orc : SOracle V T S) (le : S → S → Prop) (sortOpts : List C06.SortOpt)
    (hok : orc.OK le sortOpts)
    (add_comm : ∀ a b, env.ops.add a b = env.ops.add b a)
    (add_assoc : ∀ a b c, env.ops.add (env.ops.add a b) c = env.ops.add a (env.ops.add b c))
    (l : RLeaf V T W) (hwf : l.wf rs cv = true) (hv : l.Valid) :
    LeafRef lower cv env orc rs le rs.base.schema (C01.abs rs.base.shard) l ∧ LeafGood rs (evalRLeaf lower cv env orc rs l) ∧
      l.noErr lower cv env orc rs = true := by
  cases l with
  | filt l =>
    obtain ⟨a, b⟩ := leaf_ok_filt hR orc le l hwf hv
    exact ⟨a, b, rfl⟩
  | flat path qv limit w f =>
    obtain ⟨a, b⟩ := leaf_ok_flat hR orc le hok.enum_perm path qv limit w f hwf hv
    exact ⟨a, b, rfl⟩
  | text path terms all limit w f =>
    exact leaf_ok_text hR orc le hok.tsort_perm hok.tsort_sorted hok.tord_perm add_comm add_assoc path terms all limit w f hwf hv

/-- every leaf of a well-formed valid query is answered by its index with a reference answer, and the tree
is fit for the answer pipeline -/
theorem leaves_ok {lower : Bytes → Bytes} {cv : Conv} {env : Env V T D S W} {rs : RState V T}
    (hR : RInv lower cv env rs) (orc : SOracle V T S) (le : S → S → Prop) (sortOpts : List C06.SortOpt)
    (hok : orc.OK le sortOpts)
    (add_comm : ∀ a b, env.ops.add a b = env.ops.add b a)
    (add_assoc : ∀ a b c, env.ops.add (env.ops.add a b) c = env.ops.add a (env.ops.add b c))
    (q : RQuery V T W) (hwf : q.wf rs cv = true) (hv : q.Valid) :
    q.allLeaves (LeafRef lower cv env orc rs le rs.base.schema (C01.abs rs.base.shard)) ∧
    q.allLeaves (fun l => LeafGood rs (evalRLeaf lower cv env orc rs l)) ∧
    q.noErr lower cv env orc rs = true := by
  have h0 := allLeaves_and q (allLeaves_of_wf rs cv q hwf) hv
  have h1 := allLeaves_imp (Q := fun l => LeafRef lower cv env orc rs le rs.base.schema (C01.abs rs.base.shard) l ∧ LeafGood rs (evalRLeaf lower cv env orc rs l) ∧
      l.noErr lower cv env orc rs = true)
    (fun l h => leaf_ok hR orc le sortOpts hok add_comm add_assoc l h.1 h.2) q h0
  exact ⟨allLeaves_imp (fun l h => h.1) q h1, allLeaves_imp (fun l h => h.2.1) q h1,
    noErr_of_leaves lower cv env orc rs q (allLeaves_imp (fun l h => h.2.2) q h1)⟩

end leafref

/-! ### small facts the property theorems use -/

section misc

/-- a leaf answer whose id set is the set of its ranked ids back-fills nothing -/
theorem backfill_ranked_only (set : List Nat) (res : List (C06.Res S)) (h : ∀ n ∈ set, n ∈ res.map (·.id)) :
    C06.backfill ⟨set, res⟩ = res.map (fun x => (⟨x.id, some x.hybrid⟩ : C06.Entry S)) := by
  unfold C06.backfill
  have : (C06.dedup set).filter (fun id => !(res.any (fun x => x.id == id))) = [] := by
    rw [List.filter_eq_nil_iff]
    intro a ha
    have ha' := (C06.mem_dedup set a).1 ha
    obtain ⟨x, hx, hxa⟩ := List.mem_map.1 (h a ha')
    have : res.any (fun y => y.id == a) = true := List.any_eq_true.2 ⟨x, hx, by simp [hxa]⟩
    simp [this]
  simp [this, C06.sortAsc]

/-- what the flat store holds, said on the reference map: under node id `i` the vector of the document of the
live point `i` names, nothing else -/
theorem flat_store_ref {lower : Bytes → Bytes} {cv : Conv} {st : State} (hI : Inv lower cv st) (env : Env V T D S W)
    {fx : FlatIx V} (h : FlatInvD env fx (docAt cv st.shard.pts)) (i : C02.Id) (v : V) :
    (i, v) ∈ fx.store ↔ ∃ u doc, C01.AL.get st.shard.pts.nI i.toNat = some u ∧
      C01.AL.get (C01.abs st.shard) u = some doc ∧ vecAt env fx.path (idxData cv doc) = some v := by
  obtain ⟨hn, hg⟩ := h
  have hp := hI.store.pts
  constructor
  · intro hm
    have h1 := C01.AL.get_of_mem hn hm
    rw [hg] at h1
    cases hd : C01.AL.get st.shard.pts.nD i.toNat with
    | none =>
      have : docAt cv st.shard.pts i = none := by simp [docAt, hd]
      rw [this] at h1; simp [vecAt, C02.getProp] at h1
    | some d =>
      have := hp.nD_live i.toNat (by rw [hd]; rfl)
      cases hl : C01.AL.get st.shard.pts.nI i.toNat with
      | none => rw [hl] at this; cases this
      | some u => exact ⟨u, _, rfl, abs_get_live hp hl, h1⟩
  · rintro ⟨u, doc, hl, hdoc, hv⟩
    have h2 : C01.AL.get (C01.abs st.shard) u = some (C01.AL.get st.shard.pts.nD i.toNat) := abs_get_live hp hl
    rw [h2] at hdoc
    have := Option.some.inj hdoc
    subst this
    apply C01.AL.mem_of_get
    rw [hg]; exact hv

variable [LinearOrder D]

/-- an exact answer has `min limit (number of candidates)` rows -/
theorem IsFlatAnswer.length_eq {lower : Bytes → Bytes} {cv : Conv} {env : Env V T D S W} {schema : List (List String × C02.Kind)}
    {coll : C01.Coll} {path : List String} {qv : V} {limit : Nat} {f : Option C02.Query} {A : List (Uuid × D)}
    (h : IsFlatAnswer lower cv env schema coll path qv limit f A) (cs : List Uuid) (hcn : cs.Nodup)
    (hcs : ∀ u, u ∈ cs ↔ ∃ d, FlatCand lower cv env schema coll path qv f u d) :
    A.length = min limit cs.length := by
  have hsub : ∀ u ∈ A.map (·.1), u ∈ cs := by
    intro u hu
    obtain ⟨a, ha, rfl⟩ := List.mem_map.1 hu
    exact (hcs a.1).2 ⟨a.2, h.cand a ha⟩
  have hle : A.length ≤ cs.length := by
    have := length_le_of_nodup_subset (A.map (·.1)) cs h.nodup hsub
    simpa using this
  by_cases hall : ∀ u ∈ cs, u ∈ A.map (·.1)
  · have hperm : (A.map (·.1)).Perm cs := (List.perm_ext_iff_of_nodup h.nodup hcn).2 (fun u => ⟨hsub u, hall u⟩)
    have := hperm.length_eq
    simp only [List.length_map] at this
    have := h.short
    omega
  · have : ∃ u, u ∈ cs ∧ u ∉ A.map (·.1) := by
      apply Classical.byContradiction
      intro hn
      apply hall
      intro u hu
      apply Classical.byContradiction
      intro hnu
      exact hn ⟨u, hu, hnu⟩
    obtain ⟨u, hu, hnu⟩ := this
    obtain ⟨d, hd⟩ := (hcs u).1 hu
    have := (h.complete u d hd hnu).1
    omega

/-- no candidate strictly closer than a returned row is left out -/
theorem IsFlatAnswer.no_closer_left_out {lower : Bytes → Bytes} {cv : Conv} {env : Env V T D S W}
    {schema : List (List String × C02.Kind)} {coll : C01.Coll} {path : List String} {qv : V} {limit : Nat}
    {f : Option C02.Query} {A : List (Uuid × D)}
    (h : IsFlatAnswer lower cv env schema coll path qv limit f A) (u : Uuid) (d : D)
    (hc : FlatCand lower cv env schema coll path qv f u d) (a : Uuid × D) (ha : a ∈ A) (hlt : d < a.2) :
    u ∈ A.map (·.1) := by
  apply Classical.byContradiction
  intro hnot
  exact absurd ((h.complete u d hc hnot).2 a ha) (not_le.2 hlt)

end misc

end read

end Sema.Compose
