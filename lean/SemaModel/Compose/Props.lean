/-
Compose — end-to-end statements about the shard's public API for FILTER indexes, obtained by composing the
per-property models and theorems (C01 point store, C02 inverted indexes, C06 answer pipeline, C19 encodings
through C02's key functions) instead of assuming each other's facts.

MODEL  `State` (Model.lean): C01's `Shard` + one C02 `Index` per schema entry; `State.step` = one write
       transaction of InsertPoints / UpdatePoints / DeletePoints driving both; `searchPoints` =
       `Shard.SearchPoints` on a filter query (C02 leaves → C06 searchParallel → C01 back-fill → C06 select /
       sort / offset-limit).
SPEC   C01's `Coll` (plain map uuid ↦ document) with `docSat`: the query evaluated on one document.

Cross-property hypotheses that are DISCHARGED here (they were assumptions of the single properties):
  * C02 `OpOK`, first half — inserted node ids are unused and pairwise distinct — from C01's invariant
    (`Compose_insert_fresh`; the proofs never use it as a hypothesis: the change stream of every batch is
    shown to be a `PChain` of the point store, `step_chain`);
  * C02 `Inv.ids`, `Inv.uuids` (node ids / uuids name points uniquely) — from C01's `PInv`;
  * C02 "a rejected batch leaves the state unchanged (C07)" and C01's oracle bit `indexOk` — the verdict is
    computed from the indexes, and `State.step` returns the old state (`Compose_rejected_noop`);
  * C06 "the leaf answers are inputs", `leavesWF`, "`docOf` is the stored document" — the leaves are C02's
    index answers, the documents are C01's `n<id>d` entries;
  * C01_read's "`_id` lookup = back-fill of `p<uuid>i`" and C02's `_id` leaves are one code path here.
What REMAINS assumed is listed beside each theorem (`StepOK` / `HistOK`: no NaN written into a float index,
fewer than 2^63 node ids; `Valid`: no NaN queried; `wf`: the query is one the shard answers).
Only property theorems and their non-vacuity examples live in this file.
-/
import SemaModel.Compose.Lemmas
set_option linter.unusedSimpArgs false
namespace Sema.Compose
open Sema
open Sema.C01 (Uuid Data)

/-! ### write batches -/

/-- **Compose_step.** One batch (insert / update / delete, accepted or rejected, any oracle values) on a
combined state satisfying the invariant: the invariant is kept — C01's `Inv` of the point store AND C02's
`Inv` of every index against the documents now stored —, the point store stands for the reference map after
the same batch, and the reported results agree. -/
theorem Compose_step (lower : Bytes → Bytes) (cv : Conv) (cfg : C01.Cfg) {st : State} (hI : Inv lower cv st)
    (op : C01.Op) (o : C01.Oracle) (ok : StepOK lower cv cfg st op o) :
    Inv lower cv (st.step lower cv cfg op o).1 ∧
    C01.Inv (st.step lower cv cfg op o).1.shard ∧ C02.Inv lower ((st.step lower cv cfg op o).1.view cv) ∧
    C01.abs (st.step lower cv cfg op o).1.shard =
      (C01.Coll.step cfg (C01.abs st.shard) op (indexVerdict lower st (changes cfg cv st.shard op o))).1 ∧
    C01.Out.equiv (st.step lower cv cfg op o).2
      (C01.Coll.step cfg (C01.abs st.shard) op (indexVerdict lower st (changes cfg cv st.shard op o))).2 := by
  have h := step_inv lower cv cfg hI op o ok
  obtain ⟨hs1, hs2⟩ := step_shard lower cv cfg st op o
  obtain ⟨_, k2, k3⟩ := C01.C01_step cfg st.shard op (withVerdict lower cv cfg st op o) hI.store
  exact ⟨h, h.store, view_inv h, by rw [hs1]; exact k2, by rw [hs2]; exact k3⟩

/-- **Compose_inv_history.** From the empty shard of any filter schema, after any history of batches under
any oracle values: C01's invariant holds for the point store, C02's invariant holds for the indexes
(relative to the point store — no separate bookkeeping of node ids), the schema is unchanged, the point store
stands for exactly the reference map the history produces, and every reported result agrees.
Hypothesis `HistOK`: no batch writes NaN into a float-indexed property; fewer than 2^63 node ids. -/
theorem Compose_inv_history (lower : Bytes → Bytes) (cv : Conv) (cfg : C01.Cfg) (schema : List (List String × C02.Kind))
    (bolt : Bool) (h : List (C01.Op × C01.Oracle)) (hok : HistOK lower cv cfg (State.init schema bolt) h) :
    C01.Inv (State.run lower cv cfg (State.init schema bolt) h).1.shard ∧
    C02.Inv lower ((State.run lower cv cfg (State.init schema bolt) h).1.view cv) ∧
    (State.run lower cv cfg (State.init schema bolt) h).1.schema = schema ∧
    C01.abs (State.run lower cv cfg (State.init schema bolt) h).1.shard =
      (C01.Coll.run cfg [] (specHist lower cv cfg (State.init schema bolt) h)).1 ∧
    C01.Out.equivList (State.run lower cv cfg (State.init schema bolt) h).2
      (C01.Coll.run cfg [] (specHist lower cv cfg (State.init schema bolt) h)).2 := by
  have hI := run_inv lower cv cfg h _ (init_inv lower cv schema bolt) hok
  obtain ⟨h1, h2⟩ := run_abs lower cv cfg h (State.init schema bolt) C01.Inv_empty
  exact ⟨hI.store, view_inv hI, by rw [run_schema, init_schema], h1, h2⟩

/-- **Compose_histOK_of_final.** The hypothesis `HistOK` splits into its NaN half, batch by batch (`HistFlt`),
and ONE bound on the final state: the id counter never goes back, so "fewer than 2^63 node ids" need only be
checked at the end of the history. -/
theorem Compose_histOK_of_final (lower : Bytes → Bytes) (cv : Conv) (cfg : C01.Cfg) (st : State)
    (h : List (C01.Op × C01.Oracle)) (hf : HistFlt lower cv cfg st h)
    (hb : (State.run lower cv cfg st h).1.shard.nextV ≤ idBound) : HistOK lower cv cfg st h :=
  histOK_of_final lower cv cfg h st hf hb

/-- **Compose_insert_fresh** (C02's `OpOK` is a theorem here). The node ids an accepted insert hands to the
indexes are pairwise distinct and none of them names a stored point. -/
theorem Compose_insert_fresh (lower : Bytes → Bytes) (cv : Conv) (cfg : C01.Cfg) {st : State} (hI : Inv lower cv st)
    (b : List (Uuid × Data)) (o : C01.Oracle) (hacc : isRejected (st.step lower cv cfg (.insert b) o).2 = false)
    (hb : (st.step lower cv cfg (.insert b) o).1.shard.nextV ≤ idBound) :
    ((changes cfg cv st.shard (.insert b) o).map (·.id)).Pairwise (· ≠ ·) ∧
    ∀ pc ∈ changes cfg cv st.shard (.insert b) o, C02.docOf (st.view cv).pts pc.id = none ∧ pc.prev = none := by
  obtain ⟨hs1, hs2⟩ := step_shard lower cv cfg st (.insert b) o
  rw [hs2] at hacc
  rw [hs1] at hb
  simp only [C01.Shard.step] at hacc hb
  rcases insertPoints_cases st.shard b (withVerdict lower cv cfg st (.insert b) o) with ⟨_, r, h2⟩ | ⟨p, c, hl, _, heq⟩
  · rw [h2] at hacc; cases hacc
  · rw [heq] at hb
    obtain ⟨ns, h1, h2, h3⟩ := insert_fresh cv b st.shard.pts _ p c hI.store.pts
      (C01.newIdCounter_CInv hI.store _) hl hb
    have hch : changes cfg cv st.shard (.insert b) o =
        insertChanges cv st.shard.pts (C01.newIdCounter st.shard (withVerdict lower cv cfg st (.insert b) o)) b := rfl
    rw [hch]
    constructor
    · rw [h1, List.pairwise_map]
      have h2' : ns.Pairwise (· ≠ ·) := h2
      refine h2'.imp_of_mem ?_
      intro a c' ha hc' hne heq'
      exact hne (nid_inj (h3 a ha).1 (h3 c' hc').1 heq')
    · intro pc hpc
      have hid : pc.id ∈ ns.map nid := by rw [← h1]; exact List.mem_map.2 ⟨pc, hpc, rfl⟩
      obtain ⟨n, hn, hn'⟩ := List.mem_map.1 hid
      refine ⟨?_, ?_⟩
      · rw [← hn']
        show C02.docOf (viewPts cv st.shard.pts) (nid n) = none
        rw [docOf_view cv hI.store.pts hI.liveBound, nid_toNat (h3 n hn).1, (h3 n hn).2]; rfl
      · clear hid hn' h1
        -- every change of an insert carries no previous data
        have : ∀ (l : List (Uuid × Data)) (p : C01.Points) (c : C01.Ctr), ∀ pc ∈ insertChanges cv p c l, pc.prev = none := by
          intro l
          induction l with
          | nil => intro p c pc h; simp [insertChanges] at h
          | cons e rest ih =>
            obtain ⟨u, d⟩ := e
            intro p c pc h
            simp only [insertChanges] at h
            split at h
            · simp at h
            · rcases List.mem_cons.1 h with rfl | h
              · rfl
              · exact ih _ _ pc h
        exact this _ _ _ pc hpc

/-- **Compose_rejected_noop.** (a) A rejected batch — whatever the reason — leaves the combined state
unchanged: points bucket, internal bucket (count, free list, next id) AND every index bucket.
(b) The batch is rejected, with the same reason, whenever the reference map rejects it under the indexes'
verdict; in particular (c) when an index refuses the change stream (a property of the wrong type, a path
through a non-map, the empty key on the file backend), (d) when an insert repeats an id or names a stored
one, (e) when the merged document of an update exceeds the size limit. -/
theorem Compose_rejected_noop (lower : Bytes → Bytes) (cv : Conv) (cfg : C01.Cfg) (st : State) (hI : C01.Inv st.shard)
    (op : C01.Op) (o : C01.Oracle) :
    (∀ r, (st.step lower cv cfg op o).2 = .rejected r → (st.step lower cv cfg op o).1 = st) ∧
    (∀ r, (C01.Coll.step cfg (C01.abs st.shard) op (indexVerdict lower st (changes cfg cv st.shard op o))).2 = .rejected r →
      (st.step lower cv cfg op o).2 = .rejected r) ∧
    (indexVerdict lower st (changes cfg cv st.shard op o) = false → ∃ r, (st.step lower cv cfg op o).2 = .rejected r) ∧
    (∀ b, op = .insert b →
      (¬ (C01.AL.keys b).Nodup ∨ ∃ u, u ∈ C01.AL.keys b ∧ (C01.AL.get (C01.abs st.shard) u).isSome = true) →
      ∃ r, (st.step lower cv cfg op o).2 = .rejected r) ∧
    (∀ u old inc, op = .update [(u, some inc)] → C01.AL.get (C01.abs st.shard) u = some (some old) →
      cfg.size (C01.merge old inc) > cfg.maxSize → (st.step lower cv cfg op o).2 = .rejected .tooLarge) := by
  obtain ⟨_, hs2⟩ := step_shard lower cv cfg st op o
  obtain ⟨_, _, k3⟩ := C01.C01_step cfg st.shard op (withVerdict lower cv cfg st op o) hI
  rw [← hs2] at k3
  have hb : ∀ r, (C01.Coll.step cfg (C01.abs st.shard) op (indexVerdict lower st (changes cfg cv st.shard op o))).2 = .rejected r →
      (st.step lower cv cfg op o).2 = .rejected r := by
    intro r hr
    have k3' : C01.Out.equiv (st.step lower cv cfg op o).2
        (C01.Coll.step cfg (C01.abs st.shard) op (indexVerdict lower st (changes cfg cv st.shard op o))).2 := k3
    rw [hr] at k3'
    exact equiv_rejected k3'
  refine ⟨?_, hb, ?_, ?_, ?_⟩
  · intro r hr
    exact step_rejected_same lower cv cfg st op o (by rw [hr]; rfl)
  · intro hv
    obtain ⟨r, hr, _⟩ := coll_step_index_false cfg (C01.abs st.shard) op
    exact ⟨r, hb r (by rw [hv]; exact hr)⟩
  · rintro b rfl hcause
    obtain ⟨_, r, hr⟩ := C01.C01_insert_rejected (C01.abs st.shard) b
      (indexVerdict lower st (changes cfg cv st.shard (.insert b) o)) hcause
    exact ⟨r, hb r hr⟩
  · rintro u old inc rfl hold hsize
    apply hb
    simp [C01.Coll.step, C01.Coll.update, C01.Coll.updateLoop, hold, hsize]

/-! ### filter queries, end to end -/

/-- **Compose_filter_state.** In any combined state satisfying the invariant, `Shard.SearchPoints` on a
filter query tree (`_and` / `_or` nested to any depth over string / string-array / integer / float leaves
and `_id` lookups), with any select list, sort list, offset and limit, answers with the page
`[offset, offset + limit)` (from `offset` on when `limit = 0`) of a list `rows` (node id, uuid, returned
data) such that

* the uuids of `rows` are, once each, exactly the points of the reference map whose DOCUMENT satisfies the
  tree (`specMatches`: evaluated on the document alone);
* every row carries the uuid of its point and exactly the selected data of the stored document (`C06.shape`;
  for `select ["*"]` that is the stored document itself: `Compose_select_star`);
* without sort keys the rows come in ascending node-id order (what the code does: roaring's iterator);
  with sort keys they are ordered by the multi-key comparator (C06 says what that means).

No back-fill error, no select error, no slice panic. Hypotheses: the query is one the shard answers (`wf`),
no NaN query value (`Valid`), select paths are non-empty, `rowSorter` is a sorting function for the sort
keys (`slices.SortFunc`; one exists: `C06_sort_exists`), offset and limit fit `int`. -/
theorem Compose_filter_state {lower : Bytes → Bytes} {cv : Conv} {st : State} (hI : Inv lower cv st)
    (q : C02.Query) (hwf : q.wf (st.view cv) = true) (hv : q.Valid)
    (rq : C06.Request) (hne : ∀ p ∈ rq.select, p ≠ [])
    (rowSorter : List (C06.Row Unit) → List (C06.Row Unit)) (hsperm : ∀ l, (rowSorter l).Perm l)
    (hssorted : ∀ l, (rowSorter l).Pairwise (fun a b => C06.sortCmp rq.sort a.data b.data ≤ 0))
    (off lim : Nat) (ho : rq.off = off) (hl : rq.lim = lim) (hoff : off < 2 ^ 63) (hlim : lim < 2 ^ 63) :
    ∃ rows : List (Nat × Uuid × C06.Doc),
      searchPoints lower cv st q rq rowSorter =
        .rows (((rows.drop off).take (if lim = 0 then rows.length else lim)).map fun r => (r.2.1, r.2.2)) ∧
      (rows.map (·.2.1)).Nodup ∧
      (∀ u, u ∈ rows.map (·.2.1) ↔ specMatches lower cv st.schema (C01.abs st.shard) q u) ∧
      (∀ r ∈ rows, ∃ d, C01.AL.get (C01.abs st.shard) r.2.1 = some d ∧ C06.shape rq (selDoc cv d) = .ok r.2.2) ∧
      (rq.sort = [] → (rows.map (·.1)).Pairwise (· < ·)) ∧
      (rq.sort ≠ [] → rows.Pairwise (fun a b => C06.sortCmp rq.sort a.2.2 b.2.2 ≤ 0)) := by
  obtain ⟨rows, h1, h2, h3, h4, h5, h6⟩ :=
    search_answer hI q hwf hv rq hne rowSorter hsperm hssorted off lim ho hl hoff hlim
  refine ⟨rows, h1, h2, h3, ?_, h5, h6⟩
  intro r hr
  obtain ⟨k1, k2⟩ := h4 r hr
  refine ⟨C01.AL.get st.shard.pts.nD r.1, ?_, k2⟩
  simp only [C01.abs, C01.get_absP, (hI.store.pts.bij r.2.1 r.1).mpr k1, Option.map_some]

/-- `select ["*"]` without sort keys hands the stored document on unchanged -/
theorem Compose_select_star (rq : C06.Request) (h1 : rq.select = [["*"]]) (h2 : rq.sort = []) (d : C06.Doc) :
    C06.shape rq d = .ok d := by
  simp [C06.shape, C06.needDecode, h1, h2]

/-- **Compose_filter_exact.** After any history of batches on a freshly created shard, the whole
`SearchPoints` pipeline on a filter query equals the answer of the reference map `coll` the history
produces: see `Compose_filter_state`; `coll` is computed by C01's `Coll.run`, the schema is the one the
shard was created with. -/
theorem Compose_filter_exact (lower : Bytes → Bytes) (cv : Conv) (cfg : C01.Cfg) (schema : List (List String × C02.Kind))
    (bolt : Bool) (h : List (C01.Op × C01.Oracle)) (hok : HistOK lower cv cfg (State.init schema bolt) h)
    (q : C02.Query) (hwf : q.wf ((State.run lower cv cfg (State.init schema bolt) h).1.view cv) = true) (hv : q.Valid)
    (rq : C06.Request) (hne : ∀ p ∈ rq.select, p ≠ [])
    (rowSorter : List (C06.Row Unit) → List (C06.Row Unit)) (hsperm : ∀ l, (rowSorter l).Perm l)
    (hssorted : ∀ l, (rowSorter l).Pairwise (fun a b => C06.sortCmp rq.sort a.data b.data ≤ 0))
    (off lim : Nat) (ho : rq.off = off) (hl : rq.lim = lim) (hoff : off < 2 ^ 63) (hlim : lim < 2 ^ 63) :
    ∃ rows : List (Nat × Uuid × C06.Doc),
      searchPoints lower cv (State.run lower cv cfg (State.init schema bolt) h).1 q rq rowSorter =
        .rows (((rows.drop off).take (if lim = 0 then rows.length else lim)).map fun r => (r.2.1, r.2.2)) ∧
      (rows.map (·.2.1)).Nodup ∧
      (∀ u, u ∈ rows.map (·.2.1) ↔
        specMatches lower cv schema (C01.Coll.run cfg [] (specHist lower cv cfg (State.init schema bolt) h)).1 q u) ∧
      (∀ r ∈ rows, ∃ d, C01.AL.get (C01.Coll.run cfg [] (specHist lower cv cfg (State.init schema bolt) h)).1 r.2.1 = some d ∧
        C06.shape rq (selDoc cv d) = .ok r.2.2) ∧
      (rq.sort = [] → (rows.map (·.1)).Pairwise (· < ·)) ∧
      (rq.sort ≠ [] → rows.Pairwise (fun a b => C06.sortCmp rq.sort a.2.2 b.2.2 ≤ 0)) := by
  have hI := run_inv lower cv cfg h _ (init_inv lower cv schema bolt) hok
  obtain ⟨habs, _⟩ := run_abs lower cv cfg h (State.init schema bolt) C01.Inv_empty
  have hsch : (State.run lower cv cfg (State.init schema bolt) h).1.schema = schema := by rw [run_schema, init_schema]
  have := Compose_filter_state hI q hwf hv rq hne rowSorter hsperm hssorted off lim ho hl hoff hlim
  rw [hsch, habs] at this
  exact this

/-- **Compose_write_read.** A batch (insert / update / delete; if it is rejected nothing changed) followed by
an `_id` lookup of any list of ids with `select ["*"]`: the answer holds, once each, exactly the requested
ids that the reference map holds after the batch, each with exactly the document the reference map holds —
added by an insert, merged by an update, gone after a delete. (C01_read lifted to the combined state: the
lookup runs through `searchById`, the bitmap, the back-fill and the select / paging code.) -/
theorem Compose_write_read (lower : Bytes → Bytes) (cv : Conv) (cfg : C01.Cfg) {st : State} (hI : Inv lower cv st)
    (op : C01.Op) (o : C01.Oracle) (ok : StepOK lower cv cfg st op o) (us : List Uuid) :
    ∃ l, searchPoints lower cv (st.step lower cv cfg op o).1 (.leaf (.idAny us)) ⟨[["*"]], [], 0, 0⟩ id = .rows l ∧
      (l.map (·.1)).Nodup ∧
      ∀ u m, (u, m) ∈ l ↔
        (u ∈ us ∧ ∃ d, C01.AL.get (C01.Coll.step cfg (C01.abs st.shard) op
            (indexVerdict lower st (changes cfg cv st.shard op o))).1 u = some d ∧ m = selDoc cv d) := by
  obtain ⟨hI', _, _, habs, _⟩ := Compose_step lower cv cfg hI op o ok
  have hsorted : ∀ l : List (C06.Row Unit), (id l).Pairwise (fun a b => C06.sortCmp ([] : List C06.SortOpt) a.data b.data ≤ 0) :=
    fun l => (pairwise_true l).imp (fun _ => by simp [C06.sortCmp])
  obtain ⟨rows, h1, h2, h3, h4, _, _⟩ :=
    Compose_filter_state (rq := ⟨[["*"]], [], 0, 0⟩) hI' (.leaf (.idAny us)) (by simp [C02.Query.wf, C02.Leaf.wf])
      ((C02.Query.valid_leaf _).2 (C02.Leaf.valid_idAny us)) (by simp) id (fun l => List.Perm.refl l) hsorted 0 0 rfl rfl
      (by decide) (by decide)
  rw [habs] at h3 h4
  have hstar : ∀ d : C06.Doc, C06.shape ⟨[["*"]], [], 0, 0⟩ d = .ok d := fun d => Compose_select_star _ rfl rfl d
  refine ⟨rows.map fun r => (r.2.1, r.2.2), by simpa using h1, by simpa [List.map_map, Function.comp_def] using h2, ?_⟩
  intro u m
  constructor
  · intro hm
    obtain ⟨r, hr, heq⟩ := List.mem_map.1 hm
    simp only [Prod.mk.injEq] at heq
    obtain ⟨rfl, rfl⟩ := heq
    obtain ⟨d, hd, hs⟩ := h4 r hr
    obtain ⟨d', hd', hsat⟩ := (h3 r.2.1).1 (List.mem_map.2 ⟨r, hr, rfl⟩)
    rw [hstar] at hs
    refine ⟨by simpa [docSat, leafSat] using hsat, d, hd, (Except.ok.inj hs).symm⟩
  · rintro ⟨hu, d, hd, rfl⟩
    obtain ⟨r, hr, hru⟩ := List.mem_map.1 ((h3 u).2 ⟨d, hd, by simpa [docSat, leafSat] using hu⟩)
    obtain ⟨d', hd', hs⟩ := h4 r hr
    have hru' : r.2.1 = u := hru
    rw [hru', hd] at hd'
    rw [hstar] at hs
    refine List.mem_map.2 ⟨r, hr, ?_⟩
    rw [Option.some.inj hd', ← Except.ok.inj hs, ← hru']

/-! ### non-vacuity: a concrete history and query on which every hypothesis above holds

Schema: an integer index on `n`, a case-insensitive string index on the nested path `nest.s`; file backend.
History: insert `u1`, `u2` (node ids 2, 3) · update `u2` changing the indexed `n` from −3 to 7 (an unknown id
is skipped) · delete `u1` (node id 2 is freed) · insert `u3`, which REUSES node id 2. -/

section examples

def exSchema : List (List String × C02.Kind) := [(["n"], .int), (["nest", "s"], .str false)]

/-- the two readers of a stored value, on the five value texts of the example -/
def exConv : Conv where
  idx := fun s =>
    if s = "5" then .int 5#64 else if s = "7" then .int 7#64 else if s = "-3" then .int (BitVec.ofInt 64 (-3))
    else if s = "{s:A}" then .map [("s", .str [0x41#8])] else .nil
  sel := fun s =>
    if s = "5" then .int 64 5#64 else if s = "7" then .int 64 7#64 else if s = "-3" then .int 64 (BitVec.ofInt 64 (-3))
    else if s = "{s:A}" then .map [("s", .str [0x41#8])] else .nil

def exCfg : C01.Cfg := { maxSize := 2, size := fun d => d.length }
def o0 : C01.Oracle := {}

def exHist : List (C01.Op × C01.Oracle) :=
  [ (.insert [("u1", some [("n", "5"), ("nest", "{s:A}")]), ("u2", some [("n", "-3")])], o0),
    (.update [("u2", some [("n", "7")]), ("zz", some [("n", "5")])], o0),
    (.delete ["u1"], o0),
    (.insert [("u3", some [("n", "5")])], o0) ]

def exInit : State := State.init exSchema true
def exFinal : State := (State.run C02.exLower exConv exCfg exInit exHist).1

/-- `(n ≥ 5 AND (_id = u3 OR nest.s = "a")) OR _id = u2` -/
def exQuery : C02.Query :=
  .or (.cons
    (.and (.cons (.leaf (.int ["n"] .ge 5#64 0#64))
      (.cons (.or (.cons (.leaf (.idEq "u3")) (.cons (.leaf (.str ["nest", "s"] .equals [0x61#8] [])) .nil))) .nil)))
    (.cons (.leaf (.idEq "u2")) .nil))

def answerUuids : Answer → Option (List Uuid)
  | .rows l => some (l.map (·.1))
  | _ => none

/-- the point store after the history: `u3` sits under the reused node id 2 -/
example : exFinal.shard =
    { pts := { nI := [(3, "u2"), (2, "u3")], nD := [(3, [("n", "7")]), (2, [("n", "5")])], pI := [("u2", 3), ("u3", 2)] },
      count := some 2, free := some [], next := some 4 } := by decide
example : (State.run C02.exLower exConv exCfg exInit exHist).2 = [.ok, .updated ["u2"], .deleted ["u1"], .ok] := by decide
/-- the integer bucket holds the postings 5 ↦ {2}, 7 ↦ {3}; the string bucket is empty again -/
example : exFinal.idxs.map (fun ix => ix.kv.entries.map fun e => C02.decSet e.2) = [[[2#64], [3#64]], []] := by decide
/-- … and after the first batch it held 5 ↦ {2}, −3 ↦ {3} and "a" ↦ {2} -/
example : (State.run C02.exLower exConv exCfg exInit (exHist.take 1)).1.idxs.map
    (fun ix => ix.kv.entries.map fun e => C02.decSet e.2) = [[[3#64], [2#64]], [[2#64]]] := by decide

private theorem exNoFlt {st : State} (h : st.schema = exSchema) : ∀ ix ∈ st.idxs, ix.kind ≠ .flt := by
  intro ix hix hk
  have : (ix.path, ix.kind) ∈ st.schema := List.mem_map.2 ⟨ix, hix, rfl⟩
  rw [h, hk] at this
  change _ ∈ [((["n"] : List String), C02.Kind.int), (["nest", "s"], .str false)] at this
  simp at this

/-- the hypothesis `HistOK` of `Compose_inv_history` / `Compose_filter_exact` holds for this history … -/
example : HistOK C02.exLower exConv exCfg exInit exHist := by
  have s0 : exInit.schema = exSchema := init_schema _ _
  have s1 := (step_schema C02.exLower exConv exCfg exInit exHist[0].1 exHist[0].2).trans s0
  have s2 := (step_schema C02.exLower exConv exCfg _ exHist[1].1 exHist[1].2).trans s1
  have s3 := (step_schema C02.exLower exConv exCfg _ exHist[2].1 exHist[2].2).trans s2
  exact ⟨⟨by decide, fun pc _ ix hix hk => absurd hk (exNoFlt s0 ix hix)⟩,
    ⟨by decide, fun pc _ ix hix hk => absurd hk (exNoFlt s1 ix hix)⟩,
    ⟨by decide, fun pc _ ix hix hk => absurd hk (exNoFlt s2 ix hix)⟩,
    ⟨by decide, fun pc _ ix hix hk => absurd hk (exNoFlt s3 ix hix)⟩, trivial⟩

/-- … the query is well formed and valid … -/
example : exQuery.wf (exFinal.view exConv) = true := by decide
example : exQuery.Valid :=
  (C02.Query.valid_or _).2 ((C02.QList.valid_cons _ _).2 ⟨(C02.Query.valid_and _).2 ((C02.QList.valid_cons _ _).2
    ⟨(C02.Query.valid_leaf _).2 (C02.Leaf.valid_int ..), (C02.QList.valid_cons _ _).2 ⟨(C02.Query.valid_or _).2
      ((C02.QList.valid_cons _ _).2 ⟨(C02.Query.valid_leaf _).2 (C02.Leaf.valid_idEq _), (C02.QList.valid_cons _ _).2
        ⟨(C02.Query.valid_leaf _).2 (C02.Leaf.valid_str ..), C02.QList.valid_nil⟩⟩), C02.QList.valid_nil⟩⟩),
    (C02.QList.valid_cons _ _).2 ⟨(C02.Query.valid_leaf _).2 (C02.Leaf.valid_idEq _), C02.QList.valid_nil⟩⟩)

/-- … and the whole pipeline answers `u3` (node id 2) before `u2` (node id 3): ascending node id, not
insertion order -/
example : answerUuids (searchPoints C02.exLower exConv exFinal exQuery ⟨[["*"]], [], 0, 0⟩ id) = some ["u3", "u2"] := by
  decide
/-- the same query on the reference map, document by document -/
example : specMatches C02.exLower exConv exSchema (C01.abs exFinal.shard) exQuery "u3" :=
  ⟨some [("n", "5")], by decide, Or.inl ⟨⟨rfl, 5#64, by decide, by decide⟩, Or.inl rfl, trivial⟩⟩
/-- sorted by `n` descending, second page of size one: `u3` -/
example : answerUuids (searchPoints C02.exLower exConv exFinal exQuery ⟨[["n"]], [⟨["n"], true⟩], 1, 1⟩
    (C06.isort fun a b => C06.sortCmp [⟨["n"], true⟩] a.data b.data)) = some ["u3"] := by decide
/-- the sorter of the previous example satisfies the hypotheses on `rowSorter` -/
example : (∀ l : List (C06.Row Unit), (C06.isort (fun a b => C06.sortCmp [⟨["n"], true⟩] a.data b.data) l).Perm l) ∧
    ∀ l : List (C06.Row Unit), (C06.isort (fun a b => C06.sortCmp [⟨["n"], true⟩] a.data b.data) l).Pairwise
      (fun a b => C06.sortCmp [⟨["n"], true⟩] a.data b.data ≤ 0) :=
  ⟨fun l => C06.isort_perm _ l,
   fun l => C06.isort_sorted (c := fun (a b : C06.Row Unit) => C06.sortCmp [⟨["n"], true⟩] a.data b.data)
     ⟨fun a b => (C06.tpc_sortCmp _).antisymm a.data b.data, fun a b c => (C06.tpc_sortCmp _).trans a.data b.data c.data⟩ l⟩

/-- the single row of an answer: its uuid and the integer it returns under key `k` -/
def singleRow (a : Answer) (k : String) : Option (Uuid × BitVec 64) :=
  match a with
  | .rows [(u, d)] => (match C06.lookup d k with | some (.int _ x) => some (u, x) | _ => none)
  | _ => none

/-- write then read (`Compose_write_read`): the `_id` lookup after the update returns the merged document -/
example : singleRow (searchPoints C02.exLower exConv (State.run C02.exLower exConv exCfg exInit (exHist.take 2)).1
      (.leaf (.idAny ["u2", "nope"])) ⟨[["*"]], [], 0, 0⟩ id) "n" = some ("u2", 7#64) := by decide

/-- rejected batches (`Compose_rejected_noop`): an integer-indexed property holding a map, a stored id, a
repeated id, an oversized merge — each is refused … -/
example : ((exFinal.step C02.exLower exConv exCfg (.insert [("u9", some [("n", "{s:A}")])]) o0).2 = .rejected .index) ∧
    ((exFinal.step C02.exLower exConv exCfg (.insert [("u9", some []), ("u2", some [])]) o0).2 = .rejected .exists_) ∧
    ((exFinal.step C02.exLower exConv exCfg (.insert [("u9", some []), ("u9", some [])]) o0).2 = .rejected .dupInBatch) ∧
    ((exFinal.step C02.exLower exConv exCfg (.update [("u2", some [("a", "5"), ("b", "5")])]) o0).2 = .rejected .tooLarge) := by
  decide
/-- … and leaves the state as it was -/
example : (exFinal.step C02.exLower exConv exCfg (.insert [("u9", some [("n", "{s:A}")])]) o0).1 = exFinal :=
  (Compose_rejected_noop C02.exLower exConv exCfg exFinal (run_inv C02.exLower exConv exCfg exHist exInit
    (init_inv _ _ _ _) (by
      have s0 : exInit.schema = exSchema := init_schema _ _
      have s1 := (step_schema C02.exLower exConv exCfg exInit exHist[0].1 exHist[0].2).trans s0
      have s2 := (step_schema C02.exLower exConv exCfg _ exHist[1].1 exHist[1].2).trans s1
      have s3 := (step_schema C02.exLower exConv exCfg _ exHist[2].1 exHist[2].2).trans s2
      exact ⟨⟨by decide, fun pc _ ix hix hk => absurd hk (exNoFlt s0 ix hix)⟩,
        ⟨by decide, fun pc _ ix hix hk => absurd hk (exNoFlt s1 ix hix)⟩,
        ⟨by decide, fun pc _ ix hix hk => absurd hk (exNoFlt s2 ix hix)⟩,
        ⟨by decide, fun pc _ ix hix hk => absurd hk (exNoFlt s3 ix hix)⟩, trivial⟩)).store _ o0).1 .index (by decide)

end examples

end Sema.Compose
