/- line protocol of the ACCEPTANCE stream (`semadriver C02 accept`): histories in which most batches sit on
the boundary of `Acceptable` (one offending document among valid ones, every kind of type mismatch per index
kind, merged sizes max−1 / max / max+1, repeated / stored ids), answered by the COMBINED model
(`Compose.State.step`) and, beside it, by the INDEPENDENT predicate `Acceptable` evaluated on the reference map
the state stands for.  The real shard runs the batches the harness expects to be refused in child processes.

  aschema bolt|mem <maxPointSize> <n> {<path> <kind>}   → ok
  lower <hex raw> <hex lowered>                          → ok
  size <bytes> <val>                                     → ok     msgpack length of this document (harness: real encoder)
  ainsert <n> {<uuid> <nodeid hex16> <val>|Z}            → <out> acc=<0|1>[ !nodeids][ !size-missing]
  aupdate <n> {<uuid> <val>|Z}                           → <out> acc=<0|1>[ !size-missing]
  adelete <n> {<uuid>}                                   → <out> acc=<0|1>
  search … / dump …                                      as in Compose/Driver.lean (state after the batch)

  <out>  = ok | rejected:<reason> | updated:<uuids in batch order> | deleted:<sorted uuids>      (the MODEL's result)
  acc    = the decision of `Acceptable conv cfg schema (abs shard) op`                            (the SPECIFICATION)
  `Z`    = zero-length data.
The implementation's line carries the real result and `acc=1` iff the real shard took the batch, so one line
diff compares model = code on the result and specification = code on acceptance.  Core-only. -/
import SemaModel.Compose.Driver
import SemaModel.Compose.AcceptModel
namespace Sema.Compose.ADrv
open Sema Sema.Compose.Drv

structure ASt where
  d : DSt := {}
  maxSize : Nat := 0
  /-- canonical text of a document ↦ its msgpack length -/
  sizes : List (String × Nat) := []

def docKey (doc : C01.Doc) : String :=
  let sorted := (doc.toArray.qsort (fun a b => a.1 < b.1)).toList
  "\x1f".intercalate (sorted.map fun e => e.1 ++ "\x1e" ++ e.2)

def sizeOf? (a : ASt) (doc : C01.Doc) : Option Nat := (a.sizes.find? fun e => e.1 == docKey doc).map (·.2)

/-- a missing entry makes the document NOT fit, and is reported on the line -/
def cfgOf (a : ASt) : C01.Cfg := { maxSize := a.maxSize, size := fun doc => (sizeOf? a doc).getD (a.maxSize + 1) }

def dataOfTokens : List String → Option (C01.Data × List String)
  | "Z" :: r => some (none, r)
  | ts => (parseVal ts).map fun (v, r) => (docOfVal v, r)

def reasonText : C01.Reason → String
  | .dupInBatch => "dup-in-batch" | .exists_ => "exists" | .tooLarge => "too-large" | .badOld => "bad-old"
  | .badNew => "bad-new" | .index => "index" | .storage => "storage"

def outText : C01.Out → String
  | .ok => "ok"
  | .rejected r => "rejected:" ++ reasonText r
  | .updated ids => "updated:" ++ ",".intercalate ids
  | .deleted ids => "deleted:" ++ ",".intercalate (sortStrings ids)

/-- the merged documents of an update whose size the harness did not supply -/
def sizeMissing (a : ASt) (b : List (C01.Uuid × C01.Data)) : Bool :=
  (List.range b.length).any fun n =>
    match C01.mergedAt (C01.abs a.d.st.shard) b n with
    | some (some m) => (sizeOf? a m).isNone
    | _ => false

def run (a : ASt) (op : C01.Op) (o : C01.Oracle) : ASt × String :=
  let cfg := cfgOf a
  let acc := decide (Acceptable conv cfg a.d.st.schema (C01.abs a.d.st.shard) op)
  let r := a.d.st.step a.d.lower conv cfg op o
  ({ a with d := { a.d with st := r.1 } }, outText r.2 ++ " acc=" ++ (if acc then "1" else "0"))

def step (a : ASt) (line : String) : ASt × String :=
  let bad := (a, "bad-op")
  match (line.trimAscii.toString.splitOn " ").filter (· ≠ "") with
  | "aschema" :: b :: m :: n :: r =>
    match many (fun ts => match ts with
        | p :: k :: ts => (kind? k).map fun k => ((path? p, k), ts)
        | _ => none) n.toNat! r with
    | some (sch, _) => ({ d := { st := State.init sch (b == "bolt") }, maxSize := m.toNat!, sizes := [] }, "ok")
    | none => bad
  | "size" :: n :: r =>
    match parseVal r with
    | some (v, _) =>
      match docOfVal v with
      | some doc => ({ a with sizes := (docKey doc, n.toNat!) :: a.sizes }, "ok")
      | none => bad
    | none => bad
  | "ainsert" :: n :: r =>
    match many (fun ts => match ts with
        | u :: i :: ts => do
          let i ← natOfHex i
          let (d, ts) ← dataOfTokens ts
          pure ((u, i, d), ts)
        | _ => none) n.toNat! r with
    | some (ps, _) =>
      let o : C01.Oracle := { freeOrder := freeOrderFor a.d.st.shard (ps.map (·.2.1)) }
      let (a', s) := run a (.insert (ps.map fun p => (p.1, p.2.2))) o
      let okIds := ps.all fun p => C01.AL.get a'.d.st.shard.pts.pI p.1 == some p.2.1
      (a', if s.startsWith "ok" && !okIds then s ++ " !nodeids" else s)
    | none => bad
  | "aupdate" :: n :: r =>
    match many (fun ts => match ts with
        | u :: ts => (dataOfTokens ts).map fun (d, ts) => ((u, d), ts)
        | _ => none) n.toNat! r with
    | some (us, _) =>
      let miss := sizeMissing a us
      let (a', s) := run a (.update us) {}
      (a', if miss then s ++ " !size-missing" else s)
    | none => bad
  | "adelete" :: n :: r =>
    match many tok1 n.toNat! r with
    | some (us, _) => run a (.delete us) {}
    | none => bad
  | _ =>
    let (d', s) := Sema.Compose.Drv.step a.d line
    ({ a with d := d' }, s)

end Sema.Compose.ADrv

def Sema.Compose.acceptDriverMain (stdin stdout : IO.FS.Stream) (_args : List String) : IO Unit :=
  Sema.loopState stdin stdout Sema.Compose.ADrv.step {}
