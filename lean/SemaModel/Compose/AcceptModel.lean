/-
Compose / acceptance — an INDEPENDENT specification of which write batches a shard accepts.

Until now "is this batch accepted" was computed by the implementation model (`indexVerdict`: C02's `typesOk`
and `refused` on the change stream the model itself produces) and handed to the reference map as a bit
(`specHist`).  A model that rejects everything satisfied every refinement theorem.  Here acceptance is a
predicate on the REFERENCE MAP and the DOCUMENTS, written from the documentation's point of view
(docs/content/docs/concepts/indexing.md, manage/points.md), without any function of the implementation model:

  * `jsonAt v path`      what a JSON document holds at a dotted property path ("dates.created"): the path
                         descends through nested objects only; a null field counts as not there ("you can also
                         leave an indexed field blank"); anything else on the way blocks the path;
  * `hasKind kind v`     the value has the type the index expects: string / array of strings / integer / float;
  * `conforms schema d`  for every index entry the value at its path is absent or has that type;
  * `Acceptable`         insert ⇔ ids pairwise distinct ∧ none stored ∧ every document conforms;
                         update ⇔ every entry whose id is stored writes a document that conforms and fits
                                  `maxSize` (what it writes: `C01.mergedAt`, closed form; unknown ids skipped);
                         delete ⇔ always.

INTEGER vs FLOAT (decided by reading shard/index/dispatch.go and by running the real shard, notes/Accept.md):
at the shard API the two are disjoint — an integer index takes msgpack int64 values only (`.int`), a float
index float64 values only (`.flt`).  An integer-valued float (3.0) in an integer index and an integer in a
float index are both REFUSED by the shard; so are narrower integer encodings (int8 … uint64) and float32,
which this value type does not represent.  The conversion the documentation's examples rely on ("size": 10
as a JSON number) happens one layer up, in `models.IndexSchema.CheckCompatibleMap`, before the document is
encoded.

`refStep` / `refRun` are the reference run built on `Acceptable` alone.  Core-only (linked into the driver,
which prints the decision of `Acceptable` beside the model's verdict).
-/
import SemaModel.Compose.Model
import SemaModel.C01.AcceptModel
namespace Sema.Compose
open Sema

/-- an index schema: property path and index type per entry -/
abbrev Schema := List (List String × C02.Kind)

/-- what a JSON value holds at a property path -/
inductive At
  /-- an object on the way lacks the key, or the value there is null -/
  | absent
  /-- the path runs into something that is not an object -/
  | blocked
  | value (v : C02.Val)

/-- the value of a JSON document at a dotted path (`["dates", "created"]`): through nested objects only -/
def jsonAt : C02.Val → List String → At
  | .nil, [] => .absent
  | v, [] => .value v
  | .map m, k :: rest =>
    match m.lookup k with
    | none => .absent
    | some v => jsonAt v rest
  | _, _ :: _ => .blocked

def isStr : C02.Val → Bool
  | .str _ => true
  | _ => false

/-- the value has the type the index expects -/
def hasKind : C02.Kind → C02.Val → Bool
  | .str _, .str _ => true                  -- string
  | .strArr _, .arr l => l.all isStr        -- array of strings (possibly empty)
  | .int, .int _ => true                    -- integer (int64); NOT a float, even an integer-valued one
  | .flt, .flt _ => true                    -- float (float64); NOT an integer
  | _, _ => false

/-- an indexed field may be absent; if it is there it must have the index's type; a blocked path is an error -/
def fieldOk (k : C02.Kind) : At → Prop
  | .absent => True
  | .blocked => False
  | .value v => hasKind k v = true

instance (k : C02.Kind) (a : At) : Decidable (fieldOk k a) := by
  unfold fieldOk; split <;> exact inferInstance

/-- a JSON value conforms to an index schema -/
def jsonConforms (schema : Schema) (v : C02.Val) : Prop := ∀ e ∈ schema, fieldOk e.2 (jsonAt v e.1)

/-- **a document conforms to an index schema**: for every index entry, the value at the entry's path is
absent (or null), or has the entry's type.  (`idxDoc cv d` is the stored document — top-level keys ↦ value
text — read as a JSON object.) -/
def conforms (cv : Conv) (schema : Schema) (d : C01.Doc) : Prop := jsonConforms schema (idxDoc cv d)

instance (cv : Conv) (schema : Schema) : DecidablePred (conforms cv schema) := fun d => by
  unfold conforms jsonConforms; exact inferInstance

/-- **which batches a shard with this schema accepts**, on the reference map `c` (id ↦ data) alone -/
def Acceptable (cv : Conv) (cfg : C01.Cfg) (schema : Schema) (c : C01.Coll) : C01.Op → Prop
  | .insert b =>
    (b.map (·.1)).Nodup ∧                                           -- no id repeated in the batch
    (∀ e ∈ b, C01.AL.get c e.1 = none) ∧                            -- no id already stored
    (∀ e ∈ b, ∀ d, e.2 = some d → conforms cv schema d)             -- every document conforms
  | .update b =>
    ∀ n, n < b.length → ∀ w, C01.mergedAt c b n = some w →          -- entry n names a stored id (else: skipped)
      ∃ m, w = some m ∧ conforms cv schema m ∧ cfg.size m ≤ cfg.maxSize   -- the merged document conforms and fits
  | .delete _ => True

/-- the same, split into the point store's part and the schema's part (C01/AcceptModel.lean) -/
theorem acceptable_iff (cv : Conv) (cfg : C01.Cfg) (schema : Schema) (c : C01.Coll) (op : C01.Op) :
    Acceptable cv cfg schema c op ↔ C01.StoreAcceptable cfg c op ∧ C01.EachWritten (conforms cv schema) c op := by
  cases op with
  | insert b =>
    simp only [Acceptable, C01.StoreAcceptable, C01.EachWritten, C01.AL.keys]
    constructor
    · rintro ⟨h1, h2, h3⟩
      refine ⟨⟨h1, h2⟩, fun e he => ?_⟩
      cases hd : e.2 with
      | none => trivial
      | some d => exact h3 e he d hd
    · rintro ⟨⟨h1, h2⟩, h3⟩
      refine ⟨h1, h2, fun e he d hd => ?_⟩
      have := h3 e he; rw [hd] at this; exact this
  | update b =>
    simp only [Acceptable, C01.StoreAcceptable, C01.EachWritten]
    constructor
    · intro h
      refine ⟨fun n hn => ?_, fun n hn => ?_⟩ <;> cases hw : C01.mergedAt c b n with
      | none => trivial
      | some w =>
        obtain ⟨m, rfl, h1, h2⟩ := h n hn w hw
        first | exact h2 | exact h1
    · rintro ⟨h1, h2⟩ n hn w hw
      have f := h1 n hn; have s := h2 n hn
      rw [hw] at f s
      cases w with
      | none => exact absurd f (by simp [C01.WriteFits])
      | some m => exact ⟨m, rfl, s, f⟩
  | delete ids => simp [Acceptable, C01.StoreAcceptable, C01.EachWritten]

instance (cv : Conv) (cfg : C01.Cfg) (schema : Schema) (c : C01.Coll) (op : C01.Op) :
    Decidable (Acceptable cv cfg schema c op) :=
  decidable_of_iff _ (acceptable_iff cv cfg schema c op).symm

/-! ### the side condition of the file backend (DESIGN section 8 no. 14)

bbolt refuses the empty key, and the posting key of a string is its (case-folded) bytes: on the file backend a
batch that leaves a point with an indexed string — or string-array element — folding to `""` is rejected
although the documentation allows it.  The equivalence below is stated for the memory backend without
condition and for the file backend under "no written document holds such a string". -/

/-- a string does not fold to the empty byte string (anything that is not a string: nothing to say) -/
def strNonEmpty (lower : Bytes → Bytes) (cs : Bool) : C02.Val → Bool
  | .str b => !(if cs then b else lower b).isEmpty
  | _ => true

def emptyFreeAt (lower : Bytes → Bytes) : C02.Kind → At → Bool
  | .str cs, .value v => strNonEmpty lower cs v
  | .strArr cs, .value (.arr l) => l.all (strNonEmpty lower cs)
  | _, _ => true

/-- no string the document holds under a string / string-array index folds to the empty byte string -/
def emptyFree (lower : Bytes → Bytes) (cv : Conv) (schema : Schema) (d : C01.Doc) : Prop :=
  ∀ e ∈ schema, emptyFreeAt lower e.2 (jsonAt (idxDoc cv d) e.1) = true

instance (lower : Bytes → Bytes) (cv : Conv) (schema : Schema) : DecidablePred (emptyFree lower cv schema) := fun d => by
  unfold emptyFree; exact inferInstance

/-! ### the reference run, built on `Acceptable` alone -/

/-- one batch on the reference map: its documented effect if it is `Acceptable`, nothing otherwise (the
reported reason of a rejection is C01's: repeated id, stored id, size, not-a-document, else `index`) -/
def refStep (cv : Conv) (cfg : C01.Cfg) (schema : Schema) (c : C01.Coll) (op : C01.Op) : C01.Coll × C01.Out :=
  C01.Coll.step cfg c op (decide (C01.EachWritten (conforms cv schema) c op))

def refRun (cv : Conv) (cfg : C01.Cfg) (schema : Schema) : C01.Coll → List C01.Op → C01.Coll × List C01.Out
  | c, [] => (c, [])
  | c, op :: rest =>
    let r := refStep cv cfg schema c op
    let rr := refRun cv cfg schema r.1 rest
    (rr.1, r.2 :: rr.2)

/-- the file-backend side condition along a history, on the reference run -/
def BoltOK (lower : Bytes → Bytes) (cv : Conv) (cfg : C01.Cfg) (schema : Schema) (bolt : Bool) : C01.Coll → List C01.Op → Prop
  | _, [] => True
  | c, op :: rest =>
    (bolt = true → C01.EachWritten (emptyFree lower cv schema) c op) ∧
    BoltOK lower cv cfg schema bolt (refStep cv cfg schema c op).1 rest

end Sema.Compose
