/-
Compose / acceptance — extended to the RANKING indexes (vectorFlat, text) of Compose/RankModel.lean.

`Acceptable` (AcceptModel.lean) covers the filter indexes.  A vectorFlat entry demands of the value at its path
that the cast to a float32 vector succeeds, a text entry that the value is a string; absent / null values are
fine, a blocked path is not.  The vector cast is the abstract `env.vec` of RankModel.lean
(`castDataToArray[float32]`: an array all of whose elements are msgpack float32).  NB: the shard does NOT check
the vector's length against the index dimension — `CheckCompatibleMap` does, one layer up (notes/Accept.md).

  Accept_rank_iff                       the combined model WITH ranking indexes takes a batch ⇔ `RAcceptable`
  Accept_rank_inv_step                  the document invariant is kept
  Compose_rank_refines_independent_spec after any history the point store stands for the reference run whose
                                        decisions are `RAcceptable` — `rspecHist` / `fullVerdict` eliminated

A ranking index checks the TYPE of the new value only (`preProcessVamana` / `preProcessText` never look at the
old one), a filter index both: the equivalence needs "every stored document conforms", which is part of the
invariant and is itself a consequence of acceptance.
-/
import SemaModel.Compose.AcceptLemmas
import SemaModel.Compose.RankProps
set_option linter.unusedSimpArgs false
set_option linter.unusedVariables false
set_option linter.unusedSectionVars false
namespace Sema.Compose
open Sema
open Sema.C01 (Uuid Data Points Shard Ctr PInv CInv)

section
variable {V T D S W : Type}

/-- a ranking entry: absent is fine, blocked is an error, a present value must pass `ok` -/
def rankFieldOk (ok : C02.Val → Bool) : At → Prop
  | .absent => True
  | .blocked => False
  | .value x => ok x = true

instance (ok : C02.Val → Bool) (a : At) : Decidable (rankFieldOk ok a) := by
  unfold rankFieldOk; split <;> exact inferInstance

/-- a JSON value conforms to the ranking part of a schema: every vectorFlat path holds nothing or a vector
(`env.vec` succeeds), every text path nothing or a string -/
def jsonRankConforms (env : Env V T D S W) (fpaths tpaths : List (List String)) (v : C02.Val) : Prop :=
  (∀ p ∈ fpaths, rankFieldOk (fun x => (env.vec x).isSome) (jsonAt v p)) ∧
  (∀ p ∈ tpaths, rankFieldOk isStr (jsonAt v p))

def rankConforms (cv : Conv) (env : Env V T D S W) (fpaths tpaths : List (List String)) (d : C01.Doc) : Prop :=
  jsonRankConforms env fpaths tpaths (idxDoc cv d)

instance (cv : Conv) (env : Env V T D S W) (fpaths tpaths : List (List String)) :
    DecidablePred (rankConforms cv env fpaths tpaths) := fun d => by
  unfold rankConforms jsonRankConforms; exact inferInstance

/-- **which batches a shard with filter, vectorFlat and text indexes accepts** -/
def RAcceptable (cv : Conv) (cfg : C01.Cfg) (env : Env V T D S W) (schema : Schema) (fpaths tpaths : List (List String))
    (c : C01.Coll) (op : C01.Op) : Prop :=
  Acceptable cv cfg schema c op ∧ C01.EachWritten (rankConforms cv env fpaths tpaths) c op

instance (cv : Conv) (cfg : C01.Cfg) (env : Env V T D S W) (schema : Schema) (fpaths tpaths : List (List String))
    (c : C01.Coll) (op : C01.Op) : Decidable (RAcceptable cv cfg env schema fpaths tpaths c op) := by
  unfold RAcceptable; exact inferInstance

/-- the reference step for the full schema -/
def rrefStep (cv : Conv) (cfg : C01.Cfg) (env : Env V T D S W) (schema : Schema) (fpaths tpaths : List (List String))
    (c : C01.Coll) (op : C01.Op) : C01.Coll × C01.Out :=
  C01.Coll.step cfg c op (decide (C01.EachWritten (conforms cv schema) c op ∧ C01.EachWritten (rankConforms cv env fpaths tpaths) c op))

def rrefRun (cv : Conv) (cfg : C01.Cfg) (env : Env V T D S W) (schema : Schema) (fpaths tpaths : List (List String)) :
    C01.Coll → List C01.Op → C01.Coll × List C01.Out
  | c, [] => (c, [])
  | c, op :: rest =>
    let r := rrefStep cv cfg env schema fpaths tpaths c op
    let rr := rrefRun cv cfg env schema fpaths tpaths r.1 rest
    (rr.1, r.2 :: rr.2)

/-- the file-backend side condition along a history, on the reference run -/
def RBoltOK (lower : Bytes → Bytes) (cv : Conv) (cfg : C01.Cfg) (env : Env V T D S W) (schema : Schema)
    (fpaths tpaths : List (List String)) (bolt : Bool) : C01.Coll → List C01.Op → Prop
  | _, [] => True
  | c, op :: rest =>
    (bolt = true → C01.EachWritten (emptyFree lower cv schema) c op) ∧
    RBoltOK lower cv cfg env schema fpaths tpaths bolt (rrefStep cv cfg env schema fpaths tpaths c op).1 rest

/-! ### the ranking indexes' verdict, in the specification's words -/

/-- the path is not blocked -/
def pathFree (path : List String) : Option C02.Val → Prop
  | none => True
  | some v => match jsonAt v path with | .blocked => False | _ => True

def rankSide (ok : C02.Val → Bool) (path : List String) : Option C02.Val → Prop
  | none => True
  | some v => rankFieldOk ok (jsonAt v path)

theorem rankSide_free {ok : C02.Val → Bool} {path : List String} {d : Option C02.Val} (h : rankSide ok path d) : pathFree path d := by
  cases d with
  | none => trivial
  | some v =>
    simp only [rankSide, pathFree] at h ⊢
    cases hj : jsonAt v path <;> simp_all [rankFieldOk]

theorem docPathOk_iff (path : List String) (d : Option C02.Val) : C02.docPathOk d path = true ↔ pathFree path d := by
  cases d with
  | none => simp [C02.docPathOk, pathFree]
  | some v =>
    have := jsonAt_cases path v
    simp only [C02.docPathOk, pathFree]
    cases hj : jsonAt v path <;> (rw [hj] at this; simp [this.1])

theorem curOk_iff (ok : C02.Val → Bool) (path : List String) (d : Option C02.Val) :
    (C02.docPathOk d path = true ∧ (match C02.getProp d path with | none => True | some x => ok x = true)) ↔ rankSide ok path d := by
  cases d with
  | none => simp [C02.docPathOk, C02.getProp, rankSide]
  | some v =>
    have := jsonAt_cases path v
    simp only [C02.docPathOk, rankSide]
    cases hj : jsonAt v path <;> (rw [hj] at this; simp [this.1, this.2, rankFieldOk])

theorem flat_typesOk_iff (env : Env V T D S W) (fx : FlatIx V) (pcs : List C02.PChange) :
    fx.typesOk env pcs = true ↔
      ∀ pc ∈ pcs, pathFree fx.path pc.prev ∧ rankSide (fun x => (env.vec x).isSome) fx.path pc.cur := by
  unfold FlatIx.typesOk
  rw [List.all_eq_true]
  refine forall_congr' fun pc => forall_congr' fun _ => ?_
  rw [← curOk_iff, ← docPathOk_iff]
  cases hg : C02.getProp pc.cur fx.path <;> simp [Bool.and_eq_true, and_assoc]

theorem text_typesOk_iff (tx : TextIx T) (pcs : List C02.PChange) :
    tx.typesOk pcs = true ↔ ∀ pc ∈ pcs, pathFree tx.path pc.prev ∧ rankSide isStr tx.path pc.cur := by
  unfold TextIx.typesOk
  rw [List.all_eq_true]
  refine forall_congr' fun pc => forall_congr' fun _ => ?_
  rw [← curOk_iff, ← docPathOk_iff]
  cases hg : C02.getProp pc.cur tx.path with
  | none => simp [Bool.and_eq_true, and_assoc]
  | some x => cases x <;> simp [Bool.and_eq_true, and_assoc, isStr]

/-- both sides of a change -/
def valRankConforms (env : Env V T D S W) (fpaths tpaths : List (List String)) : Option C02.Val → Prop
  | none => True
  | some v => jsonRankConforms env fpaths tpaths v

/-- the previous side: paths not blocked -/
def valRankFree (fpaths tpaths : List (List String)) (d : Option C02.Val) : Prop :=
  (∀ p ∈ fpaths, pathFree p d) ∧ (∀ p ∈ tpaths, pathFree p d)

theorem valRankFree_of (env : Env V T D S W) {fpaths tpaths : List (List String)} {d : Option C02.Val}
    (h : valRankConforms env fpaths tpaths d) : valRankFree fpaths tpaths d := by
  cases d with
  | none => exact ⟨fun _ _ => trivial, fun _ _ => trivial⟩
  | some v =>
    exact ⟨fun p hp => rankSide_free (d := some v) (h.1 p hp), fun p hp => rankSide_free (d := some v) (h.2 p hp)⟩

theorem rankVerdict_iff (env : Env V T D S W) (rs : RState V T) (pcs : List C02.PChange) :
    rankVerdict env rs pcs = true ↔
      ∀ pc ∈ pcs, valRankFree rs.flatPaths rs.textPaths pc.prev ∧ valRankConforms env rs.flatPaths rs.textPaths pc.cur := by
  unfold rankVerdict
  rw [Bool.and_eq_true, List.all_eq_true, List.all_eq_true]
  simp only [flat_typesOk_iff, text_typesOk_iff]
  have memF : ∀ fx ∈ rs.flats, fx.path ∈ rs.flatPaths := fun fx hfx => List.mem_map.2 ⟨fx, hfx, rfl⟩
  have memT : ∀ tx ∈ rs.texts, tx.path ∈ rs.textPaths := fun tx htx => List.mem_map.2 ⟨tx, htx, rfl⟩
  have ofF : ∀ p ∈ rs.flatPaths, ∃ fx ∈ rs.flats, fx.path = p := fun p hp => List.mem_map.1 hp
  have ofT : ∀ p ∈ rs.textPaths, ∃ tx ∈ rs.texts, tx.path = p := fun p hp => List.mem_map.1 hp
  constructor
  · rintro ⟨hf, ht⟩ pc hpc
    refine ⟨⟨?_, ?_⟩, ?_⟩
    · intro p hp; obtain ⟨fx, hfx, rfl⟩ := ofF p hp; exact (hf fx hfx pc hpc).1
    · intro p hp; obtain ⟨tx, htx, rfl⟩ := ofT p hp; exact (ht tx htx pc hpc).1
    · cases hc : pc.cur with
      | none => trivial
      | some v =>
        refine ⟨?_, ?_⟩
        · intro p hp; obtain ⟨fx, hfx, rfl⟩ := ofF p hp; have := (hf fx hfx pc hpc).2; rw [hc] at this; exact this
        · intro p hp; obtain ⟨tx, htx, rfl⟩ := ofT p hp; have := (ht tx htx pc hpc).2; rw [hc] at this; exact this
  · intro h
    refine ⟨fun fx hfx pc hpc => ?_, fun tx htx pc hpc => ?_⟩
    · obtain ⟨⟨h1, _⟩, h2⟩ := h pc hpc
      refine ⟨h1 _ (memF fx hfx), ?_⟩
      cases hc : pc.cur with
      | none => trivial
      | some v => rw [hc] at h2; exact h2.1 _ (memF fx hfx)
    · obtain ⟨⟨_, h1⟩, h2⟩ := h pc hpc
      refine ⟨h1 _ (memT tx htx), ?_⟩
      cases hc : pc.cur with
      | none => trivial
      | some v => rw [hc] at h2; exact h2.2 _ (memT tx htx)

/-! ### the change stream, from its NEW documents alone -/

theorem insertChanges_cur (cv : Conv) (G : Option C02.Val → Prop) (b : List (Uuid × Data)) : ∀ (p : Points) (c : Ctr),
    (∀ e ∈ b, C01.AL.get p.pI e.1 = none) → (C01.AL.keys b).Nodup →
    (∀ pc ∈ insertChanges cv p c b, G pc.cur) → ∀ e ∈ b, C01.DataSat (fun d => G (some (idxDoc cv d))) e.2 := by
  induction b with
  | nil => intro p c _ _ _ e he; cases he
  | cons e rest ih =>
    obtain ⟨u, d⟩ := e
    intro p c hnone hn hall
    have hu : C01.AL.get p.pI u = none := hnone (u, d) List.mem_cons_self
    have hch : insertChanges cv p c ((u, d) :: rest) =
        ⟨nid c.nextId.1, none, idxData cv d⟩ :: insertChanges cv (C01.setPoint p u c.nextId.1 d) c.nextId.2 rest := by
      simp [insertChanges, hu]
    simp only [C01.AL.keys_cons, List.nodup_cons] at hn
    have hnone' : ∀ e ∈ rest, C01.AL.get (C01.setPoint p u c.nextId.1 d).pI e.1 = none := by
      intro e he
      rw [C01.setPoint_pI, C01.AL.get_put]
      have hne : u ≠ e.1 := by
        intro h; apply hn.1; rw [h]; exact List.mem_map.2 ⟨e, he, rfl⟩
      rw [if_neg hne]; exact hnone e (List.mem_cons_of_mem _ he)
    rw [hch] at hall
    intro e he
    rcases List.mem_cons.1 he with rfl | he
    · have := hall _ List.mem_cons_self
      cases d with
      | none => trivial
      | some dd => simpa [idxData, C01.DataSat] using this
    · exact ih _ _ hnone' hn.2 (fun pc hpc => hall pc (List.mem_cons_of_mem _ hpc)) e he

theorem updateChanges_cur (cv : Conv) (G : Option C02.Val → Prop) (cfg : C01.Cfg) (b : List (Uuid × Data)) : ∀ (p : Points), PInv p →
    (∀ n, n < b.length → C01.WriteFits cfg (C01.mergedAt (C01.absP p) b n)) →
    (∀ pc ∈ updateChanges cfg cv p b, G pc.cur) →
    ∀ n, n < b.length → C01.WriteSat (fun d => G (some (idxDoc cv d))) (C01.mergedAt (C01.absP p) b n) := by
  induction b with
  | nil => intro p _ _ _ n hn; cases hn
  | cons e rest ih =>
    obtain ⟨u, inc⟩ := e
    intro p hp hF hall
    have h0 : C01.WriteFits cfg (C01.mergedAt (C01.absP p) ((u, inc) :: rest) 0) := hF 0 (Nat.succ_pos _)
    have hne := C01.writeFits_ne h0
    have hF' := ((C01.forall_mergedAt_cons (C01.WriteFits cfg) (C01.absP p) _ rest hne).1 hF).2
    rw [C01.forall_mergedAt_cons _ (C01.absP p) _ rest hne]
    rw [C01.mergedAt_zero] at h0 ⊢
    cases hu : C01.AL.get p.pI u with
    | none =>
      have hg : C01.AL.get (C01.absP p) u = none := by rw [C01.get_absP, hu]; rfl
      have hs : C01.stepC (C01.absP p) (u, inc) = C01.absP p := by simp [C01.stepC, hg]
      have hch : updateChanges cfg cv p ((u, inc) :: rest) = updateChanges cfg cv p rest := by simp [updateChanges, hu]
      rw [hs] at hF' ⊢
      rw [hch] at hall
      exact ⟨by simp [hg, C01.WriteSat], ih p hp hF' hall⟩
    | some id =>
      cases hd : C01.AL.get p.nD id with
      | none =>
        have hg : C01.AL.get (C01.absP p) u = some none := by rw [C01.get_absP, hu]; simp [hd]
        simp [hg, C01.mergeAll, C01.WriteFits] at h0
      | some old =>
        have hg : C01.AL.get (C01.absP p) u = some (some old) := by rw [C01.get_absP, hu]; simp [hd]
        cases inc with
        | none => simp [hg, C01.mergeAll, C01.WriteFits] at h0
        | some i =>
          simp only [hg, Option.map_some, C01.mergeAll, C01.WriteFits] at h0
          have hsz : ¬ cfg.size (C01.merge old i) > cfg.maxSize := by omega
          have hch : updateChanges cfg cv p ((u, some i) :: rest) =
              ⟨nid id, some (idxDoc cv old), some (idxDoc cv (C01.merge old i))⟩ ::
                updateChanges cfg cv (C01.setPoint p u id (some (C01.merge old i))) rest := by
            simp [updateChanges, hu, hd, hsz]
          have hs : C01.stepC (C01.absP p) (u, some i) = C01.AL.put (C01.absP p) u (some (C01.merge old i)) := by
            simp [C01.stepC, hg]
          obtain ⟨hp1, habs1, _, _⟩ := C01.setPoint_live hp hu (C01.merge old i)
          rw [hs, ← habs1] at hF' ⊢
          rw [hch] at hall
          refine ⟨?_, ih _ hp1 hF' (fun pc hpc => hall pc (List.mem_cons_of_mem _ hpc))⟩
          simp only [hg, Option.map_some, C01.mergeAll, C01.WriteSat]
          exact hall _ List.mem_cons_self

/-- for a batch the point store accepts: if every NEW document of the change stream satisfies `G`, every
written document does (the converse, with the previous documents, is `changes_sat`) -/
theorem changes_cur (cv : Conv) (G : Option C02.Val → Prop) (cfg : C01.Cfg) (s : Shard) (hI : C01.Inv s) (op : C01.Op)
    (o : C01.Oracle) (hS : C01.StoreAcceptable cfg (C01.abs s) op)
    (h : ∀ pc ∈ changes cfg cv s op o, G pc.cur) :
    C01.EachWritten (fun d => G (some (idxDoc cv d))) (C01.abs s) op := by
  cases op with
  | insert b =>
    obtain ⟨hn, hnone⟩ := hS
    refine insertChanges_cur cv G b s.pts (C01.newIdCounter s o) ?_ hn h
    intro e he
    have := hnone e he
    rw [C01.abs, C01.get_absP] at this
    cases hg : C01.AL.get s.pts.pI e.1 with
    | none => rfl
    | some id => rw [hg] at this; cases this
  | update b => exact updateChanges_cur cv G cfg b s.pts hI.pts hS h
  | delete ids => trivial

/-! ### one step -/

variable [DecidableEq T]

/-- the document invariant with ranking indexes: `AInv` of the filter part, and every stored document conforms
to the ranking part of the schema -/
structure RAInv (lower : Bytes → Bytes) (cv : Conv) (env : Env V T D S W) (rs : RState V T) : Prop where
  base : AInv lower cv rs.base
  rank : ∀ u d, C01.AL.get (C01.abs rs.base.shard) u = some (some d) → rankConforms cv env rs.flatPaths rs.textPaths d

theorem rankVerdict_written (lower : Bytes → Bytes) (cv : Conv) (cfg : C01.Cfg) (env : Env V T D S W) {rs : RState V T}
    (hA : RAInv lower cv env rs) (op : C01.Op) (o : C01.Oracle)
    (hS : C01.StoreAcceptable cfg (C01.abs rs.base.shard) op) :
    rankVerdict env rs (changes cfg cv rs.base.shard op o) = true ↔
      C01.EachWritten (rankConforms cv env rs.flatPaths rs.textPaths) (C01.abs rs.base.shard) op := by
  rw [rankVerdict_iff]
  constructor
  · intro h
    exact changes_cur cv (valRankConforms env rs.flatPaths rs.textPaths) cfg rs.base.shard hA.base.store op o hS
      (fun pc hpc => (h pc hpc).2)
  · intro h pc hpc
    have := (changes_sat cv (valRankConforms env rs.flatPaths rs.textPaths) trivial cfg rs.base.shard hA.base.store op o hS hA.rank).2 h pc hpc
    exact ⟨valRankFree_of env this.1, this.2⟩

theorem eachWritten_and {P Q : C01.Doc → Prop} (c : C01.Coll) (op : C01.Op) :
    C01.EachWritten (fun d => P d ∧ Q d) c op ↔ C01.EachWritten P c op ∧ C01.EachWritten Q c op := by
  constructor
  · intro h; exact ⟨C01.eachWritten_mono (fun _ hd => hd.1) c op h, C01.eachWritten_mono (fun _ hd => hd.2) c op h⟩
  · rintro ⟨h1, h2⟩
    cases op with
    | insert b =>
      intro e he
      have a := h1 e he; have b' := h2 e he
      cases hd : e.2 with
      | none => trivial
      | some d => rw [hd] at a b'; exact ⟨a, b'⟩
    | update b =>
      intro n hn
      have a := h1 n hn; have b' := h2 n hn
      cases hw : C01.mergedAt c b n with
      | none => trivial
      | some w =>
        cases w with
        | none => trivial
        | some m => rw [hw] at a b'; exact ⟨a, b'⟩
    | delete ids => trivial

theorem fullVerdict_written (lower : Bytes → Bytes) (cv : Conv) (cfg : C01.Cfg) (env : Env V T D S W) {rs : RState V T}
    (hA : RAInv lower cv env rs) (op : C01.Op) (o : C01.Oracle) (hB : BoltStep lower cv rs.base op)
    (hS : C01.StoreAcceptable cfg (C01.abs rs.base.shard) op) :
    fullVerdict lower cv cfg env rs op o = true ↔
      (C01.EachWritten (conforms cv rs.base.schema) (C01.abs rs.base.shard) op ∧
       C01.EachWritten (rankConforms cv env rs.flatPaths rs.textPaths) (C01.abs rs.base.shard) op) := by
  unfold fullVerdict
  rw [Bool.and_eq_true, verdict_written lower cv cfg hA.base op o hB hS, rankVerdict_written lower cv cfg env hA op o hS]

theorem rstep_accept_iff (lower : Bytes → Bytes) (cv : Conv) (cfg : C01.Cfg) (env : Env V T D S W) {rs : RState V T}
    (hA : RAInv lower cv env rs) (op : C01.Op) (ro : ROracle T) (hB : BoltStep lower cv rs.base op) :
    (rs.step lower cv cfg env op ro).2.accepted = true ↔
      RAcceptable cv cfg env rs.base.schema rs.flatPaths rs.textPaths (C01.abs rs.base.shard) op := by
  rw [(rstep_shard lower cv cfg env rs op ro).2, C01.C01_accept_iff cfg rs.base.shard op _ hA.base.store]
  unfold RAcceptable
  rw [acceptable_iff]
  show (_ ∧ fullVerdict lower cv cfg env rs op ro.o = true) ↔ _
  constructor
  · rintro ⟨hS, hv⟩
    have := (fullVerdict_written lower cv cfg env hA op ro.o hB hS).1 hv
    exact ⟨⟨hS, this.1⟩, this.2⟩
  · rintro ⟨⟨hS, h1⟩, h2⟩
    exact ⟨hS, (fullVerdict_written lower cv cfg env hA op ro.o hB hS).2 ⟨h1, h2⟩⟩

theorem rrefStep_accepted (cv : Conv) (cfg : C01.Cfg) (env : Env V T D S W) (schema : Schema) (fpaths tpaths : List (List String))
    (c : C01.Coll) (op : C01.Op) :
    (rrefStep cv cfg env schema fpaths tpaths c op).2.accepted = true ↔ RAcceptable cv cfg env schema fpaths tpaths c op := by
  unfold rrefStep RAcceptable
  rw [C01.C01_coll_accept_iff, acceptable_iff, decide_eq_true_iff]
  constructor
  · rintro ⟨h1, h2, h3⟩; exact ⟨⟨h1, h2⟩, h3⟩
  · rintro ⟨⟨h1, h2⟩, h3⟩; exact ⟨h1, h2, h3⟩

theorem rstep_rrefStep (lower : Bytes → Bytes) (cv : Conv) (cfg : C01.Cfg) (env : Env V T D S W) {rs : RState V T}
    (hA : RAInv lower cv env rs) (op : C01.Op) (ro : ROracle T) (hB : BoltStep lower cv rs.base op) :
    C01.abs (rs.step lower cv cfg env op ro).1.base.shard =
      (rrefStep cv cfg env rs.base.schema rs.flatPaths rs.textPaths (C01.abs rs.base.shard) op).1 ∧
    C01.Out.equiv (rs.step lower cv cfg env op ro).2
      (rrefStep cv cfg env rs.base.schema rs.flatPaths rs.textPaths (C01.abs rs.base.shard) op).2 := by
  obtain ⟨hs1, hs2⟩ := rstep_shard lower cv cfg env rs op ro
  obtain ⟨_, k2, k3⟩ := C01.C01_step cfg rs.base.shard op { ro.o with indexOk := fullVerdict lower cv cfg env rs op ro.o } hA.base.store
  have hcong : C01.Coll.step cfg (C01.abs rs.base.shard) op (fullVerdict lower cv cfg env rs op ro.o) =
      rrefStep cv cfg env rs.base.schema rs.flatPaths rs.textPaths (C01.abs rs.base.shard) op := by
    unfold rrefStep
    apply C01.coll_step_congr
    intro hS
    have := fullVerdict_written lower cv cfg env hA op ro.o hB hS
    cases hv : fullVerdict lower cv cfg env rs op ro.o with
    | true => exact (decide_eq_true (this.1 hv)).symm
    | false =>
      symm; apply decide_eq_false
      intro hw; rw [this.2 hw] at hv; cases hv
  rw [hs1, hs2, ← hcong]
  exact ⟨k2, k3⟩

theorem rstep_paths (lower : Bytes → Bytes) (cv : Conv) (cfg : C01.Cfg) (env : Env V T D S W) (rs : RState V T)
    (op : C01.Op) (ro : ROracle T) :
    (rs.step lower cv cfg env op ro).1.base.schema = rs.base.schema ∧
    (rs.step lower cv cfg env op ro).1.flatPaths = rs.flatPaths ∧
    (rs.step lower cv cfg env op ro).1.textPaths = rs.textPaths ∧
    (rs.step lower cv cfg env op ro).1.base.bolt = rs.base.bolt := by
  rcases rstep_cases lower cv cfg env rs op ro with ⟨_, h⟩ | ⟨_, _, h⟩ | ⟨_, _, h⟩
  · rw [h]; exact ⟨rfl, rfl, rfl, rfl⟩
  · rw [h]; exact ⟨rfl, rfl, rfl, rfl⟩
  · rw [h]
    refine ⟨step_schema lower cv cfg rs.base op ro.o, ?_, ?_, step_bolt lower cv cfg rs.base op ro.o⟩
    · simp [RState.flatPaths, List.map_map, Function.comp_def, FlatIx.step_path]
    · simp [RState.textPaths, List.map_map, Function.comp_def, TextIx.step_path]

theorem rstep_rainv (lower : Bytes → Bytes) (cv : Conv) (cfg : C01.Cfg) (env : Env V T D S W) {rs : RState V T}
    (hA : RAInv lower cv env rs) (op : C01.Op) (ro : ROracle T) (hB : BoltStep lower cv rs.base op) :
    RAInv lower cv env (rs.step lower cv cfg env op ro).1 := by
  obtain ⟨p1, p2, p3, p4⟩ := rstep_paths lower cv cfg env rs op ro
  cases hacc : (rs.step lower cv cfg env op ro).2.accepted with
  | false =>
    have hsame : (rs.step lower cv cfg env op ro).1 = rs := by
      cases hx : (rs.step lower cv cfg env op ro).2 with
      | rejected r => exact (Compose_rank_rejected_noop lower cv cfg env rs op ro).2 r hx
      | ok => rw [hx] at hacc; cases hacc
      | updated ids => rw [hx] at hacc; cases hacc
      | deleted ids => rw [hx] at hacc; cases hacc
    rw [hsame]; exact hA
  | true =>
    have hRA := (rstep_accept_iff lower cv cfg env hA op ro hB).1 hacc
    obtain ⟨hS, hW⟩ := (acceptable_iff cv cfg rs.base.schema _ op).1 hRA.1
    have habs := (rstep_rrefStep lower cv cfg env hA op ro hB).1
    have href : rrefStep cv cfg env rs.base.schema rs.flatPaths rs.textPaths (C01.abs rs.base.shard) op =
        C01.Coll.step cfg (C01.abs rs.base.shard) op true := by
      unfold rrefStep; rw [decide_eq_true ⟨hW, hRA.2⟩]
    rw [href] at habs
    have hstore : C01.Inv (rs.step lower cv cfg env op ro).1.base.shard := by
      rw [(rstep_shard lower cv cfg env rs op ro).1]
      exact (C01.C01_step cfg rs.base.shard op _ hA.base.store).1
    refine ⟨⟨hstore, ?_, ?_⟩, ?_⟩
    · rw [p1, habs]; exact C01.C01_step_written cfg _ _ op hS hW hA.base.conf
    · rw [p4, p1, habs]; intro hb
      exact C01.C01_step_written cfg _ _ op hS (hB hb) (hA.base.nonempty hb)
    · rw [p2, p3, habs]; exact C01.C01_step_written cfg _ _ op hS hRA.2 hA.rank

theorem rinit_rainv (lower : Bytes → Bytes) (cv : Conv) (env : Env V T D S W) (schema : Schema) (bolt : Bool)
    (fpaths tpaths : List (List String)) : RAInv lower cv env (RState.init schema bolt fpaths tpaths : RState V T) := by
  refine ⟨init_ainv lower cv schema bolt, ?_⟩
  intro u d h
  have he : C01.abs (RState.init schema bolt fpaths tpaths : RState V T).base.shard = [] := rfl
  rw [he] at h; cases h

theorem rrun_rrefRun (lower : Bytes → Bytes) (cv : Conv) (cfg : C01.Cfg) (env : Env V T D S W)
    (h : List (C01.Op × ROracle T)) : ∀ (rs : RState V T), RAInv lower cv env rs →
    RBoltOK lower cv cfg env rs.base.schema rs.flatPaths rs.textPaths rs.base.bolt (C01.abs rs.base.shard) (h.map (·.1)) →
    RAInv lower cv env (RState.run lower cv cfg env rs h).1 ∧
    C01.abs (RState.run lower cv cfg env rs h).1.base.shard =
      (rrefRun cv cfg env rs.base.schema rs.flatPaths rs.textPaths (C01.abs rs.base.shard) (h.map (·.1))).1 ∧
    C01.Out.equivList (RState.run lower cv cfg env rs h).2
      (rrefRun cv cfg env rs.base.schema rs.flatPaths rs.textPaths (C01.abs rs.base.shard) (h.map (·.1))).2 := by
  induction h with
  | nil => intro rs hA _; exact ⟨hA, rfl, trivial⟩
  | cons e rest ih =>
    obtain ⟨op, ro⟩ := e
    intro rs hA hB
    simp only [List.map_cons, RBoltOK] at hB
    obtain ⟨h1, h2⟩ := rstep_rrefStep lower cv cfg env hA op ro hB.1
    have hA' := rstep_rainv lower cv cfg env hA op ro hB.1
    obtain ⟨p1, p2, p3, p4⟩ := rstep_paths lower cv cfg env rs op ro
    have hB' : RBoltOK lower cv cfg env (rs.step lower cv cfg env op ro).1.base.schema (rs.step lower cv cfg env op ro).1.flatPaths
        (rs.step lower cv cfg env op ro).1.textPaths (rs.step lower cv cfg env op ro).1.base.bolt
        (C01.abs (rs.step lower cv cfg env op ro).1.base.shard) (rest.map (·.1)) := by
      rw [p1, p2, p3, p4, h1]; exact hB.2
    obtain ⟨j0, j1, j2⟩ := ih _ hA' hB'
    rw [p1, p2, p3, h1] at j1 j2
    simp only [RState.run, List.map_cons, rrefRun]
    exact ⟨j0, j1, h2, j2⟩

/-! ### the theorems -/

/-- **Accept_rank_iff.** The combined model with filter, vectorFlat and text indexes takes a batch exactly when
it is `RAcceptable` on the reference map: `Acceptable` for the filter part of the schema, and every written
document holds, under each vectorFlat path, nothing or a vector and, under each text path, nothing or a string.
`rankVerdict` / `fullVerdict` (the model's computed verdict) do not occur on the right. -/
theorem Accept_rank_iff (lower : Bytes → Bytes) (cv : Conv) (cfg : C01.Cfg) (env : Env V T D S W) {rs : RState V T}
    (hA : RAInv lower cv env rs) (op : C01.Op) (ro : ROracle T) (hB : BoltStep lower cv rs.base op) :
    (rs.step lower cv cfg env op ro).2.accepted = true ↔
      RAcceptable cv cfg env rs.base.schema rs.flatPaths rs.textPaths (C01.abs rs.base.shard) op :=
  rstep_accept_iff lower cv cfg env hA op ro hB

/-- **Accept_rank_inv_step.** -/
theorem Accept_rank_inv_step (lower : Bytes → Bytes) (cv : Conv) (cfg : C01.Cfg) (env : Env V T D S W) {rs : RState V T}
    (hA : RAInv lower cv env rs) (op : C01.Op) (ro : ROracle T) (hB : BoltStep lower cv rs.base op) :
    RAInv lower cv env (rs.step lower cv cfg env op ro).1 :=
  rstep_rainv lower cv cfg env hA op ro hB

/-- **Compose_rank_refines_independent_spec.** From the empty shard of any schema (filter entries, vectorFlat
paths, text paths), after any history under any oracle values: the point store stands for exactly the reference
map `rrefRun … []` produces — every decision taken by `RAcceptable` —, all reported results agree, the document
invariant holds. (`Compose_rank_inv_history` states the same against `rspecHist`, which carries the model's own
`fullVerdict`.) -/
theorem Compose_rank_refines_independent_spec (lower : Bytes → Bytes) (cv : Conv) (cfg : C01.Cfg) (env : Env V T D S W)
    (schema : Schema) (bolt : Bool) (fpaths tpaths : List (List String)) (h : List (C01.Op × ROracle T))
    (hB : RBoltOK lower cv cfg env schema fpaths tpaths bolt [] (h.map (·.1))) :
    C01.abs (RState.run lower cv cfg env (RState.init schema bolt fpaths tpaths) h).1.base.shard =
      (rrefRun cv cfg env schema fpaths tpaths [] (h.map (·.1))).1 ∧
    C01.Out.equivList (RState.run lower cv cfg env (RState.init schema bolt fpaths tpaths) h).2
      (rrefRun cv cfg env schema fpaths tpaths [] (h.map (·.1))).2 ∧
    RAInv lower cv env (RState.run lower cv cfg env (RState.init schema bolt fpaths tpaths) h).1 := by
  have hinit : (RState.init schema bolt fpaths tpaths : RState V T).base.schema = schema ∧
      (RState.init schema bolt fpaths tpaths : RState V T).flatPaths = fpaths ∧
      (RState.init schema bolt fpaths tpaths : RState V T).textPaths = tpaths := by
    refine ⟨init_schema schema bolt, ?_, ?_⟩ <;> simp [RState.init, RState.flatPaths, RState.textPaths, Function.comp_def]
  have := rrun_rrefRun lower cv cfg env h (RState.init schema bolt fpaths tpaths) (rinit_rainv lower cv env schema bolt fpaths tpaths)
    (by rw [hinit.1, hinit.2.1, hinit.2.2]; exact hB)
  rw [hinit.1, hinit.2.1, hinit.2.2] at this
  exact ⟨this.2.1, this.2.2, this.1⟩

end

/-! ### non-vacuity (the schema, readers and history of RankProps.lean: integer `n`, vectorFlat `v`, text `t`) -/

section examples

theorem exRBoltOK : RBoltOK C02.exLower exRConv exRCfg exREnv [(["n"], .int)] [["v"]] [["t"]] true [] (exRHist.map (·.1)) := by
  refine ⟨fun _ => ?_, fun _ => ?_, fun _ => trivial, fun _ => ?_, trivial⟩ <;> decide

theorem exRAInv : RAInv C02.exLower exRConv exREnv exRFinal :=
  (Compose_rank_refines_independent_spec C02.exLower exRConv exRCfg exREnv [(["n"], .int)] true [["v"]] [["t"]] exRHist exRBoltOK).2.2

/-- the reference run, decided by `RAcceptable` alone, ends in the map the model's point store stands for -/
example : (rrefRun exRConv exRCfg exREnv [(["n"], .int)] [["v"]] [["t"]] [] (exRHist.map (·.1))).1 = C01.abs exRFinal.base.shard ∧
    (rrefRun exRConv exRCfg exREnv [(["n"], .int)] [["v"]] [["t"]] [] (exRHist.map (·.1))).2 = [.ok, .updated ["u2"], .deleted ["u1"], .ok] := by
  decide

/-- acceptable: a vector, a text, both, neither; NOT acceptable: a string under the vector path, a number under
the text path, an otherwise fine update that gives a stored point such a text — and the model agrees -/
example : RAcceptable exRConv exRCfg exREnv [(["n"], .int)] [["v"]] [["t"]] (C01.abs exRFinal.base.shard)
      (.insert [("u8", some [("v", "[1,1]"), ("t", "ab")]), ("u9", some [("n", "5")])]) ∧
    ¬ RAcceptable exRConv exRCfg exREnv [(["n"], .int)] [["v"]] [["t"]] (C01.abs exRFinal.base.shard) (.insert [("u9", some [("v", "ab")])]) ∧
    ¬ RAcceptable exRConv exRCfg exREnv [(["n"], .int)] [["v"]] [["t"]] (C01.abs exRFinal.base.shard) (.insert [("u9", some [("t", "5")])]) ∧
    ¬ RAcceptable exRConv exRCfg exREnv [(["n"], .int)] [["v"]] [["t"]] (C01.abs exRFinal.base.shard) (.update [("u3", some [("t", "5")])]) ∧
    RAcceptable exRConv exRCfg exREnv [(["n"], .int)] [["v"]] [["t"]] (C01.abs exRFinal.base.shard) (.update [("zz", some [("t", "5")])]) := by
  decide
example : (exRFinal.step C02.exLower exRConv exRCfg exREnv (.insert [("u8", some [("v", "[1,1]"), ("t", "ab")]), ("u9", some [("n", "5")])]) {}).2 = .ok ∧
    (exRFinal.step C02.exLower exRConv exRCfg exREnv (.insert [("u9", some [("v", "ab")])]) {}).2 = .rejected .index ∧
    (exRFinal.step C02.exLower exRConv exRCfg exREnv (.insert [("u9", some [("t", "5")])]) {}).2 = .rejected .index ∧
    (exRFinal.step C02.exLower exRConv exRCfg exREnv (.update [("u3", some [("t", "5")])]) {}).2 = .rejected .index ∧
    (exRFinal.step C02.exLower exRConv exRCfg exREnv (.update [("zz", some [("t", "5")])]) {}).2 = .updated [] := by
  decide

/-- `Accept_rank_iff` applied -/
example : (exRFinal.step C02.exLower exRConv exRCfg exREnv (.insert [("u8", some [("v", "[1,1]"), ("t", "ab")])]) {}).2.accepted = true :=
  (Accept_rank_iff C02.exLower exRConv exRCfg exREnv exRAInv _ {} (fun _ => by decide)).2 (by decide)

end examples

end Sema.Compose
