/- line protocol of the COMBINED model (`semadriver C02 compose`): the C02 op lines, answered by
`Compose.State` — C01's point store allocating the node ids itself, C02's indexes driven by the change
stream of the batch, every query through the whole `searchPoints` pipeline — plus `searchx` lines that
exercise select / sort / offset / limit.

  schema bolt|mem <n> {<path> <kind>}          → ok
  lower <hex raw> <hex lowered>                 → ok
  insert <n> {<uuid> <nodeid hex16> <val>}      → ok | rejected | ok!nodeids
        the recorded node ids are only used to fix the order in which the Go map of free ids was
        drained (oracle `freeOrder`, DESIGN 3.3); the ids themselves are allocated by the model's id
        counter and compared with the recorded ones (`ok!nodeids` = they differ)
  update <n> {<uuid> <val>}                     → ok | rejected
  delete <n> {<uuid>}                           → ok | rejected
  search <query>                                → ids:<sorted uuids> | error        (select ["*"], no sort, no paging)
  searchx <nsel> {<path>} <nsort> {<path> asc|desc} <off> <lim> <query>
        no sort keys → rows:<uuid>=<doc>;…            in answer order (ascending node id)
        sort keys    → keys:<k>|<k>;… set:<uuid>=<doc>;…   the sort-key tuples in answer order (ties may
                       come in any order: `slices.SortFunc`), then the rows as a sorted set when the
                       request has offset 0 and limit 0, else `-`
  dump <path>                                   → <hexkey>=<sorted uuids>;… | -

A stored top-level value is kept in C01's point store as the text of its `val` tokens (the string
"_delete" as C01's `deleteValue`); `Conv.idx` parses it back, `Conv.sel` maps it to what msgpack decodes it
to (int64 → `int 64`, float64 → `f64`).  The parsers are copies of those in C02/Driver.lean (which imports
this file to dispatch the `compose` mode, so they cannot be shared).  Core-only. -/
import SemaModel.Base.DriverUtil
import SemaModel.Compose.Model
namespace Sema.Compose.Drv
open Sema

def bytes? (s : String) : Option Bytes := if s == "-" then some [] else bytesOfHex s
def hexB (b : Bytes) : String := if b.isEmpty then "-" else hexOfBytes b
def u64? (s : String) : Option (BitVec 64) := (natOfHex s).map (BitVec.ofNat 64)

def op? : String → Option C02.Op
  | "equals" => some .equals | "notEquals" => some .notEquals | "startsWith" => some .startsWith
  | "greaterThan" => some .gt | "greaterThanOrEquals" => some .ge | "lessThan" => some .lt
  | "lessThanOrEquals" => some .le | "inRange" => some .inRange | _ => none

def kind? : String → Option C02.Kind
  | "str:cs" => some (.str true) | "str:ci" => some (.str false)
  | "arr:cs" => some (.strArr true) | "arr:ci" => some (.strArr false)
  | "int" => some .int | "flt" => some .flt | _ => none

def path? (s : String) : List String := s.splitOn "."

partial def many {α : Type} (p : List String → Option (α × List String)) : Nat → List String → Option (List α × List String)
  | 0, ts => some ([], ts)
  | n + 1, ts => do
    let (a, ts) ← p ts
    let (as, ts) ← many p n ts
    pure (a :: as, ts)

partial def parseVal : List String → Option (C02.Val × List String)
  | "N" :: r => some (.nil, r)
  | "T" :: r => some (.bool true, r)
  | "X" :: r => some (.bool false, r)
  | "A" :: n :: r => do
    let (l, r) ← many parseVal n.toNat! r
    pure (.arr l, r)
  | "M" :: n :: r => do
    let (l, r) ← many (fun ts => match ts with
      | k :: ts => (parseVal ts).map fun (v, ts) => ((k, v), ts)
      | [] => none) n.toNat! r
    pure (.map l, r)
  | t :: r =>
    match t.toList with
    | 'S' :: ':' :: cs => (bytes? (String.ofList cs)).map fun b => (.str b, r)
    | 'I' :: ':' :: cs => (u64? (String.ofList cs)).map fun x => (.int x, r)
    | 'F' :: ':' :: cs => (u64? (String.ofList cs)).map fun x => (.flt x, r)
    | _ => none
  | [] => none

def tok1 : List String → Option (String × List String)
  | t :: r => some (t, r)
  | [] => none

def toQList : List C02.Query → C02.QList
  | [] => .nil
  | q :: qs => .cons q (toQList qs)

partial def parseQuery : List String → Option (C02.Query × List String)
  | "str" :: p :: o :: v :: e :: r => do
    pure (.leaf (.str (path? p) (← op? o) (← bytes? v) (← bytes? e)), r)
  | "arr" :: p :: m :: n :: r => do
    let (vs, r) ← many (fun ts => match ts with | t :: ts => (bytes? t).map (·, ts) | [] => none) n.toNat! r
    pure (.leaf (.strArr (path? p) (m == "all") vs), r)
  | "int" :: p :: o :: v :: e :: r => do
    pure (.leaf (.int (path? p) (← op? o) (← u64? v) (← u64? e)), r)
  | "flt" :: p :: o :: v :: e :: r => do
    pure (.leaf (.flt (path? p) (← op? o) (← u64? v) (← u64? e)), r)
  | "ideq" :: u :: r => some (.leaf (.idEq u), r)
  | "idany" :: n :: r => do
    let (us, r) ← many tok1 n.toNat! r
    pure (.leaf (.idAny us), r)
  | "and" :: n :: r => do
    let (qs, r) ← many parseQuery n.toNat! r
    pure (.and (toQList qs), r)
  | "or" :: n :: r => do
    let (qs, r) ← many parseQuery n.toNat! r
    pure (.or (toQList qs), r)
  | _ => none

def sortStrings (l : List String) : List String := (l.toArray.qsort (· < ·)).toList
def sortDedup (l : List String) : List String := (sortStrings l).eraseDups

/-! ### the two readers of a stored value -/

partial def valTokens : C02.Val → List String
  | .nil => ["N"]
  | .bool true => ["T"]
  | .bool false => ["X"]
  | .str b => ["S:" ++ hexB b]
  | .int x => ["I:" ++ hexOfNat 16 x.toNat]
  | .flt x => ["F:" ++ hexOfNat 16 x.toNat]
  | .arr l => "A" :: toString l.length :: l.flatMap valTokens
  | .map m => "M" :: toString m.length :: m.flatMap fun e => e.1 :: valTokens e.2

/-- the text under which the point store keeps a top-level value -/
def encVal (v : C02.Val) : String :=
  if C02.isDelete v then C01.deleteValue else " ".intercalate (valTokens v)

def decVal (s : String) : C02.Val :=
  if s == C01.deleteValue then .str C02.deleteValue
  else match parseVal ((s.splitOn " ").filter (· ≠ "")) with
    | some (v, _) => v
    | none => .nil

/-- what msgpack decodes the value to (`any`): int64, float64, string, []any, map[string]any -/
partial def toSel : C02.Val → C06.Val
  | .nil => .nil
  | .bool b => .bool b
  | .str b => .str b
  | .int x => .int 64 x
  | .flt x => .f64 x
  | .arr l => .arr (l.map toSel)
  | .map m => .map (m.map fun e => (e.1, toSel e.2))

def conv : Conv := { idx := decVal, sel := fun s => toSel (decVal s) }

def docOfVal : C02.Val → C01.Data
  | .map m => some (m.map fun e => (e.1, encVal e.2))
  | _ => none

/-! ### printing -/

partial def selTokens : C06.Val → List String
  | .nil => ["N"]
  | .bool true => ["T"]
  | .bool false => ["X"]
  | .str b => ["S:" ++ hexB b]
  | .int _ x => ["I:" ++ hexOfNat 16 x.toNat]
  | .uint _ x => ["U:" ++ hexOfNat 16 x.toNat]
  | .f32 x => ["f:" ++ hexOfNat 8 x.toNat]
  | .f64 x => ["F:" ++ hexOfNat 16 x.toNat]
  | .bin b => ["B:" ++ hexB b]
  | .arr l => "A" :: toString l.length :: l.flatMap selTokens
  | .map m =>
    let keys := sortDedup (m.map (·.1))
    "M" :: toString keys.length :: keys.flatMap fun k =>
      match C06.lookup m k with
      | some v => k :: selTokens v
      | none => [k, "?"]

def docText (d : C06.Doc) : String := " ".intercalate (selTokens (.map d))

/-- a sort key as printed: the value under the path in the returned data, `~` when absent; −0.0 as +0.0
(they compare equal, so either may stand at a tied position) -/
def keyText (d : C06.Doc) (path : List String) : String :=
  match C06.access d path with
  | none => "~"
  | some (.f64 x) => if x == 0x8000000000000000#64 then "F:0000000000000000" else "F:" ++ hexOfNat 16 x.toNat
  | some v => " ".intercalate (selTokens v)

def insertBy {α : Type} (c : α → α → Int) (a : α) : List α → List α
  | [] => [a]
  | x :: l => if c a x ≤ 0 then a :: x :: l else x :: insertBy c a l

/-- a stable insertion sort: SOME sorted permutation, which is all `slices.SortFunc` promises -/
def isort {α : Type} (c : α → α → Int) (l : List α) : List α := l.foldr (insertBy c) []

/-! ### state -/

structure DSt where
  st : State := {}
  tab : List (Bytes × Bytes) := []

def DSt.lower (d : DSt) (b : Bytes) : Bytes := ((d.tab.find? fun e => e.1 == b).map (·.2)).getD b

def cfg : C01.Cfg := { maxSize := 0, size := fun _ => 0 }   -- the harness never reaches MaxPointSize

def uuidsOf (pts : List C02.Point) (s : C02.IdSet) : String :=
  ",".intercalate (sortDedup (s.map fun i =>
    match pts.find? (fun p => p.id == i) with
    | some p => p.uuid
    | none => "?" ++ hexOfNat 16 i.toNat))

def dump (v : C02.St) (path : List String) : String :=
  match v.index path with
  | none => "no-such-index"
  | some ix =>
    if ix.kv.entries.isEmpty then "-" else
    ";".intercalate (ix.kv.entries.map fun e => hexB e.1 ++ "=" ++ uuidsOf v.pts (C02.decSet e.2))

def write (d : DSt) (op : C01.Op) (o : C01.Oracle) : DSt × Bool :=
  let r := d.st.step d.lower conv cfg op o
  ({ d with st := r.1 }, !(isRejected r.2))

/-- the order in which the free node ids were handed out: the recorded ones first, in batch order -/
def freeOrderFor (s : C01.Shard) (recorded : List Nat) : List Nat :=
  let free := C01.dedup s.freeV
  let first := recorded.filter fun i => free.contains i
  first ++ free.filter fun i => !(first.contains i)

def answerText (a : Answer) (f : List (C01.Uuid × C06.Doc) → String) : String :=
  match a with
  | .rows l => f l
  | .badQuery => "error"
  | .danglingNode => "error:dangling-node"
  | .selectError => "error:select"
  | .slicePanic => "error:slice"

def rowText (r : C01.Uuid × C06.Doc) : String := r.1 ++ "=" ++ docText r.2

def step (d : DSt) (line : String) : DSt × String :=
  let bad := (d, "bad-op")
  match (line.trimAscii.toString.splitOn " ").filter (· ≠ "") with
  | "schema" :: b :: n :: r =>
    match many (fun ts => match ts with
        | p :: k :: ts => (kind? k).map fun k => ((path? p, k), ts)
        | _ => none) n.toNat! r with
    | some (sch, _) => ({ d with st := State.init sch (b == "bolt") }, "ok")
    | none => bad
  | ["lower", a, b] =>
    match bytes? a, bytes? b with
    | some a, some b => ({ d with tab := (a, b) :: d.tab }, "ok")
    | _, _ => bad
  | "insert" :: n :: r =>
    match many (fun ts => match ts with
        | u :: i :: ts => do
          let i ← natOfHex i
          let (v, ts) ← parseVal ts
          pure ((u, i, v), ts)
        | _ => none) n.toNat! r with
    | some (ps, _) =>
      let o : C01.Oracle := { freeOrder := freeOrderFor d.st.shard (ps.map (·.2.1)) }
      let (d', ok) := write d (.insert (ps.map fun p => (p.1, docOfVal p.2.2))) o
      if !ok then (d', "rejected")
      else if ps.all fun p => C01.AL.get d'.st.shard.pts.pI p.1 == some p.2.1 then (d', "ok") else (d', "ok!nodeids")
    | none => bad
  | "update" :: n :: r =>
    match many (fun ts => match ts with
        | u :: ts => (parseVal ts).map fun (v, ts) => ((u, v), ts)
        | _ => none) n.toNat! r with
    | some (us, _) =>
      let (d', ok) := write d (.update (us.map fun p => (p.1, docOfVal p.2))) {}
      (d', if ok then "ok" else "rejected")
    | none => bad
  | "delete" :: n :: r =>
    match many tok1 n.toNat! r with
    | some (us, _) =>
      let (d', ok) := write d (.delete us) {}
      (d', if ok then "ok" else "rejected")
    | none => bad
  | "search" :: r =>
    match parseQuery r with
    | some (q, _) =>
      (d, answerText (searchPoints d.lower conv d.st q ⟨[["*"]], [], 0, 0⟩ id)
        fun l => "ids:" ++ ",".intercalate (sortDedup (l.map (·.1))))
    | none => bad
  | "searchx" :: nsel :: r =>
    match (do
      let (sel, r) ← many tok1 nsel.toNat! r
      let (nsort, r) ← tok1 r
      let (sorts, r) ← many (fun ts => match ts with
        | p :: dir :: ts => some ((⟨path? p, dir == "desc"⟩ : C06.SortOpt), ts)
        | _ => none) nsort.toNat! r
      let (off, r) ← tok1 r
      let (lim, r) ← tok1 r
      let (q, _) ← parseQuery r
      pure (sel, sorts, off.toNat!, lim.toNat!, q)) with
    | some (sel, sorts, off, lim, q) =>
      let rq : C06.Request := ⟨sel.map path?, sorts, off, lim⟩
      let sorter := isort fun (a b : C06.Row Unit) => C06.sortCmp sorts a.data b.data
      (d, answerText (searchPoints d.lower conv d.st q rq sorter) fun l =>
        if sorts.isEmpty then "rows:" ++ ";".intercalate (l.map rowText)
        else "keys:" ++ ";".intercalate (l.map fun r => "|".intercalate (sorts.map fun o => keyText r.2 o.path)) ++
          " set:" ++ (if off == 0 && lim == 0 then ";".intercalate (sortStrings (l.map rowText)) else "-"))
    | none => bad
  | ["dump", p] => (d, dump (d.st.view conv) (path? p))
  | _ => bad

end Sema.Compose.Drv

def Sema.Compose.driverMain (stdin stdout : IO.FS.Stream) (_args : List String) : IO Unit :=
  Sema.loopState stdin stdout Sema.Compose.Drv.step {}
