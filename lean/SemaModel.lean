import SemaModel.Base.Bytes
import SemaModel.Base.BytesLemmas
import SemaModel.Base.Float
import SemaModel.Base.GoRt
import SemaModel.Generated.Sortable
import SemaModel.Generated.Keys
import SemaModel.Generated.Conversion
import SemaModel.Generated.BitDist
