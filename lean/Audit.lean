/-
Audit: for every theorem declared in the given module(s), print the axioms it depends on.
usage: lake env lean --run Audit.lean SemaModel.C19.Props [...]
output: one line per theorem:  THEOREM <module> <name> AXIOMS <comma separated, or ->
-/
import Lean
open Lean

def auditModule (env : Environment) (modName : Name) : IO Unit := do
  let some idx := env.getModuleIdx? modName
    | throw <| IO.userError s!"module {modName} not found"
  let md := env.header.moduleData[idx.toNat]!
  for ci in md.constants do
    match ci with
    | .thmInfo tv =>
      if tv.name.isInternal then continue
      -- only theorems of the property namespace (Sema.Cxx): skips equation lemmas realised here
      let ns := (`Sema).str (modName.components.getD 1 `_ |>.toString)
      if !ns.isPrefixOf tv.name then continue
      -- skip compiler-generated lemmas (equation lemmas, match/structure auxiliaries): they are not proof obligations
      let last := match tv.name with | .str _ s => s | _ => ""
      if last.startsWith "eq_" || last == "eq_def" || last.startsWith "match_" || last.startsWith "proof_" ||
         last == "sizeOf_spec" || last == "injEq" || last == "inj" || last.startsWith "_" || last == "noConfusion" ||
         last.endsWith "_eq" && (tv.name.toString.splitOn ".").any (·.startsWith "match_") then continue
      let (axs, _) ← ((collectAxioms tv.name : CoreM _).toIO
        { fileName := "<audit>", fileMap := default } { env := env })
      let axs := axs.qsort Name.lt
      let s := if axs.isEmpty then "-" else ",".intercalate (axs.toList.map toString)
      -- a hash of the statement (pretty-printing independent: the hash of the type expression)
      IO.println s!"THEOREM {modName} {tv.name} AXIOMS {s} STMT {tv.type.hash}"
    | _ => pure ()

unsafe def main (args : List String) : IO UInt32 := do
  initSearchPath (← findSysroot)
  let mods := args.map String.toName
  let env ← importModules (mods.toArray.map fun m => { module := m }) {} (trustLevel := 0)
  for m in mods do
    auditModule env m
  return 0
