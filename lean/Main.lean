/- model driver: `semadriver <property>` reads op lines on stdin, prints one canonical output line per op -/
import SemaModel.C19.Driver

partial def loopPure (h : IO.FS.Stream) (out : IO.FS.Stream) (f : String → String) : IO Unit := do
  let line ← h.getLine
  if line.isEmpty then return ()
  out.putStrLn (f line)
  loopPure h out f

def main (args : List String) : IO UInt32 := do
  let stdin ← IO.getStdin
  let stdout ← IO.getStdout
  match args with
  | ["C19"] => loopPure stdin stdout Sema.C19.step; return 0
  | _ => IO.eprintln "usage: semadriver <property id>"; return 2
